#!/usr/bin/env python3
"""Builds /verif/known_findings.json (the single known-findings file read by the checks) from the per-property
source files known_findings.d/*.json plus the list of repaired defects.  Run by hand after editing; never at
check time."""
import glob
import json
import os
import subprocess

ROOT = os.path.dirname(os.path.dirname(os.path.abspath(__file__)))

# builders numbered some findings independently: unique numbers for the consolidated file / DESIGN.md
RENAME = {("C07", "F17"): "F30", ("C12", "F17"): "F31", ("C17", "F17"): "F32", ("C15", "F18"): "F33",
          ("C20", "F18"): "F34", ("C20", "F18b"): "F34b", ("C08", "F17"): "F43", ("C08", "F18"): "F44"}

FIXED = [
    ("C14", "F7", "BinaryZlibFile._fill_buffer stops at the end-of-stream marker", "zlib/gzip file followed by >= 1 byte: joblib.load never returned"),
    ("C04", "F4", "reset Parallel's look-ahead batch queue", "leftover look-ahead batches of a failed/closed call were returned by the next call (also C16)"),
    ("C01", "F5", "Parallel._start sets _iterating under the dispatch lock", "lost update of _iterating between read and write in _start: call hangs (also C04)"),
    ("C04", "F15", "renew Parallel's call id atomically", "late completion of an aborted call accepted between reset and new call id: AttributeError '_result'"),
    ("C08", "F11", "hash frozensets through a sorted sequence", "frozenset digest depended on insertion order and PYTHONHASHSEED"),
    ("C05", "F9", "func_code.py truncated inside its first-line header", "torn func_code.py ('# first line:') made every later call raise ValueError"),
    ("C05", "F8", "a cache entry whose metadata is missing is invalid", "crash between the two renames + expires_after: permanent KeyError('time')"),
    ("C09", "F22", "dispatch_one_batch re-checks the abort flag under the lock", "items taken from the input after a task failed (abort flag only checked before the lock)"),
    ("C04", "F17", "a completion callback of a previous call no longer updates", "_dispatch_new of a previous call bumped counters / dispatched from the input of the current call (also C09)"),
    ("C04", "F25", "Parallel raises an error registered before any task was dispatched", "failing input iterable with pre_dispatch='all' returned []/partial results silently"),
    ("C04", "F35", "a failing task (or closed generator) with n_jobs=1 and verbose > 0 raises its own exception", "n_jobs=1, verbose>0: a failing task / failing input / closed generator raised AttributeError('_pre_dispatch_amount') from print_progress in the finally block instead of its own exception"),
    ("C12", "F36", "MemorizedFunc remembers the code object it introspected", "func.__code__ replaced by an equal recompilation and later by an edited body allocated at the recycled address of the first code object: the edit was not detected and the old cached value was served"),
    ("C16", "F37", "closing the output generator from another thread still aborts the call", "generator closed from a thread other than the caller's with warnings turned into errors (-W error): the 'gc'ed in an unexpected thread' UserWarning was raised before the clean-up was handed over, so the call was never aborted (callbacks kept dispatching, leftovers in the next call) and the backend not terminated"),
    ("C10", "F38", "the loky executor manager is woken up again after workers are (re)spawned", "all loky workers exited on idle timeout, a single-task call respawns them after the manager thread went back to wait() on the old (empty) sentinel set: the death of the fresh worker was noticed only at the next unrelated event (idle timeout 300 s): the call hung"),
    ("C12", "F45", "a function validated against one Memory location is no longer trusted at another location", "two cache locations in one process: after Memory(A).cache(f)(x) had validated f (A empty), Memory(B).cache(f)(x) skipped the comparison with the source stored in B (_FUNCTION_HASHES fast path) and returned the value cached there by the previous version of f"),
    ("C17", "F46", "the loky backend is re-created after an abort with the settings of its Parallel object", "with Parallel(n_jobs=2, backend='loky', max_nbytes=10, temp_folder=X, mmap_mode='c') as p: after a call in which a task raised, LokyBackend.abort_everything reconfigured the executor without Parallel._backend_kwargs: the following calls on p ran with the default max_nbytes / temp folder / mmap_mode / context"),
    ("C17", "F47", "a loky executor created for another temp_folder is not reused", "Parallel(n_jobs=2, temp_folder=X) after an earlier loky call with otherwise equal settings reused the running executor, whose temporary-folder manager keeps the folder it was created with: arrays were memmapped under the earlier call's folder (/dev/shm) instead of X, although Parallel._backend_kwargs['temp_folder'] showed X"),
    ("C16", "F48", "an input failure met by a completion callback after the call was aborted is dropped", "output generator closed (or a task failed) while a completion callback was inside a slow input iterator, on a backend that cannot join its callback threads at abort: the iterator then raised, dispatch_one_batch registered the error tracker in the job queue of the finished call, and the NEXT call on the same Parallel object raised that stale error (ordered modes)"),
    ("C12", "F51", "MemorizedFunc.call checks the recorded source before storing the forced result", "forced execution MemorizedFunc.call(a) stored its value without comparing or recording the function's source: (a) call() in a fresh cache directory left an entry without func_code.py, after an edit of the function a new process's check_call_in_cache wrote the NEW source and its ordinary call then returned the OLD value; (b) call() of edited code stored the new value under the old source record, a process with the old text then returned the new value"),
    ("C19", "F52", "mmap_mode=None disables the automatic memmapping of large arguments", "Parallel(n_jobs=2, max_nbytes=10, mmap_mode=None) with an array above max_nbytes: the array was still dumped to a temp file and the worker failed in load_temporary_memmap (ndarray has no attribute filename): BrokenProcessPool on loky, a hang on multiprocessing; None is documented as 'disable memmapping'"),
    ("C06", "F53", "the cached wrappers take self (and Memory.eval its function) positionally only", "a cached function with a parameter named 'self' called with it by keyword (f(self=1, x=2)): __call__, call, call_and_shelve and check_call_in_cache of MemorizedFunc / NotMemorizedFunc / the async variants raised TypeError('got multiple values for argument self') although the plain function accepts the call; the same for Memory.eval(g, func=3) and a parameter named 'func'"),
    ("C14", "F50", "format_signature takes the function positionally only", "a cached function with a parameter named 'func', called with it by keyword, on a damaged output.pkl: the recovery path of MemorizedFunc._cached_call called format_signature(self.func, *args, **kwargs), whose own first parameter is named func: TypeError('got multiple values for argument func') instead of a warning and a recomputation"),
    ("C19", "F28", "a contiguous view of a memmap is re-mapped in the workers with the memory order of the view", "transposed / F-ordered contiguous memmap views presented wrong values to process workers"),
]


def main():
    log = subprocess.run(["git", "-C", "/repo", "log", "--format=%H %s"], stdout=subprocess.PIPE, text=True).stdout.splitlines()
    out = []
    for f in sorted(glob.glob(os.path.join(ROOT, "known_findings.d", "*.json"))):
        for k in json.load(open(f))["findings"]:
            k = dict(k)
            k["id"] = RENAME.get((k["property"], k["id"]), k["id"])
            out.append(k)
    for prop, fid, subj, what in FIXED:
        commit = next((l.split()[0] for l in log if subj in l), None)
        out.append({"property": prop, "id": fid, "kind": "fixed", "commit": commit, "key": "fixed:" + fid,
                    "what": what, "line": "fixed: property=%s %s %s" % (prop, commit, what)})
    json.dump({"findings": out,
               "note": "kind 'known': a genuine defect of the unchanged tree that is recorded, not repaired; a violation whose "
                       "key (computed by the check from the failing case) equals an entry's key is printed as KNOWN-FINDING and "
                       "does not fail the check; any other violation of the same property does. kind 'fixed': repaired by the "
                       "named fix: commit in /repo; suppresses nothing."},
              open(os.path.join(ROOT, "known_findings.json"), "w"), indent=1)
    print("known_findings.json: %d known, %d fixed" % (sum(1 for k in out if k["kind"] == "known"), sum(1 for k in out if k["kind"] == "fixed")))
    missing = [k for k in out if k["kind"] == "fixed" and not k["commit"]]
    if missing:
        print("WARNING: fix commit not found for", [k["id"] for k in missing])


if __name__ == "__main__":
    main()
