"""Regenerate coq/Gen/T_njobs.v from the live source:

  joblib/_parallel_backends.py   SequentialBackend.effective_n_jobs, PoolManagerMixin.effective_n_jobs,
                                 LokyBackend.effective_n_jobs, MultiprocessingBackend.effective_n_jobs
  joblib/externals/loky/backend/context.py   _cpu_count_user, cpu_count (logical-core path)

Reading of the source stated by the tables below (each entry is an assumption of the tie):
  * n_jobs is an int (Parallel.__init__ does int(n_jobs)); `n_jobs is None` is therefore false;
  * `mp is None` is the parameter mp_none; `cpu_count()` is the parameter cpus;
  * `mp.current_process().daemon` = daemon, `process_executor._CURRENT_DEPTH` = depth,
    `self.in_main_thread()` = main_thread, `self.nesting_level` = level;
  * statements that only build and emit a warning (`if n_jobs != 1: ... warnings.warn(...)`) have no
    effect on the result (warnings are not turned into errors); they are recognised structurally;
  * `super(MultiprocessingBackend, self).effective_n_jobs(n_jobs)` is the translated
    PoolManagerMixin.effective_n_jobs (MRO of MultiprocessingBackend);
  * cpu_count: Linux (the win32 clamp is skipped); `os.cpu_count()` is `os_raw : option Z`;
    `_cpu_count_affinity/_cpu_count_cgroup` are parameters `aff`/`cg : option Z` (None = "not available",
    for which both functions return os_cpu_count); LOKY_MAX_CPU_COUNT is `loky_env : option Z`;
    only the only_physical_cores=False path is translated (everything after its `return` is skipped).
"""
import ast
import os
import sys
sys.path.insert(0, os.path.dirname(os.path.abspath(__file__)))
import common
import translate_c17 as translate

ENVP = [("mp_none", "bool"), ("cpus", "Z"), ("daemon", "bool"), ("depth", "Z"), ("main_thread", "bool"),
        ("level", "Z"), ("n_jobs", "Z")]
SUBST = {
    "mp is None": ("mp_none", "bool"),
    "n_jobs is None": ("false", "bool"),
    "cpu_count()": ("cpus", "Z"),
    "mp.current_process().daemon": ("daemon", "bool"),
    "process_executor._CURRENT_DEPTH": ("depth", "Z"),
    "self.in_main_thread()": ("main_thread", "bool"),
    "self.nesting_level": ("level", "Z"),
    "super(MultiprocessingBackend, self).effective_n_jobs(n_jobs)":
        ("pool_effective_n_jobs mp_none cpus n_jobs", "Z", True),
}


def _warning_only(stmt):
    """True when the statement can only assign `msg`, test n_jobs/inside_dask_worker() and call
    warnings.warn: it cannot change the value the function returns."""
    if isinstance(stmt, ast.Assign):
        return (len(stmt.targets) == 1 and isinstance(stmt.targets[0], ast.Name) and stmt.targets[0].id == "msg"
                and isinstance(stmt.value, (ast.Constant, ast.JoinedStr)))
    if isinstance(stmt, ast.Expr) and isinstance(stmt.value, ast.Call):
        return ast.unparse(stmt.value.func) == "warnings.warn"
    if isinstance(stmt, ast.If):
        if ast.unparse(stmt.test) not in ("n_jobs != 1", "inside_dask_worker()"):
            return False
        return all(_warning_only(s) for s in stmt.body + stmt.orelse)
    return False


def warning_skips(path, qualname):
    node, _ = translate.find_function(path, qualname)
    out = []
    for n in ast.walk(node):
        if isinstance(n, ast.If) and ast.unparse(n.test) == "n_jobs != 1" and _warning_only(n):
            out.append(ast.unparse(n))
    return list(dict.fromkeys(out))


def eff_cfg(path, qualname, params):
    return {"params": params, "env": {"n_jobs": ("n_jobs", "Z")}, "subst": SUBST,
            "skip": warning_skips(path, qualname), "ret": "Z"}


CPU_USER_CFG = {
    "params": [("os_cpu_count", "Z"), ("aff", "option Z"), ("cg", "option Z"), ("loky_env", "option Z")],
    "env": {"os_cpu_count": ("os_cpu_count", "Z")},
    "subst": {
        "_cpu_count_affinity(os_cpu_count)": ("(match aff with Some a => a | None => os_cpu_count end)", "Z"),
        "_cpu_count_cgroup(os_cpu_count)": ("(match cg with Some a => a | None => os_cpu_count end)", "Z"),
        "int(os.environ.get('LOKY_MAX_CPU_COUNT', os_cpu_count))":
            ("(match loky_env with Some a => a | None => os_cpu_count end)", "Z"),
    },
    "skip": [], "ret": "Z",
}


def cpu_count_cfg(path):
    """both paths of cpu_count: logical cores, and only_physical_cores=True with the physical-core count as a parameter
    (phys : option Z, None = "not found"; _count_physical_cores only reports counts >= 1)"""
    node, _ = translate.find_function(path, "cpu_count")
    skips = ["if sys.platform == 'win32':\n    os_cpu_count = min(os_cpu_count, _MAX_WINDOWS_WORKERS)"]
    for st in node.body:   # the statement that only warns about a failed physical-core lookup
        if isinstance(st, ast.If) and ast.unparse(st.test) == "exception is not None" and not st.orelse and all(
                isinstance(b_, ast.Expr) and isinstance(b_.value, ast.Call) for b_ in st.body):
            skips.append(ast.unparse(st))
    return {
        "params": [("os_raw", "option Z"), ("aff", "option Z"), ("cg", "option Z"), ("loky_env", "option Z"),
                   ("phys", "option Z"), ("only_physical_cores", "bool")],
        "env": {"only_physical_cores": ("only_physical_cores", "bool")},
        "subst": {
            "os.cpu_count() or 1": ("(match os_raw with Some c => if c =? 0 then 1 else c | None => 1 end)", "Z"),
            "_cpu_count_user(os_cpu_count)": ("cpu_count_user os_cpu_count aff cg loky_env", "Z", True),
            "cpu_count_physical != 'not found'": ("(match phys with Some _ => true | None => false end)", "bool"),
        },
        "bind": {"cpu_count_physical, exception = _count_physical_cores()":
                 [("cpu_count_physical", "(match phys with Some p => p | None => 0 end)", "Z")]},
        "skip": skips, "ret": "Z",
    }


# ------------------------------------------------------------------ get_nested_backend and configure
# Reading: a backend object is its class and nesting_level (Model/NJobs.bk); `getattr(self, "nesting_level", 0)` and
# `self.nesting_level` are the parameter level; the n_jobs handed to the nested context is None;
# SequentialBackend.get_nested_backend returns get_active_backend() = the parameter `active`;
# configure: `raise FallbackToBackend(SequentialBackend(nesting_level=self.nesting_level))` is Raise (OtherError 1)
# ("fall back to the sequential backend at my own level"); statements after the fallback test that neither assign
# n_jobs nor return (attribute bookkeeping, pool / executor construction, the loky 'timeout' kwarg check, gc.collect)
# do not change the returned number and are recognised structurally.
NESTED_CFG = {
    "params": [("level", "Z")],
    "env": {},
    "subst": {
        "getattr(self, 'nesting_level', 0)": ("level", "Z"),
        "SequentialBackend(nesting_level=nesting_level)": ("{| bkind := KSeq; blevel := nesting_level |}", "rec:bk"),
        "ThreadingBackend(nesting_level=nesting_level)": ("{| bkind := KThr; blevel := nesting_level |}", "rec:bk"),
    },
    "skip": [], "ret": "(bk * option Z)",
}
SEQ_NESTED_CFG = {
    "params": [("active", "(bk * option Z)")],
    "env": {},
    "subst": {"get_active_backend()": ("active", "tuple")},
    "skip": ["from .parallel import get_active_backend"], "ret": "(bk * option Z)",
}
FALLBACK = "FallbackToBackend(SequentialBackend(nesting_level=self.nesting_level))"


def configure_cfg(path, qualname, eff_call):
    node, _ = translate.find_function(path, qualname)
    skips, seen = [], False
    for st in node.body:
        if isinstance(st, ast.If) and ast.unparse(st.test) == "n_jobs == 1":
            seen = True
            continue
        if isinstance(st, ast.Expr) and isinstance(st.value, ast.Constant):
            continue
        if isinstance(st, ast.Return):
            continue
        stores = [n for n in ast.walk(st) if isinstance(n, ast.Name) and isinstance(n.ctx, ast.Store) and n.id == "n_jobs"]
        has_ret = any(isinstance(n, ast.Return) for n in ast.walk(st))
        if not stores and not has_ret and (seen or ast.unparse(st).startswith("self.parallel = ")):
            skips.append(ast.unparse(st))
    return {"params": ENVP, "env": {"n_jobs": ("n_jobs", "Z")},
            "subst": {"self.effective_n_jobs(n_jobs)": (eff_call, "Z", True)},
            "exn_subst": {FALLBACK: "(OtherError 1)"},
            "skip": list(dict.fromkeys(skips)), "ret": "Z"}


NESTED_HEADER = """(* REGENERATED on every run by harness/gen_c15.py from joblib/_parallel_backends.py
   (get_nested_backend and configure of the backend classes).  Do not edit.  The reading table is in gen_c15.py.
   Raise (OtherError 1) = FallbackToBackend(SequentialBackend(nesting_level=self.nesting_level)). *)
From Coq Require Import ZArith List Bool.
Require Import JV.Base.PyPrelude JV.Model.NJobs JV.Gen.T_njobs.
Import ListNotations.
Open Scope Z_scope.

"""


def generate_nested(repo=None):
    repo = repo or common.REPO
    pb = os.path.join(repo, "joblib", "_parallel_backends.py")
    parts, skipped = [], []
    code, sk = translate.translate_function(pb, "ParallelBackendBase.get_nested_backend", "base_get_nested_backend", NESTED_CFG)
    parts.append("(* ParallelBackendBase.get_nested_backend (Threading, Loky, Multiprocessing inherit it) *)\n" + code)
    code, sk2 = translate.translate_function(pb, "SequentialBackend.get_nested_backend", "seq_get_nested_backend", SEQ_NESTED_CFG)
    parts.append("(* SequentialBackend.get_nested_backend *)\n" + code)
    skipped += sk + sk2
    envargs = "mp_none cpus daemon depth main_thread level n_jobs"
    for qual, name, eff in [
        ("ParallelBackendBase.configure", "base_configure", "seq_effective_n_jobs n_jobs"),
        ("ThreadingBackend.configure", "thr_configure", "pool_effective_n_jobs mp_none cpus n_jobs"),
        ("LokyBackend.configure", "loky_configure", "loky_effective_n_jobs " + envargs),
        ("MultiprocessingBackend.configure", "mp_configure", "mp_effective_n_jobs " + envargs),
    ]:
        code, sk = translate.translate_function(pb, qual, name, configure_cfg(pb, qual, eff))
        parts.append("(* %s *)\n%s" % (qual, code))
        skipped += sk
    # the size the worker pool / executor is created with, as an expression of the resolved n_jobs
    def pool_arg(qual, callee, subst=None):
        node, _ = translate.find_function(pb, qual)
        calls = [n for n in ast.walk(node) if isinstance(n, ast.Call) and ast.unparse(n.func) == callee]
        if len(calls) != 1 or not calls[0].args:
            raise translate.TranslateError("translation of %s no longer matches: expected exactly one call %s(<size>, ...)" % (qual, callee))
        for kw in calls[0].keywords:
            if kw.arg in ("max_workers", "processes"):
                raise translate.TranslateError("translation of %s no longer matches: pool size passed by keyword" % qual)
        tr = translate.Tr({"subst": subst or {}})
        c, t, r = tr.expr(calls[0].args[0], {"n_jobs": ("n_jobs", "Z")})
        if t != "Z" or r:
            raise translate.TranslateError("translation of %s no longer matches: pool size is not a pure integer expression" % qual)
        return c
    thr_conf, _ = translate.find_function(pb, "ThreadingBackend.configure")
    if "self._n_jobs = n_jobs" not in [ast.unparse(st) for st in thr_conf.body]:
        raise translate.TranslateError("translation of ThreadingBackend.configure no longer matches: `self._n_jobs = n_jobs` not found")
    sizes = [("thr_pool_size", pool_arg("ThreadingBackend._get_pool", "ThreadPool", {"self._n_jobs": ("n_jobs", "Z")})),
             ("loky_pool_size", pool_arg("LokyBackend.configure", "get_memmapping_executor")),
             ("mp_pool_size", pool_arg("MultiprocessingBackend.configure", "MemmappingPool"))]
    parts.append("(* number of workers the pool / executor is created with, for the resolved n_jobs:\n"
                 "   ThreadPool(self._n_jobs), get_memmapping_executor(<size>, ...), MemmappingPool(<size>, ...) *)\n" +
                 "".join("Definition %s (n_jobs : Z) : Z := %s.\n" % (n, c) for n, c in sizes))
    # every class must inherit / define what the table assumes
    src = open(pb).read()
    tree = ast.parse(src)
    defs = {c.name: {f.name for f in c.body if isinstance(f, ast.FunctionDef)} for c in tree.body if isinstance(c, ast.ClassDef)}
    for cls in ("ThreadingBackend", "LokyBackend", "MultiprocessingBackend", "PoolManagerMixin", "AutoBatchingMixin"):
        if "get_nested_backend" in defs.get(cls, set()):
            raise translate.TranslateError("translation of get_nested_backend no longer matches: %s overrides it" % cls)
    if "configure" in defs.get("SequentialBackend", set()) or "configure" in defs.get("PoolManagerMixin", set()) \
            or "configure" in defs.get("AutoBatchingMixin", set()):
        raise translate.TranslateError("translation of configure no longer matches: an unexpected class defines configure")
    out = os.path.join(common.COQ, "Gen", "T_nested.v")
    changed = common.write_if_changed(out, NESTED_HEADER + "\n".join(parts))
    return out, changed, skipped


# ------------------------------------------------------------------ reusable executor: the three decisions
EXEC_HEADER = """(* REGENERATED on every run by harness/gen_c15.py from joblib/externals/loky/reusable_executor.py
   (_ReusablePoolExecutor._resize: the test under which a resize is skipped; get_reusable_executor: the test under which
   a new executor replaces the current one) and joblib/executor.py (get_memmapping_executor: the reuse decision).
   Do not edit. *)
From Coq Require Import ZArith List Bool.
Require Import JV.Base.PyPrelude.
Import ListNotations.
Open Scope Z_scope.

"""


def _test_expr(tr, test, env, what):
    c, t, r = tr.truth(tr.expr(test, env), test)
    if r:
        raise translate.TranslateError("translation of %s no longer matches: raising test" % what)
    return c


def generate_executor(repo=None):
    repo = repo or common.REPO
    rx = os.path.join(repo, "joblib", "externals", "loky", "reusable_executor.py")
    ex = os.path.join(repo, "joblib", "executor.py")
    # 1. _resize: `elif <test>: return` (nothing to do)
    node, _ = translate.find_function(rx, "_ReusablePoolExecutor._resize")
    hits = [n for n in ast.walk(node) if isinstance(n, ast.If) and len(n.body) == 1 and isinstance(n.body[0], ast.Return)
            and n.body[0].value is None]
    if len(hits) != 1:
        raise translate.TranslateError("translation of _resize no longer matches: expected exactly one `if <test>: return`")
    stores = [ast.unparse(n) for n in ast.walk(node) if isinstance(n, ast.Assign) and ast.unparse(n.targets[0]) == "self._max_workers"]
    if len(stores) != 2 or any(st != "self._max_workers = max_workers" for st in stores):   # unstarted branch + resize proper
        raise translate.TranslateError("translation of _resize no longer matches: _max_workers is not set to max_workers (%s)" % stores)
    tr = translate.Tr({"subst": {"self._max_workers": ("cur", "Z")}})
    c1 = _test_expr(tr, hits[0].test, {"max_workers": ("max_workers", "Z")}, "_resize")
    # 2. get_reusable_executor: the `if` that shuts the current executor down
    node, _ = translate.find_function(rx, "_ReusablePoolExecutor.get_reusable_executor")
    hits = [n for n in ast.walk(node) if isinstance(n, ast.If) and any(
        isinstance(b, ast.Expr) and isinstance(b.value, ast.Call) and ast.unparse(b.value.func) == "executor.shutdown" for b in n.body)]
    if len(hits) != 1:
        raise translate.TranslateError("translation of get_reusable_executor no longer matches: shutdown branch not found")
    tr = translate.Tr({"subst": {"executor._flags.broken": ("broken", "bool"), "executor._flags.shutdown": ("shutdown", "bool")}})
    c2 = _test_expr(tr, hits[0].test, {"reuse": ("reuse", "bool")}, "get_reusable_executor")
    # the replacement of an executor that cannot be reused: built with the REQUESTED size, whatever the reason
    br = hits[0]
    rec = [n for n in ast.walk(br) if isinstance(n, ast.Call) and ast.unparse(n.func) == "cls.get_reusable_executor"]
    if len(rec) != 1 or "max_workers=max_workers" not in [ast.unparse(k) for k in rec[0].keywords]:
        raise translate.TranslateError("translation of get_reusable_executor no longer matches: the replacement is not built by "
                                       "cls.get_reusable_executor(max_workers=max_workers, ...)")
    st_mw = [n for n in ast.walk(br) if isinstance(n, (ast.Assign, ast.AugAssign)) and any(
        ast.unparse(t) == "max_workers" for t in (n.targets if isinstance(n, ast.Assign) else [n.target]))]
    if not st_mw:
        repl = "true"
    elif all(isinstance(n, ast.Assign) and ast.unparse(n.value) == "executor._max_workers" for n in st_mw):
        repl = "false"       # (some path of) the replacement takes the size of the executor it replaces
    else:
        raise translate.TranslateError("translation of get_reusable_executor no longer matches: max_workers reassigned in the "
                                       "replacement branch (%s)" % [ast.unparse(n) for n in st_mw])
    resizes = [n for n in ast.walk(node) if isinstance(n, ast.Call) and ast.unparse(n.func) == "executor._resize"]
    if len(resizes) != 1 or ast.unparse(resizes[0]) != "executor._resize(max_workers)":
        raise translate.TranslateError("translation of get_reusable_executor no longer matches: executor._resize(max_workers) not found")
    # 3. get_memmapping_executor: reuse = <expr>
    node, _ = translate.find_function(ex, "MemmappingExecutor.get_memmapping_executor")
    hits = [n for n in ast.walk(node) if isinstance(n, ast.Assign) and ast.unparse(n.targets[0]) == "reuse"]
    if len(hits) != 1:
        raise translate.TranslateError("translation of get_memmapping_executor no longer matches: `reuse = ...` not found")
    tr = translate.Tr({"subst": {"_executor_args is None": ("args_none", "bool"), "_executor_args == executor_args": ("args_equal", "bool")}})
    c3 = _test_expr(tr, hits[0].value, {}, "get_memmapping_executor")
    call = [n for n in ast.walk(node) if isinstance(n, ast.Call) and ast.unparse(n.func) == "super().get_reusable_executor"]
    if len(call) != 1 or not call[0].args or ast.unparse(call[0].args[0]) != "n_jobs" or \
            "reuse=reuse" not in [ast.unparse(k) for k in call[0].keywords]:
        raise translate.TranslateError("translation of get_memmapping_executor no longer matches: "
                                       "super().get_reusable_executor(n_jobs, ..., reuse=reuse, ...) not found")
    text = EXEC_HEADER + (
        "(* _resize returns without doing anything when ... *)\n"
        "Definition resize_noop (max_workers cur : Z) : bool := %s.\n\n"
        "(* get_reusable_executor shuts the current executor down and builds a new one when ... *)\n"
        "Definition needs_new (broken shutdown reuse : bool) : bool := %s.\n\n"
        "(* get_memmapping_executor asks to reuse the executor when ... *)\n"
        "Definition args_reuse (args_none args_equal : bool) : bool := %s.\n\n"
        "(* the executor that replaces one which cannot be reused (broken, shut down, other arguments) is built with the requested\n"
        "   max_workers on every path (no reassignment of max_workers in that branch) *)\n"
        "Definition replacement_size_is_requested : bool := %s.\n" % (c1, c2, c3, repl))
    out = os.path.join(common.COQ, "Gen", "T_executor.v")
    changed = common.write_if_changed(out, text)
    return out, changed, []


# ------------------------------------------------------------------ Parallel.__call__: the sequential shortcut
def generate_call(repo=None):
    """the test under which Parallel.__call__ runs the tasks in the calling thread (`_get_sequential_output`), as a function of
    the number of workers the backend's configure() returned"""
    repo = repo or common.REPO
    path = os.path.join(repo, "joblib", "parallel.py")
    node, _ = translate.find_function(path, "Parallel.__call__")
    hits = [n for n in node.body if isinstance(n, ast.If) and any(
        isinstance(x, ast.Call) and ast.unparse(x.func) == "self._get_sequential_output" for b_ in n.body for x in ast.walk(b_))]
    if len(hits) != 1 or hits[0].orelse:
        raise translate.TranslateError("translation of Parallel.__call__ no longer matches: the sequential shortcut was not found")
    src = [ast.unparse(st) for st in node.body]
    if "n_jobs = self._initialize_backend()" not in "\n".join(src) or "n_jobs = self._effective_n_jobs()" not in "\n".join(src):
        raise translate.TranslateError("translation of Parallel.__call__ no longer matches: n_jobs is not what the backend returned")
    tr = translate.Tr({"subst": {}})
    c, t, r = tr.truth(tr.expr(hits[0].test, {"n_jobs": ("n_jobs", "Z")}), hits[0].test)
    if r:
        raise translate.TranslateError("translation of Parallel.__call__ no longer matches: raising test")
    text = ("(* REGENERATED on every run by harness/gen_c15.py from joblib/parallel.py (Parallel.__call__).  Do not edit.\n"
            "   n_jobs = what _initialize_backend() / _effective_n_jobs() returned for this call, WHATEVER the backend is. *)\n"
            "From Coq Require Import ZArith List Bool.\nRequire Import JV.Base.PyPrelude.\nOpen Scope Z_scope.\n\n"
            "Definition call_runs_inline (n_jobs : Z) : bool := %s.\n" % c)
    out = os.path.join(common.COQ, "Gen", "T_call.v")
    changed = common.write_if_changed(out, text)
    return out, changed, []


HEADER = """(* REGENERATED on every run by harness/gen_c15.py from joblib/_parallel_backends.py and
   joblib/externals/loky/backend/context.py.  Do not edit.  The reading table is in gen_c15.py. *)
From Coq Require Import ZArith List Bool.
Require Import JV.Base.PyPrelude.
Import ListNotations.
Open Scope Z_scope.

"""


def generate(repo=None):
    repo = repo or common.REPO
    pb = os.path.join(repo, "joblib", "_parallel_backends.py")
    cx = os.path.join(repo, "joblib", "externals", "loky", "backend", "context.py")
    parts, skipped = [], []
    for qual, name, params in [
        ("SequentialBackend.effective_n_jobs", "seq_effective_n_jobs", [("n_jobs", "Z")]),
        ("PoolManagerMixin.effective_n_jobs", "pool_effective_n_jobs",
         [("mp_none", "bool"), ("cpus", "Z"), ("n_jobs", "Z")]),
        ("LokyBackend.effective_n_jobs", "loky_effective_n_jobs", ENVP),
        ("MultiprocessingBackend.effective_n_jobs", "mp_effective_n_jobs", ENVP),
    ]:
        code, sk = translate.translate_function(pb, qual, name, eff_cfg(pb, qual, params))
        parts.append("(* %s *)\n%s" % (qual, code))
        skipped += sk
    code, sk = translate.translate_function(cx, "_cpu_count_user", "cpu_count_user", CPU_USER_CFG)
    parts.append("(* loky.backend.context._cpu_count_user *)\n" + code)
    code, sk2 = translate.translate_function(cx, "cpu_count", "cpu_count", cpu_count_cfg(cx))
    parts.append("(* loky.backend.context.cpu_count (phys = what _count_physical_cores() reports, None = 'not found') *)\n" + code)
    text = HEADER + "\n".join(parts)
    out = os.path.join(common.COQ, "Gen", "T_njobs.v")
    changed = common.write_if_changed(out, text)
    return out, changed, skipped + sk + sk2


if __name__ == "__main__":
    print(generate_call())
    print(open(os.path.join(common.COQ, "Gen", "T_call.v")).read())
    print(generate_executor())
    print(open(os.path.join(common.COQ, "Gen", "T_executor.v")).read())
    print(generate_nested())
    print(open(os.path.join(common.COQ, "Gen", "T_nested.v")).read())
    print(generate()[:2])
    print(open(os.path.join(common.COQ, "Gen", "T_njobs.v")).read())
