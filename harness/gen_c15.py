"""Regenerate coq/Gen/T_njobs.v from the live source:

  joblib/_parallel_backends.py   SequentialBackend.effective_n_jobs, PoolManagerMixin.effective_n_jobs,
                                 LokyBackend.effective_n_jobs, MultiprocessingBackend.effective_n_jobs
  joblib/externals/loky/backend/context.py   _cpu_count_user, cpu_count (logical-core path)

Reading of the source stated by the tables below (each entry is an assumption of the tie):
  * n_jobs is an int (Parallel.__init__ does int(n_jobs)); `n_jobs is None` is therefore false;
  * `mp is None` is the parameter mp_none; `cpu_count()` is the parameter cpus;
  * `mp.current_process().daemon` = daemon, `process_executor._CURRENT_DEPTH` = depth,
    `self.in_main_thread()` = main_thread, `self.nesting_level` = level;
  * statements that only build and emit a warning (`if n_jobs != 1: ... warnings.warn(...)`) have no
    effect on the result (warnings are not turned into errors); they are recognised structurally;
  * `super(MultiprocessingBackend, self).effective_n_jobs(n_jobs)` is the translated
    PoolManagerMixin.effective_n_jobs (MRO of MultiprocessingBackend);
  * cpu_count: Linux (the win32 clamp is skipped); `os.cpu_count()` is `os_raw : option Z`;
    `_cpu_count_affinity/_cpu_count_cgroup` are parameters `aff`/`cg : option Z` (None = "not available",
    for which both functions return os_cpu_count); LOKY_MAX_CPU_COUNT is `loky_env : option Z`;
    only the only_physical_cores=False path is translated (everything after its `return` is skipped).
"""
import ast
import os
import sys
sys.path.insert(0, os.path.dirname(os.path.abspath(__file__)))
import common
import translate_c17 as translate

ENVP = [("mp_none", "bool"), ("cpus", "Z"), ("daemon", "bool"), ("depth", "Z"), ("main_thread", "bool"),
        ("level", "Z"), ("n_jobs", "Z")]
SUBST = {
    "mp is None": ("mp_none", "bool"),
    "n_jobs is None": ("false", "bool"),
    "cpu_count()": ("cpus", "Z"),
    "mp.current_process().daemon": ("daemon", "bool"),
    "process_executor._CURRENT_DEPTH": ("depth", "Z"),
    "self.in_main_thread()": ("main_thread", "bool"),
    "self.nesting_level": ("level", "Z"),
    "super(MultiprocessingBackend, self).effective_n_jobs(n_jobs)":
        ("pool_effective_n_jobs mp_none cpus n_jobs", "Z", True),
}


def _warning_only(stmt):
    """True when the statement can only assign `msg`, test n_jobs/inside_dask_worker() and call
    warnings.warn: it cannot change the value the function returns."""
    if isinstance(stmt, ast.Assign):
        return (len(stmt.targets) == 1 and isinstance(stmt.targets[0], ast.Name) and stmt.targets[0].id == "msg"
                and isinstance(stmt.value, (ast.Constant, ast.JoinedStr)))
    if isinstance(stmt, ast.Expr) and isinstance(stmt.value, ast.Call):
        return ast.unparse(stmt.value.func) == "warnings.warn"
    if isinstance(stmt, ast.If):
        if ast.unparse(stmt.test) not in ("n_jobs != 1", "inside_dask_worker()"):
            return False
        return all(_warning_only(s) for s in stmt.body + stmt.orelse)
    return False


def warning_skips(path, qualname):
    node, _ = translate.find_function(path, qualname)
    out = []
    for n in ast.walk(node):
        if isinstance(n, ast.If) and ast.unparse(n.test) == "n_jobs != 1" and _warning_only(n):
            out.append(ast.unparse(n))
    return list(dict.fromkeys(out))


def eff_cfg(path, qualname, params):
    return {"params": params, "env": {"n_jobs": ("n_jobs", "Z")}, "subst": SUBST,
            "skip": warning_skips(path, qualname), "ret": "Z"}


CPU_USER_CFG = {
    "params": [("os_cpu_count", "Z"), ("aff", "option Z"), ("cg", "option Z"), ("loky_env", "option Z")],
    "env": {"os_cpu_count": ("os_cpu_count", "Z")},
    "subst": {
        "_cpu_count_affinity(os_cpu_count)": ("(match aff with Some a => a | None => os_cpu_count end)", "Z"),
        "_cpu_count_cgroup(os_cpu_count)": ("(match cg with Some a => a | None => os_cpu_count end)", "Z"),
        "int(os.environ.get('LOKY_MAX_CPU_COUNT', os_cpu_count))":
            ("(match loky_env with Some a => a | None => os_cpu_count end)", "Z"),
    },
    "skip": [], "ret": "Z",
}


def cpu_count_cfg(path):
    skips = ["if sys.platform == 'win32':\n    os_cpu_count = min(os_cpu_count, _MAX_WINDOWS_WORKERS)"]
    return {
        "params": [("os_raw", "option Z"), ("aff", "option Z"), ("cg", "option Z"), ("loky_env", "option Z"),
                   ("only_physical_cores", "bool")],
        "env": {"only_physical_cores": ("only_physical_cores", "bool")},
        "subst": {
            "os.cpu_count() or 1": ("(match os_raw with Some c => if c =? 0 then 1 else c | None => 1 end)", "Z"),
            "_cpu_count_user(os_cpu_count)": ("cpu_count_user os_cpu_count aff cg loky_env", "Z", True),
        },
        # everything after `if not only_physical_cores: return ...` concerns physical cores only
        "truncate_after_if": "not only_physical_cores",
        "skip": skips, "ret": "Z",
    }


HEADER = """(* REGENERATED on every run by harness/gen_c15.py from joblib/_parallel_backends.py and
   joblib/externals/loky/backend/context.py.  Do not edit.  The reading table is in gen_c15.py. *)
From Coq Require Import ZArith List Bool.
Require Import JV.Base.PyPrelude.
Import ListNotations.
Open Scope Z_scope.

"""


def generate(repo=None):
    repo = repo or common.REPO
    pb = os.path.join(repo, "joblib", "_parallel_backends.py")
    cx = os.path.join(repo, "joblib", "externals", "loky", "backend", "context.py")
    parts, skipped = [], []
    for qual, name, params in [
        ("SequentialBackend.effective_n_jobs", "seq_effective_n_jobs", [("n_jobs", "Z")]),
        ("PoolManagerMixin.effective_n_jobs", "pool_effective_n_jobs",
         [("mp_none", "bool"), ("cpus", "Z"), ("n_jobs", "Z")]),
        ("LokyBackend.effective_n_jobs", "loky_effective_n_jobs", ENVP),
        ("MultiprocessingBackend.effective_n_jobs", "mp_effective_n_jobs", ENVP),
    ]:
        code, sk = translate.translate_function(pb, qual, name, eff_cfg(pb, qual, params))
        parts.append("(* %s *)\n%s" % (qual, code))
        skipped += sk
    code, sk = translate.translate_function(cx, "_cpu_count_user", "cpu_count_user", CPU_USER_CFG)
    parts.append("(* loky.backend.context._cpu_count_user *)\n" + code)
    code, sk2 = translate.translate_function(cx, "cpu_count", "cpu_count", cpu_count_cfg(cx))
    parts.append("(* loky.backend.context.cpu_count, only_physical_cores=False path *)\n" + code)
    text = HEADER + "\n".join(parts)
    out = os.path.join(common.COQ, "Gen", "T_njobs.v")
    changed = common.write_if_changed(out, text)
    return out, changed, skipped + sk + sk2


if __name__ == "__main__":
    print(generate()[:2])
    print(open(os.path.join(common.COQ, "Gen", "T_njobs.v")).read())
