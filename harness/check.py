#!/usr/bin/env python3
"""Entry point:  check.py <Cxx> [--tier quick|thorough] [--replay <file>]

Exit 0 = property held on everything explored (known findings are printed as
KNOWN-FINDING lines); exit 1 + `VIOLATION property=<id> replay=<path>` otherwise.
"""
import argparse
import importlib
import os
import sys
import traceback

sys.path.insert(0, os.path.dirname(os.path.abspath(__file__)))
import common  # noqa: E402


def main():
    ap = argparse.ArgumentParser()
    ap.add_argument("prop")
    ap.add_argument("--tier", default=os.environ.get("VERIF_TIER", "quick"), choices=["quick", "thorough"])
    ap.add_argument("--replay", default=None)
    a = ap.parse_args()
    seed = int(os.environ.get("VERIF_SEED", "20260930"))
    prop = a.prop.upper()
    ctx = common.Ctx(prop, a.tier, seed, a.replay)
    mod = importlib.import_module("props." + prop.lower())
    try:
        if a.replay:
            sys.exit(mod.replay(ctx, a.replay))
        mod.run(ctx)
    except SystemExit:
        raise
    except BaseException:
        # the machinery itself failed: fail closed, but say so
        tb = traceback.format_exc()
        print(tb, file=sys.stderr)
        ctx.violation("check machinery raised: " + tb.strip().splitlines()[-1],
                      {"kind": "harness-error", "traceback": tb}, found_input=False)
        ctx.finish({"evaluations": 0, "distinct_nontrivial": 0, "rule": "harness error", "samples": [],
                    "trusted_base": []})
    ctx.finish({"evaluations": 0, "distinct_nontrivial": 0, "rule": "run() returned without finish", "samples": [],
                "trusted_base": []})


if __name__ == "__main__":
    main()
