"""Regenerate coq/Gen/T_items_to_delete.v from /repo/joblib/_store_backends.py."""
import os, sys
sys.path.insert(0, os.path.dirname(os.path.abspath(__file__)))
import common, translate

CFG = {
    "params": [("now", "Z"), ("items", "list item"), ("bytes_limit", "option Z"),
               ("items_limit", "option Z"), ("age_limit", "option Z")],
    "env": {"items": ("items", "list:rec:item"), "bytes_limit": ("bytes_limit", "optZ"),
            "items_limit": ("items_limit", "optZ"), "age_limit": ("age_limit", "optZ")},
    "accessors": {"size": ("isize", "Z"), "last_access": ("iatime", "Z"), "path": ("ipath", "Z")},
    "subst": {
        # time is an integer number of ticks; timedelta.total_seconds() is the identity on it
        "age_limit.total_seconds()": ("age_limit", "Z"),
        "datetime.datetime.now()": ("now", "Z"),
    },
    "skip": [
        # assumption: bytes_limit has already been converted (memstr_to_bytes is modelled separately)
        "if isinstance(bytes_limit, str):\n    bytes_limit = memstr_to_bytes(bytes_limit)",
        # `items` is a parameter of the model
        "items = self.get_items()",
    ],
    "ret": "(list item)",
}

HEADER = """(* REGENERATED on every run by harness/gen_c18.py from
   %s  (StoreBackendMixin._get_items_to_delete).  Do not edit. *)
From Coq Require Import ZArith List Bool.
Require Import JV.Base.PyPrelude.
Import ListNotations.
Open Scope Z_scope.

"""

def generate(repo=None):
    repo = repo or common.REPO
    path = os.path.join(repo, "joblib", "_store_backends.py")
    code, skipped = translate.translate_function(path, "StoreBackendMixin._get_items_to_delete",
                                                 "get_items_to_delete", CFG)
    text = HEADER % "joblib/_store_backends.py" + code
    out = os.path.join(common.COQ, "Gen", "T_items_to_delete.v")
    changed = common.write_if_changed(out, text)
    return out, changed, skipped

if __name__ == "__main__":
    print(generate())
    print(open(os.path.join(common.COQ, "Gen", "T_items_to_delete.v")).read())
