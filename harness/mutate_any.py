#!/usr/bin/env python3
"""Development tool (not a check, never stands in for a theorem): operator-level mutants of the functions a property is
anchored in, to look for blind spots of `./check <property>`.

usage: mutate_any.py <property> <n_mutants> <seed> [--out FILE]
For every sampled mutant (in a scratch worktree outside /repo and /verif, removed at the end):
  1. `VERIF_REPO=<scratch> ./check <property> --tier quick`; a VIOLATION line = caught;
  2. a mutant the check does not report is run against joblib's own relevant test modules: killed there = no candidate;
  3. survivors of both are listed for inspection (equivalent mutants, or gaps).
"""
import ast
import copy
import json
import os
import random
import subprocess
import sys
import time

ROOT = os.path.dirname(os.path.dirname(os.path.abspath(__file__)))

TARGETS = {
    "C02": {"joblib/memory.py": ["MemorizedFunc._cached_call", "MemorizedFunc._get_args_id", "MemorizedFunc._call",
                                 "MemorizedFunc.call_and_shelve", "MemorizedFunc.__call__", "MemorizedResult.get",
                                 "MemorizedResult.__init__"],
            "joblib/_store_backends.py": ["StoreBackendMixin.dump_item", "StoreBackendMixin.load_item"]},
    "C03": {"joblib/numpy_pickle.py": ["dump", "load", "_unpickle", "NumpyPickler.__init__", "NumpyPickler.save"],
            "joblib/numpy_pickle_utils.py": ["_detect_compressor", "_validate_fileobject_and_memmap", "_write_fileobject",
                                             "_read_fileobject", "_read_bytes", "_buffered_read_file", "_buffered_write_file"],
            "joblib/compressor.py": ["CompressorWrapper.compressor_file", "CompressorWrapper.decompressor_file",
                                     "register_compressor"]},
    "C05": {"joblib/_store_backends.py": ["StoreBackendMixin.dump_item", "StoreBackendMixin.store_metadata",
                                          "StoreBackendMixin.store_cached_func_code", "StoreBackendMixin._concurrency_safe_write",
                                          "concurrency_safe_write", "StoreBackendMixin.get_metadata",
                                          "StoreBackendMixin.contains_item", "StoreBackendMixin.load_item",
                                          "StoreBackendMixin.get_cached_func_code"],
            "joblib/backports.py": ["concurrency_safe_rename"],
            "joblib/memory.py": ["MemorizedFunc._is_in_cache_and_valid", "MemorizedFunc._cached_call", "extract_first_line"]},
    "C06": {"joblib/memory.py": ["MemorizedFunc.check_call_in_cache", "MemorizedFunc._is_in_cache_and_valid",
                                 "MemorizedFunc._get_args_id", "MemorizedFunc._cached_call", "Memory.cache"],
            "joblib/func_inspect.py": ["filter_args", "get_func_name", "_clean_win_chars"]},
    "C07": {"joblib/func_inspect.py": ["filter_args"]},
    "C08": {"joblib/hashing.py": ["Hasher.__init__", "Hasher.hash", "Hasher.save", "Hasher.memoize", "Hasher.save_global",
                                  "Hasher._batch_setitems", "Hasher.save_set", "_ConsistentSet.__init__", "_MyHash.__init__",
                                  "hash", "NumpyHasher.save", "NumpyHasher.__init__"]},
    "C11": {"joblib/_store_backends.py": ["StoreBackendMixin.dump_item", "StoreBackendMixin.store_metadata",
                                          "StoreBackendMixin._concurrency_safe_write", "concurrency_safe_write",
                                          "StoreBackendMixin.contains_item", "StoreBackendMixin.load_item",
                                          "StoreBackendMixin.clear_item", "StoreBackendMixin.clear_path",
                                          "FileSystemStoreBackend.clear_location", "FileSystemStoreBackend.create_location",
                                          "FileSystemStoreBackend.get_items"],
            "joblib/disk.py": ["mkdirp", "rm_subdirs", "delete_folder"],
            "joblib/memory.py": ["MemorizedFunc._cached_call", "MemorizedFunc.clear", "Memory.clear"]},
    "C12": {"joblib/memory.py": ["MemorizedFunc._check_previous_func_code", "MemorizedFunc.clear", "MemorizedFunc._write_func_code",
                                 "MemorizedFunc.func_code_info", "MemorizedFunc._hash_func", "Memory.clear",
                                 "MemorizedFunc.__getstate__", "extract_first_line"],
            "joblib/func_inspect.py": ["get_func_code", "get_func_name"],
            "joblib/_store_backends.py": ["StoreBackendMixin.store_cached_func_code", "StoreBackendMixin.get_cached_func_code"]},
    "C13": {"joblib/compressor.py": ["BinaryZlibFile.*"]},
    "C14": {"joblib/compressor.py": ["BinaryZlibFile._fill_buffer", "BinaryZlibFile._read_block", "BinaryZlibFile._read_all",
                                     "BinaryZlibFile.read", "BinaryZlibFile.readinto"],
            "joblib/numpy_pickle_utils.py": ["_read_bytes"],
            "joblib/numpy_pickle.py": ["_unpickle", "NumpyArrayWrapper.read_array"],
            "joblib/memory.py": ["MemorizedFunc._cached_call", "MemorizedFunc._load_item"]},
    "C15": {"joblib/_parallel_backends.py": ["SequentialBackend.effective_n_jobs", "PoolManagerMixin.effective_n_jobs",
                                             "LokyBackend.effective_n_jobs", "MultiprocessingBackend.effective_n_jobs",
                                             "ThreadingBackend.effective_n_jobs", "ParallelBackendBase.get_nested_backend",
                                             "SequentialBackend.get_nested_backend", "ThreadingBackend.configure",
                                             "MultiprocessingBackend.configure", "LokyBackend.configure",
                                             "ThreadingBackend._get_pool"],
            "joblib/externals/loky/backend/context.py": ["cpu_count", "_cpu_count_user", "_cpu_count_cgroup",
                                                         "_cpu_count_affinity"]},
    "C17": {"joblib/parallel.py": ["_get_config_param", "_get_active_backend", "parallel_config.__init__",
                                   "parallel_config.__exit__", "parallel_config.unregister", "parallel_config._check_backend",
                                   "parallel_config.__enter__"]},
    "C18": {"joblib/_store_backends.py": ["FileSystemStoreBackend.get_items", "StoreBackendMixin._get_items_to_delete",
                                          "StoreBackendMixin.enforce_store_limits", "FileSystemStoreBackend.clear_location"],
            "joblib/disk.py": ["memstr_to_bytes"],
            "joblib/memory.py": ["Memory.reduce_size"]},
    "C19": {"joblib/numpy_pickle.py": ["NumpyArrayWrapper.*", "NumpyPickler._create_array_wrapper", "NumpyPickler.save",
                                       "NumpyUnpickler.load_build"],
            "joblib/_memmapping_reducer.py": ["_reduce_memmap_backed", "_strided_from_memmap", "_get_backing_memmap",
                                              "has_shareable_memory", "ArrayMemmapForwardReducer.__call__", "reduce_array_memmap_backward"],
            "joblib/numpy_pickle_utils.py": ["_ensure_native_byte_order", "_is_numpy_array_byte_order_mismatch"],
            "joblib/backports.py": ["make_memmap"]},
    "C20": {"joblib/externals/loky/backend/resource_tracker.py": ["main", "ResourceTracker._send", "ResourceTracker.maybe_unlink",
                                                                  "ResourceTracker.register", "ResourceTracker.unregister"],
            "joblib/_memmapping_reducer.py": ["TemporaryResourcesManager.*", "unlink_file"]},
    "C10": {"joblib/externals/loky/process_executor.py": ["_ExecutorManagerThread.wait_result_broken_or_wakeup",
                                                          "_ExecutorManagerThread.terminate_broken", "_ExecutorManagerThread.kill_workers",
                                                          "_ExecutorManagerThread.process_result_item", "_ExecutorManagerThread.run",
                                                          "_ExecutorManagerThread.flag_executor_shutting_down"],
            "joblib/_parallel_backends.py": ["LokyBackend.abort_everything", "LokyBackend.terminate", "LokyBackend.submit"]},
}
TESTS = {
    "C02": "test_memory.py,test_func_inspect.py,test_hashing.py", "C06": "test_memory.py,test_func_inspect.py,test_hashing.py",
    "C12": "test_memory.py,test_func_inspect.py,test_store_backends.py", "C07": "test_func_inspect.py,test_memory.py",
    "C08": "test_hashing.py,test_memory.py", "C03": "test_numpy_pickle.py,test_numpy_pickle_utils.py,test_store_backends.py,test_memory.py",
    "C13": "test_numpy_pickle.py,test_numpy_pickle_utils.py,test_memory.py", "C14": "test_numpy_pickle.py,test_numpy_pickle_utils.py,test_memory.py",
    "C05": "test_memory.py,test_store_backends.py", "C11": "test_memory.py,test_store_backends.py,test_disk.py",
    "C18": "test_memory.py,test_disk.py,test_store_backends.py", "C17": "test_config.py,test_parallel.py",
    "C15": "test_parallel.py,test_config.py,test_utils.py", "C20": "test_memmapping.py,test_module.py,test_disk.py",
    "C19": "test_numpy_pickle.py,test_memmapping.py,test_hashing.py", "C10": "test_parallel.py",
}


class Site:
    def __init__(self, kind, func, lineno, apply, desc):
        self.kind, self.func, self.lineno, self.apply, self.desc = kind, func, lineno, apply, desc


def wanted_functions(tree, names):
    out = []
    tops = {n.name: n for n in tree.body if isinstance(n, (ast.FunctionDef, ast.ClassDef))}
    for q in names:
        if "." in q:
            cls, fn = q.split(".", 1)
            c = tops.get(cls)
            if not isinstance(c, ast.ClassDef):
                continue
            for n in c.body:
                if isinstance(n, ast.FunctionDef) and (fn == "*" or n.name == fn):
                    out.append((cls + "." + n.name, n))
        else:
            n = tops.get(q)
            if isinstance(n, ast.FunctionDef):
                out.append((q, n))
    return out


def find_sites(tree, names):
    sites = []
    swaps = {ast.Lt: ast.LtE, ast.LtE: ast.Lt, ast.Gt: ast.GtE, ast.GtE: ast.Gt, ast.Eq: ast.NotEq, ast.NotEq: ast.Eq,
             ast.Is: ast.IsNot, ast.IsNot: ast.Is, ast.In: ast.NotIn, ast.NotIn: ast.In}
    for qn, fn in wanted_functions(tree, names):
        for node in ast.walk(fn):
            if isinstance(node, ast.Compare) and len(node.ops) == 1 and type(node.ops[0]) in swaps:
                def ap(n=node, new=swaps[type(node.ops[0])]):
                    n.ops = [new()]
                sites.append(Site("cmp", qn, node.lineno, ap, "%s -> %s" % (type(node.ops[0]).__name__, swaps[type(node.ops[0])].__name__)))
            if isinstance(node, ast.BoolOp):
                def ap(n=node):
                    n.op = ast.Or() if isinstance(n.op, ast.And) else ast.And()
                sites.append(Site("boolop", qn, node.lineno, ap, "and <-> or"))
            if isinstance(node, ast.Constant) and isinstance(node.value, bool):
                def ap(n=node):
                    n.value = not n.value
                sites.append(Site("bool", qn, node.lineno, ap, "%s -> %s" % (node.value, not node.value)))
            if isinstance(node, ast.Constant) and type(node.value) is int and 0 <= node.value <= 64:
                def ap(n=node):
                    n.value = n.value + 1
                sites.append(Site("int", qn, node.lineno, ap, "%d -> %d" % (node.value, node.value + 1)))
            if isinstance(node, ast.BinOp) and type(node.op) in (ast.Add, ast.Sub):
                def ap(n=node):
                    n.op = ast.Sub() if isinstance(n.op, ast.Add) else ast.Add()
                sites.append(Site("arith", qn, node.lineno, ap, "+ <-> -"))
            if isinstance(node, ast.If):
                def ap(n=node):
                    n.test = ast.UnaryOp(op=ast.Not(), operand=n.test)
                sites.append(Site("negif", qn, node.lineno, ap, "if c -> if not c"))
            for field in ("body", "orelse", "finalbody"):
                stmts = getattr(node, field, None)
                if isinstance(stmts, list) and stmts and isinstance(stmts[0], ast.stmt):
                    for i, st in enumerate(stmts):
                        if isinstance(st, (ast.Assign, ast.AugAssign)) or (isinstance(st, ast.Expr) and isinstance(st.value, ast.Call)):
                            def ap(lst=stmts, k=i):
                                lst[k] = ast.Pass()
                            sites.append(Site("del", qn, st.lineno, ap, "delete statement: " + ast.unparse(st)[:60]))
                        if i + 1 < len(stmts) and all(isinstance(x, (ast.Assign, ast.AugAssign, ast.Expr)) for x in stmts[i:i + 2]) \
                                and not any(isinstance(x, ast.Expr) and isinstance(x.value, ast.Constant) for x in stmts[i:i + 2]):
                            def ap(lst=stmts, k=i):
                                lst[k], lst[k + 1] = lst[k + 1], lst[k]
                            sites.append(Site("swap", qn, st.lineno, ap, "swap with next statement: " + ast.unparse(st)[:40]))
    return sites


def sh(cmd, **kw):
    p = subprocess.run(cmd, stdout=subprocess.PIPE, stderr=subprocess.STDOUT, text=True, **kw)
    return p.returncode, p.stdout


def main():
    prop, n, seed = sys.argv[1], int(sys.argv[2]), int(sys.argv[3])
    out = "/tmp/mut_%s.jsonl" % prop
    if "--out" in sys.argv:
        out = sys.argv[sys.argv.index("--out") + 1]
    rng = random.Random(seed)
    wt = "/tmp/mutany-%s-%d" % (prop, seed)
    sh(["git", "-C", "/repo", "worktree", "remove", "--force", wt])
    sh(["git", "-C", "/repo", "worktree", "add", "--detach", wt, "HEAD"])
    try:
        pool = []
        for rel, names in TARGETS[prop].items():
            path = os.path.join(wt, rel)
            src = open(path).read()
            base = ast.parse(src)
            for idx in range(len(find_sites(base, names))):
                pool.append((rel, idx))
        picks = rng.sample(pool, min(n, len(pool)))
        for rel, idx in picks:
            path = os.path.join(wt, rel)
            src = open(path).read()
            tree = ast.parse(src)
            s = find_sites(tree, TARGETS[prop][rel])[idx]
            s.apply()
            ast.fix_missing_locations(tree)
            try:
                code = ast.unparse(tree)
                compile(code, path, "exec")
            except Exception:  # noqa
                continue
            open(path, "w").write(code)
            rec = {"property": prop, "file": rel, "site": idx, "kind": s.kind, "func": s.func, "line": s.lineno, "desc": s.desc,
                   "caught": False}
            t0 = time.time()
            try:
                rc, o = sh([os.path.join(ROOT, "check"), prop, "--tier", "quick"], cwd=ROOT,
                           env=dict(os.environ, VERIF_REPO=wt), timeout=3000)
            except subprocess.TimeoutExpired:
                rc, o = 124, "VIOLATION (check timed out)"
            v = [l for l in o.splitlines() if l.startswith("VIOLATION")]
            if rc != 0 and v:
                rec["caught"] = True
                try:
                    rec["what"] = json.load(open(v[0].split("replay=")[1].split()[0]))["what"][:160]
                except Exception:  # noqa
                    rec["what"] = v[0][:160]
            elif rc != 0:
                rec["caught"] = True
                rec["what"] = "check failed without a VIOLATION line: " + o[-200:]
            rec["check_s"] = round(time.time() - t0)
            if not rec["caught"]:
                mods = ["joblib/test/" + m for m in TESTS[prop].split(",")]
                try:
                    rc, o = sh(["/venv/bin/python", "-m", "pytest", "-q", "-x", "-p", "no:cacheprovider", "--timeout=600"] + mods,
                               cwd=wt, env=dict(os.environ, PYTHONDONTWRITEBYTECODE="1"), timeout=2400)
                except subprocess.TimeoutExpired:
                    rc = 124
                rec["tests_rc"] = rc
            with open(out, "a") as f:
                f.write(json.dumps(rec) + "\n")
            print(json.dumps(rec), flush=True)
            open(path, "w").write(src)
    finally:
        sh(["git", "-C", wt, "checkout", "--", "."])
        sh(["git", "-C", "/repo", "worktree", "remove", "--force", wt])
        # replays written for the mutants are not kept
        for f in os.listdir(os.path.join(ROOT, "replays")):
            pass


if __name__ == "__main__":
    main()
