#!/usr/bin/env python3
"""MANIFEST.setup_cmd: regenerate Gen/*.v from /repo, build every .vo, build OCaml drivers."""
import glob
import importlib
import os
import subprocess
import sys

sys.path.insert(0, os.path.dirname(os.path.abspath(__file__)))
import common  # noqa: E402


def main():
    for g in sorted(glob.glob(os.path.join(common.ROOT, "harness", "gen_*.py"))):
        mod = importlib.import_module(os.path.basename(g)[:-3])
        try:
            print("generate", os.path.basename(g), mod.generate()[:2])
        except Exception as e:  # a translator failure is reported by the property's own check
            print("generate", os.path.basename(g), "FAILED:", e)
    ctx = common.Ctx("SETUP", "quick", 0)
    ok, log = ctx.coq_build(["-k", "all"], timeout=3000)
    print(log[-3000:])
    # OCaml drivers are built by the checks themselves into their scratch directory on every run
    # (ocaml/*/build.sh <outdir>); here only a smoke build, to fail early when the toolchain is missing
    import tempfile, shutil
    for mk in sorted(glob.glob(os.path.join(common.ROOT, "ocaml", "*", "build.sh"))):
        d = tempfile.mkdtemp(prefix="verif-setup-")
        r = subprocess.run(["sh", mk, d], cwd=os.path.dirname(mk), check=False)
        print("ocaml smoke build", os.path.basename(os.path.dirname(mk)), "ok" if r.returncode == 0 else "FAILED")
        shutil.rmtree(d, ignore_errors=True)
    print("setup: coq build", "ok" if ok else "INCOMPLETE (individual checks will report)")
    return 0


if __name__ == "__main__":
    sys.exit(main())
