"""Regenerate coq/Gen/T_operators.v from the `operators` table of /repo/joblib/_utils.py (used by eval_expr, the
evaluator of string values of Parallel's pre_dispatch argument).  Fail closed: any key or value that is not a known
ast operator class / function of module `operator` is rejected."""
import ast
import os
import sys

sys.path.insert(0, os.path.dirname(os.path.abspath(__file__)))
import common  # noqa: E402
import translate  # noqa: E402

KEYS = {"Add": "OAdd", "Sub": "OSub", "Mult": "OMul", "Div": "ODiv", "FloorDiv": "OFloorDiv", "Mod": "OMod", "Pow": "OPow"}
UNARY = {"USub": "neg", "UAdd": "pos"}
VALS = {"add": "PAdd", "sub": "PSub", "mul": "PMul", "truediv": "PTrueDiv", "floordiv": "PFloorDiv", "mod": "PMod",
        "pow": "PPow", "neg": "PNeg", "pos": "PPos"}

HEADER = """(* REGENERATED on every run by harness/gen_c09.py from joblib/_utils.py (the dict `operators` used by
   eval_expr / eval_).  Do not edit. *)
Require Import JV.Model.PreDispatch.

"""


def generate(repo=None):
    repo = repo or common.REPO
    path = os.path.join(repo, "joblib", "_utils.py")
    tree = ast.parse(open(path).read())
    table = None
    for node in tree.body:
        if isinstance(node, ast.Assign) and len(node.targets) == 1 and isinstance(node.targets[0], ast.Name) \
                and node.targets[0].id == "operators":
            table = node.value
    if not isinstance(table, ast.Dict):
        raise translate.TranslateError("joblib/_utils.py: no dict literal `operators`")
    binary, unary = {}, {}
    for k, v in zip(table.keys, table.values):
        if not (isinstance(k, ast.Attribute) and isinstance(k.value, ast.Name) and k.value.id == "ast"):
            raise translate.TranslateError("operators: unexpected key " + ast.unparse(k))
        if not (isinstance(v, ast.Attribute) and isinstance(v.value, ast.Name) and v.value.id == "op" and v.attr in VALS):
            raise translate.TranslateError("operators: unexpected value " + ast.unparse(v))
        if k.attr in KEYS:
            binary[KEYS[k.attr]] = VALS[v.attr]
        elif k.attr in UNARY:
            unary[UNARY[k.attr]] = VALS[v.attr]
        else:
            raise translate.TranslateError("operators: unexpected key " + ast.unparse(k))
    missing = [k for k in KEYS.values() if k not in binary]
    if missing or "neg" not in unary:
        raise translate.TranslateError("operators: missing entries %s %s" % (missing, "" if "neg" in unary else "USub"))
    text = HEADER + "Definition src_operators (o : bop) : pyop :=\n  match o with\n" + \
        "".join("  | %s => %s\n" % (k, binary[k]) for k in KEYS.values()) + "  end.\n\n" + \
        "Definition src_neg : pyop := %s.\n" % unary["neg"]
    out = os.path.join(common.COQ, "Gen", "T_operators.v")
    changed = common.write_if_changed(out, text)
    return out, changed


if __name__ == "__main__":
    print(generate())
    print(open(os.path.join(common.COQ, "Gen", "T_operators.v")).read())
