"""Shared machinery for every property check.

A property check (harness/props/cXX.py) exposes ``run(ctx)`` where ``ctx`` is a
:class:`Ctx`.  It uses

* ``ctx.coq_build(targets)``      -- (re)build .vo files under /verif/coq (flock'ed make)
* ``ctx.theorems(prop_file)``     -- Print Assumptions for every theorem of Props/<file>.v
* ``ctx.coq_eval(text)``          -- run a generated cases.v through coqc (vm_compute)
* ``ctx.violation(...)``          -- record a violation (writes a replay file)
* ``ctx.known_finding(...)``      -- match a reproduced defect against known_findings.json
* ``ctx.finish(coverage)``        -- write evidence/<id>.json and exit 0/1

Nothing here knows about a particular property.
"""

import atexit
import fcntl
import glob
import hashlib
import json
import os
import random
import re
import shutil
import subprocess
import sys
import tempfile
import time

ROOT = os.path.dirname(os.path.dirname(os.path.abspath(__file__)))
REPO = os.environ.get("VERIF_REPO", "/repo")
COQ = os.path.join(ROOT, "coq")
PY = os.environ.get("VERIF_PY", "/venv/bin/python")  # interpreter that runs joblib
PYNP = os.environ.get("VERIF_PY_NUMPY", "python3-vt")  # interpreter with numpy
GUARD = "JOBLIB_VERIF"
NCPU = os.cpu_count() or 4

FORBIDDEN = re.compile(
    r"\b(Admitted|admit|Axiom|Axioms|Parameter|Parameters|Conjecture|Conjectures|"
    r"Admit\s+Obligations|bypass_check|Unset\s+Guard\s+Checking|"
    r"Unset\s+Positivity\s+Checking|Unset\s+Universe\s+Checking|"
    r"Hypothesis|Hypotheses|Variable|Variables)\b"
)


def impl_env(extra=None, hashseed="0"):
    """Environment for running the implementation: joblib imported from REPO."""
    env = dict(os.environ)
    env["PYTHONPATH"] = REPO
    env["PYTHONHASHSEED"] = str(hashseed)
    env["PYTHONDONTWRITEBYTECODE"] = "1"
    env[GUARD] = "1"
    env.setdefault("JOBLIB_MULTIPROCESSING", "1")
    env["VERIF_ROOT"] = ROOT
    if extra:
        env.update(extra)
    return env


class Ctx:
    def __init__(self, prop, tier, seed, replay=None):
        self.prop = prop
        self.tier = tier
        self.seed = seed
        self.replay = replay
        self.t0 = time.time()
        self.rng = random.Random(seed)
        self.violations = []
        self.known_lines = []
        self.notes = []
        self.obligations = 0
        self.discharged = 0
        self.axioms = {}
        self.tmp = tempfile.mkdtemp(prefix="verif-%s-" % prop, dir=os.environ.get("VERIF_TMP"))
        atexit.register(shutil.rmtree, self.tmp, True)
        with open(os.path.join(ROOT, "known_findings.json")) as f:
            self.known = json.load(f)["findings"]

    # ------------------------------------------------------------------ coq
    def hygiene(self):
        """Fail closed on Admitted/Axiom/... anywhere in the development.
        Variable/Hypothesis are allowed only inside a Section."""
        bad = []
        for path in sorted(glob.glob(os.path.join(COQ, "**", "*.v"), recursive=True)):
            depth = 0
            in_comment = 0
            for ln, line in enumerate(open(path, encoding="utf-8"), 1):
                # strip comments (nesting aware, line granularity is enough for our style)
                out = []
                i = 0
                while i < len(line):
                    if line.startswith("(*", i):
                        in_comment += 1
                        i += 2
                    elif line.startswith("*)", i) and in_comment:
                        in_comment -= 1
                        i += 2
                    else:
                        if not in_comment:
                            out.append(line[i])
                        i += 1
                code = "".join(out)
                if re.match(r"\s*Section\b", code):
                    depth += 1
                if re.match(r"\s*End\b", code) and depth:
                    depth -= 1
                    continue
                for m in FORBIDDEN.finditer(code):
                    w = m.group(1)
                    if w.split()[0] in ("Hypothesis", "Hypotheses", "Variable", "Variables") and depth > 0:
                        continue
                    bad.append("%s:%d: %s" % (os.path.relpath(path, ROOT), ln, w))
        return bad

    def _regen_project(self):
        files = sorted(
            os.path.relpath(p, COQ)
            for p in glob.glob(os.path.join(COQ, "**", "*.v"), recursive=True)
            if "/scratch/" not in p
        )
        text = "-Q . JV\n-arg -w -arg -notation-overridden,-deprecated-hint-without-locality,-deprecated-instance-without-locality\n" + "\n".join(files) + "\n"
        proj = os.path.join(COQ, "_CoqProject")
        old = open(proj).read() if os.path.exists(proj) else None
        if old != text or not os.path.exists(os.path.join(COQ, "Makefile")):
            with open(proj, "w") as f:
                f.write(text)
            subprocess.run(["coq_makefile", "-f", "_CoqProject", "-o", "Makefile"], cwd=COQ, check=True,
                           stdout=subprocess.DEVNULL, stderr=subprocess.DEVNULL)

    def coq_build(self, targets, timeout=1500):
        """make the given .vo targets (paths relative to coq/).  Returns (ok, log)."""
        lock = open(os.path.join(COQ, ".lock"), "w")
        fcntl.flock(lock, fcntl.LOCK_EX)
        try:
            self._regen_project()
            cmd = ["timeout", str(timeout), "make", "-j%d" % NCPU] + list(targets)
            p = subprocess.run(cmd, cwd=COQ, stdout=subprocess.PIPE, stderr=subprocess.STDOUT, text=True)
            return p.returncode == 0, p.stdout
        finally:
            fcntl.flock(lock, fcntl.LOCK_UN)
            lock.close()

    def coq_run(self, text, name="scratch", timeout=600):
        """Compile a scratch .v (can Require JV.*) and return (ok, stdout)."""
        path = os.path.join(self.tmp, name + ".v")
        with open(path, "w") as f:
            f.write(text)
        p = subprocess.run(["timeout", str(timeout), "coqc", "-Q", COQ, "JV", "-w", "-all", path],
                           cwd=self.tmp, stdout=subprocess.PIPE, stderr=subprocess.STDOUT, text=True)
        return p.returncode == 0, p.stdout

    def coq_eval_lines(self, requires, defs, exprs, name="cases", timeout=600, shard=400):
        """Evaluate Gallina expressions of type `string`-free printable data.

        Each element of ``exprs`` is a Gallina term; it is evaluated with vm_compute and the
        printed normal form is returned as one whitespace-normalised string per expression.
        Sharded over several coqc processes."""
        # the modules the cases import must be up to date with their sources (they need not be dependencies of the
        # property file that was built): make them first
        mods = sorted(set(m.replace(".", "/") + ".vo" for m in re.findall(r"\bJV\.([A-Za-z0-9_]+(?:\.[A-Za-z0-9_]+)+)", requires)))
        mods = [m for m in mods if os.path.exists(os.path.join(COQ, m[:-1]))]
        if mods:
            ok, log = self.coq_build(mods)
            if not ok:
                raise RuntimeError("could not build %s:\n%s" % (mods, log[-2000:]))
        shards = [exprs[i:i + shard] for i in range(0, len(exprs), shard)] or [[]]
        procs = []
        for k, sh in enumerate(shards):
            body = [requires, defs]
            for j, e in enumerate(sh):
                body.append('Eval vm_compute in (%s).' % e)
            path = os.path.join(self.tmp, "%s_%d.v" % (name, k))
            with open(path, "w") as f:
                f.write("\n".join(body) + "\n")
            procs.append((path, sh))
        results = []
        running = []
        outs = {}

        def start(path):
            # output goes to a file, not a pipe: a full pipe must never stall a shard while its timeout runs
            f = open(path + ".out", "w")
            return subprocess.Popen(["timeout", str(timeout), "coqc", "-Q", COQ, "JV", "-w", "-all", path],
                                    cwd=self.tmp, stdout=f, stderr=subprocess.STDOUT, text=True), f
        idx = 0
        active = []
        while idx < len(procs) or active:
            while idx < len(procs) and len(active) < NCPU:
                active.append((idx, start(procs[idx][0])))
                idx += 1
            k, (p, f) = active.pop(0)
            p.wait()
            f.close()
            out = open(procs[k][0] + ".out").read()
            if p.returncode != 0:
                raise RuntimeError("coqc failed on %s:\n%s" % (procs[k][0], out[-3000:]))
            outs[k] = out
        for k in range(len(procs)):
            chunks = re.split(r"(?m)^\s*= ", outs[k])[1:]
            vals = []
            for c in chunks:
                # drop the trailing ": type" annotation
                c = " ".join(c.split())
                m = re.match(r"(.*) : [^:]*$", c)
                vals.append(m.group(1).strip() if m else c)
            if len(vals) != len(procs[k][1]):
                raise RuntimeError("coq_eval: expected %d results, got %d in %s" % (len(procs[k][1]), len(vals), procs[k][0]))
            results.extend(vals)
        return results

    def theorems(self, prop_mod, timeout=600):
        """Theorem names in Props/<prop_mod>.v, and for each one the Print Assumptions result.
        Sets obligations/discharged.  Returns dict name -> 'closed' | [axioms] | None (failed)."""
        src = open(os.path.join(COQ, "Props", prop_mod + ".v"), encoding="utf-8").read()
        names = re.findall(r"(?m)^\s*(?:Theorem|Lemma|Corollary)\s+([A-Za-z0-9_']+)", src)
        res = {}
        if not os.path.exists(os.path.join(COQ, "Props", prop_mod + ".vo")):
            for n in names:
                res[n] = None
        else:
            text = "Require Import JV.Props.%s.\n" % prop_mod
            for n in names:
                text += 'Print Assumptions %s.\n' % n
            ok, out = self.coq_run(text, "assum_" + prop_mod, timeout)
            parts = re.split(r"(?m)^(?=Closed under the global context|Axioms:)", out)
            parts = [p for p in parts if p.startswith("Closed") or p.startswith("Axioms:")]
            if not ok or len(parts) != len(names):
                for n in names:
                    res[n] = None
                self.notes.append("Print Assumptions failed: " + out[-500:])
            else:
                for n, p in zip(names, parts):
                    if p.startswith("Closed"):
                        res[n] = "closed"
                    else:
                        res[n] = re.findall(r"(?m)^([A-Za-z0-9_.']+)\s*:", p[len("Axioms:"):])
        self.obligations += len(names)
        self.discharged += sum(1 for v in res.values() if v is not None)
        self.axioms.update(res)
        return res

    # ------------------------------------------------------------ reporting
    def _write_replay(self, obj):
        os.makedirs(os.path.join(ROOT, "replays"), exist_ok=True)
        blob = json.dumps(obj, sort_keys=True, default=str)
        h = hashlib.sha256(blob.encode()).hexdigest()[:12]
        path = os.path.join(ROOT, "replays", "%s-%s.json" % (self.prop, h))
        with open(path, "w") as f:
            json.dump(obj, f, indent=1, sort_keys=True, default=str)
        return path

    def violation(self, what, replay, found_input=True, finding_key=None):
        """Record a violation.  If ``finding_key`` matches a 'known' entry of
        known_findings.json it is downgraded to a KNOWN-FINDING line."""
        if finding_key is not None:
            for k in self.known:
                if k["property"] == self.prop and k["kind"] == "known" and k["key"] == finding_key:
                    line = "KNOWN-FINDING: property=%s %s [%s] %s" % (self.prop, k["id"], finding_key, what)
                    if line not in self.known_lines:
                        self.known_lines.append(line)
                        print(line, flush=True)
                    return False
        obj = {"property": self.prop, "what": what, "found_failing_input": bool(found_input),
               "replay": replay, "seed": self.seed, "tier": self.tier}
        path = self._write_replay(obj)
        line = "VIOLATION property=%s replay=%s" % (self.prop, path)
        if not found_input:
            line += " no-failing-input-found"
        print(line, flush=True)
        self.violations.append({"what": what, "replay": path, "found_input": bool(found_input)})
        return True

    def note(self, msg):
        self.notes.append(msg)
        print("note: " + msg, flush=True)

    def finish(self, coverage, assumptions=None, level="proof"):
        cov = dict(coverage)
        cov.setdefault("obligations", self.obligations)
        cov.setdefault("discharged", self.discharged)
        cov.setdefault("checker_cmd", "cd /verif/coq && make Props/%s.vo  (coqc 8.16.1, full .vo build) ; "
                                       "Print Assumptions on every theorem of Props/%s.v" % (self.prop, self.prop))
        cov.setdefault("axioms", {k: v for k, v in self.axioms.items()})
        cov.setdefault("known_findings_reported", self.known_lines)
        cov.setdefault("notes", self.notes)
        # the evidence schema types a few keys: coerce what a property module got wrong instead of writing a file
        # that does not validate (which would count as no evidence)
        if not isinstance(cov.get("exhaustive", False), bool):
            cov["exhaustive_part"] = str(cov["exhaustive"])     # "this sub-domain is enumerated completely"
            cov["exhaustive"] = False
        for k in ("evaluations", "distinct_nontrivial", "states", "transitions", "traces_validated_against_impl",
                  "obligations", "discharged", "programs", "disagreements_checked"):
            if k in cov and not (isinstance(cov[k], int) and not isinstance(cov[k], bool) and cov[k] >= 0):
                try:
                    cov[k] = max(0, int(cov[k]))
                except (TypeError, ValueError):
                    cov[k + "_raw"] = str(cov.pop(k))
        for k in ("rule", "checker_cmd", "explanation"):
            if k in cov and not isinstance(cov[k], str):
                cov[k] = json.dumps(cov[k], default=str)
        if "samples" in cov and not isinstance(cov["samples"], list):
            cov["samples"] = [cov["samples"]]
        if "trusted_base" in cov:
            tb = cov["trusted_base"] if isinstance(cov["trusted_base"], list) else [cov["trusted_base"]]
            cov["trusted_base"] = [x if isinstance(x, str) else json.dumps(x, default=str) for x in tb]
        assumptions = [a if isinstance(a, str) else json.dumps(a, default=str) for a in (assumptions or [])]
        ev = {
            "property_id": self.prop,
            "tier": self.tier,
            "seed": self.seed,
            "level": level,
            "coverage": cov,
            "assumptions": assumptions or [],
            "wall_s": round(time.time() - self.t0, 2),
            "violations": len(self.violations),
        }
        os.makedirs(os.path.join(ROOT, "evidence"), exist_ok=True)
        with open(os.path.join(ROOT, "evidence", self.prop + ".json"), "w") as f:
            json.dump(ev, f, indent=1, default=str)
        print("%s tier=%s seed=%d obligations=%d discharged=%d evaluations=%s violations=%d wall=%.1fs" % (
            self.prop, self.tier, self.seed, cov["obligations"], cov["discharged"],
            cov.get("evaluations"), len(self.violations), time.time() - self.t0), flush=True)
        sys.exit(1 if self.violations else 0)

    # ----------------------------------------------------- standard prelude
    def standard_proof_stage(self, prop_mod, extra_targets=(), search=None):
        """hygiene + build Props/<prop_mod>.vo + Print Assumptions.

        Returns True when every obligation is discharged.  When the build breaks, ``search``
        (a callable returning (what, replay) or None) is asked for a concrete failing input;
        a violation is recorded either way."""
        bad = self.hygiene()
        if bad:
            self.violation("forbidden construct in the Coq development: " + "; ".join(bad[:5]),
                           {"kind": "hygiene", "hits": bad}, found_input=False)
            return False
        ok, log = self.coq_build(["Props/%s.vo" % prop_mod] + list(extra_targets))
        res = self.theorems(prop_mod)
        if ok and all(v is not None for v in res.values()):
            return True
        m = re.findall(r'(?m)^File "([^"]+)", line (\d+).*\n(?:.*\n){0,6}?Error:(.*(?:\n .*)*)', log)
        broken = [{"file": a, "line": int(b), "error": " ".join(c.split())[:400]} for a, b, c in m][:5]
        hit = search() if search else None
        if hit:
            self.violation(hit[0], {"kind": "proof-broken+failing-input", "broken": broken, "input": hit[1]}, True)
        else:
            self.violation("proof obligation no longer checks for %s" % prop_mod,
                           {"kind": "proof-broken", "theorem_file": "coq/Props/%s.v" % prop_mod, "broken": broken,
                            "log_tail": log[-1500:]}, found_input=False)
        return False


def write_if_changed(path, text):
    old = None
    if os.path.exists(path):
        with open(path, encoding="utf-8") as f:
            old = f.read()
    if old != text:
        os.makedirs(os.path.dirname(path), exist_ok=True)
        with open(path, "w", encoding="utf-8") as f:
            f.write(text)
        return True
    return False


def run_impl(script, args=(), input_text=None, env=None, timeout=600, py=None):
    """Run a harness/impl/*.py script with the implementation interpreter."""
    cmd = [py or PY, os.path.join(ROOT, "harness", "impl", script)] + list(args)
    p = subprocess.run(cmd, input=input_text, stdout=subprocess.PIPE, stderr=subprocess.PIPE, text=True,
                       env=env or impl_env(), timeout=timeout)
    return p.returncode, p.stdout, p.stderr


def zlit(n):
    """Coq Z literal."""
    return "(%d)" % n if n < 0 else "%d" % n


def coq_list(xs):
    return "[" + "; ".join(xs) + "]"
