"""Regenerate coq/Gen/C13_Constants.v from the live joblib.compressor in common.REPO and report the
structural facts the model M6 (coq/Model/ZlibFile.v) assumes about BinaryZlibFile / BinaryGzipFile:

* the numeric values of _MODE_CLOSED/_MODE_READ/_MODE_READ_EOF/_MODE_WRITE (compared with `mode_code` by the
  theorem C13_constants), _BUFFER_SIZE, the wbits of both classes;
* BinaryGzipFile overrides nothing but `wbits` (so one model serves both classes);
* BinaryZlibFile derives from io.BufferedIOBase and does NOT define readline/readlines/peek/read1/readinto1/
  flush/__iter__/__next__/truncate/detach: the model takes readline = io.IOBase.readline over read(1),
  readinto = io.BufferedIOBase.readinto over read(len(b)), flush = io.IOBase.flush.
generate() returns (path, changed, facts); facts["assumption_failures"] is a list of broken assumptions."""
import json
import os
import subprocess
import sys

sys.path.insert(0, os.path.dirname(os.path.abspath(__file__)))
import common  # noqa: E402

CHILD = r"""
import io, json, zlib
from joblib import compressor as jc
Z, G = jc.BinaryZlibFile, jc.BinaryGzipFile
inherited = ["readline", "readlines", "peek", "read1", "readinto1", "flush", "__iter__", "__next__", "truncate",
             "detach", "writelines", "isatty", "__enter__", "__exit__"]
fails = []
for name in inherited:
    if name in vars(Z) or name in vars(G):
        fails.append("BinaryZlibFile/BinaryGzipFile now define %s (the model takes io's implementation)" % name)
if Z.__bases__ != (io.BufferedIOBase,):
    fails.append("BinaryZlibFile bases are %r, not (io.BufferedIOBase,)" % (Z.__bases__,))
if G.__bases__ != (Z,):
    fails.append("BinaryGzipFile bases are %r" % (G.__bases__,))
extra = sorted(k for k in vars(G) if k not in ("wbits", "__doc__", "__module__", "__qualname__", "__firstlineno__",
                                                "__static_attributes__", "__abstractmethods__", "_abc_impl"))
if extra:
    fails.append("BinaryGzipFile overrides %s besides wbits" % extra)
for name in ("read", "readinto", "write", "seek", "tell", "close", "closed", "seekable", "readable", "writable",
             "_fill_buffer", "_read_all", "_read_block", "_rewind"):
    if name not in vars(Z):
        fails.append("BinaryZlibFile no longer defines %s" % name)
print(json.dumps({
    "MODE_CLOSED": jc._MODE_CLOSED, "MODE_READ": jc._MODE_READ, "MODE_READ_EOF": jc._MODE_READ_EOF,
    "MODE_WRITE": jc._MODE_WRITE, "BUFFER_SIZE": jc._BUFFER_SIZE, "zlib_wbits": Z.wbits, "gzip_wbits": G.wbits,
    "MAX_WBITS": zlib.MAX_WBITS, "assumption_failures": fails,
}))
"""


def generate():
    p = subprocess.run([common.PY, "-c", CHILD], env=common.impl_env(), stdout=subprocess.PIPE, stderr=subprocess.PIPE,
                       text=True, timeout=120)
    if p.returncode != 0:
        raise RuntimeError("cannot read joblib.compressor constants: " + p.stderr[-500:])
    f = json.loads(p.stdout.strip().splitlines()[-1])
    text = """(* REGENERATED on every run by harness/gen_c13.py from joblib/compressor.py -- do not edit *)
From Coq Require Import ZArith.
Open Scope Z_scope.
Definition live_MODE_CLOSED : Z := %d.
Definition live_MODE_READ : Z := %d.
Definition live_MODE_READ_EOF : Z := %d.
Definition live_MODE_WRITE : Z := %d.
Definition live_BUFFER_SIZE : Z := %d.
Definition live_zlib_wbits : Z := %d.
Definition live_gzip_wbits : Z := %d.
""" % (f["MODE_CLOSED"], f["MODE_READ"], f["MODE_READ_EOF"], f["MODE_WRITE"], f["BUFFER_SIZE"], f["zlib_wbits"],
       f["gzip_wbits"])
    path = os.path.join(common.COQ, "Gen", "C13_Constants.v")
    changed = common.write_if_changed(path, text)
    return path, changed, f


if __name__ == "__main__":
    print(generate())
