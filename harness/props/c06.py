"""C06 -- repeated calls are served from cache whatever the equivalent call form; check_call_in_cache answers
for the next identical call; the wrapper accepts every call the plain function accepts.

1. build Props/C06.vo (C06_complete, C06_check_same_state, C06_check_next, C06_accepts, necessity of the
   interface hypotheses, F2/F3 witnesses) + Print Assumptions;
2. correspondence as in C02 (same model, same driver), with an execution counter in every generated function;
3. independent oracles: a call whose binding under inspect.signature.bind equals (outside the ignore list) that
   of a completed call, with no clear / eviction / invalidation in between, must not execute the function;
   check_call_in_cache before every call must predict whether that call executes the function; a call that
   Python binds must not raise in the wrapper;
4. known findings F1-F3 (by signature shape AND an observed filter_args deviation); anything else is a VIOLATION.
"""
import os
import sys

sys.path.insert(0, os.path.dirname(os.path.abspath(__file__)))
sys.path.insert(0, os.path.dirname(os.path.dirname(os.path.abspath(__file__))))
import c02_mem_shared as M  # noqa: E402

ASSUMPTIONS = [
    "key_complete: equivalent calls => equal digests (filter_args + order-insensitive hashing; C07/C08). Refuted on "
    "the unchanged tree for the default-index bug shape (F2) and positional-only parameters (F1)",
    "accepts: filter_args succeeds whenever Python's binding does. Refuted for *args + keyword-only (F3) and the "
    "F1/F2 shapes",
    "uniform source text (C06_complete); C06_check_* need no hypothesis",
    "sequential history: no concurrent writer, no crash",
]


def run(ctx):
    cov = M.run_property(ctx, "C06")
    ctx.finish(cov, assumptions=ASSUMPTIONS)


def replay(ctx, path):
    return M.replay_property(ctx, "C06", path)
