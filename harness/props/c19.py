"""C19 -- numpy arrays persist bit-exactly and memory-map faithfully.

1. regenerate Gen/C03_Constants.v (NUMPY_ARRAY_ALIGNMENT_BYTES, BUFFER_SIZE) and TRANSLATE the padding /
   chunk / offset arithmetic of NumpyArrayWrapper.write_array / read_array / read_mmap into
   Gen/C19_Padding.v (fail-closed translator; hand model `pad_model` is the second route);
2. build Props/C19.vo + Print Assumptions;
3. correspondence (implementation run under the numpy interpreter common.PYNP with PYTHONPATH=<repo>):
   dtype x shape x layout generator; for every array written the recorded file position, padding byte,
   padding, data offset, the positions/sizes asked from _read_bytes and the offset handed to make_memmap are
   compared with the model (writer_padding, header_bytes, read_array_data_pos, read_mmap_offset, chunks,
   order_of); _reduce_memmap_backed's arguments vs reduce_memmap on generated memmap views;
4. independent oracle: dtype / shape / memory order / element bytes after load under every compressor and
   protocol; data offset % 16 == 0 and the parsed file bytes; mmap_mode in {r, r+, c, w+}: memmap type,
   ctypes.data % 16 == 0, content; rebuilt memmap views equal the views (throw-away subprocess);
   loky workers with max_nbytes around the array size;
5. known findings F19 / F20 / F21 replayed on the implementation.
"""
import ast
import json
import os
import re
import sys
import concurrent.futures as cf

sys.path.insert(0, os.path.dirname(os.path.dirname(os.path.abspath(__file__))))
import common  # noqa: E402
import gen_c03  # noqa: E402
import gen_c19  # noqa: E402
import translate  # noqa: E402
from props import c03 as c03mod  # noqa: E402

K_ITEMSIZE0 = "c19:itemsize-zero-dtype"
K_NEG = "c19:memmap-negative-stride-view"
K_FLOOR = "c19:memmap-buffer-len-floor-nonmultiple-stride"
K_MATRIX = "c19:matrix-subclass-lost-numpy2"
K_REUSE = "c19:unmanaged-repeated-call:temp-file-of-previous-call-reused-while-its-unlink-is-pending"


def run_impl_cases(cases, timeout=1500):
    """one child interpreter for the batch.  If the child dies (crash, kill) the case it died on gets that as its
    outcome and the rest of the batch is run in a fresh child: a dead child is never the verdict of the run."""
    results = []
    rest = list(cases)
    while rest:
        try:
            rc, out, err = common.run_impl("c19_impl.py", input_text="\n".join(json.dumps(c) for c in rest) + "\n",
                                           timeout=timeout, py=common.PYNP)
        except Exception as e:  # noqa  (timeout of the whole batch)
            rc, out, err = -1, "", "%s: %s" % (type(e).__name__, e)
        lines = []
        for l in out.splitlines():
            if l.strip():
                try:
                    lines.append(json.loads(l))
                except ValueError:
                    break
        lines = lines[:len(rest)]
        results.extend(lines)
        if len(lines) == len(rest):
            break
        results.append({"harness_error": "the child interpreter died on this case (exit status %s)" % rc,
                        "tb": err[-600:]})
        rest = rest[len(lines) + 1:]
    return results


def run_parallel(cases, workers=None):
    workers = workers or min(common.NCPU, 12)
    if len(cases) < 2 * workers:
        return run_impl_cases(cases)
    chunks = [cases[i::workers] for i in range(workers)]
    with cf.ThreadPoolExecutor(workers) as ex:
        outs = list(ex.map(lambda ch: run_impl_cases(ch) if ch else [], chunks))
    res = [None] * len(cases)
    for k in range(workers):
        for j, r in enumerate(outs[k]):
            res[k + workers * j] = r
    return res


# ------------------------------------------------------------------ generators
DTYPES = ["u1", "?", "<i2", ">i2", "<i4", ">i4", "<i8", ">u8", "<f2", "<f4", ">f4", "<f8", ">f8", "<c16", ">c8", "g",
          "S1", "S5", "<U3", ">U2", "V7", "<M8[ns]", ">M8[us]", "<m8[s]", "M8[D]",
          [["a", "<i4"], ["b", ">f8"], ["c", "S3"]],
          [["x", ">i2"], ["y", ">f4"]],
          [["p", "<f4", [2]], ["q", "|u1"]],
          {"fields": [["a", "u1"], ["b", "<f8"]], "align": True},
          [["inner", [["u", "<i2"], ["v", "<U2"]]], ["w", "?"]],
          "O", [["k", "<i4"], ["o", "O"]],
          # records MIXING byte orders (only "all fields foreign" may be byte-swapped on load), nested and sub-array fields
          [["proto", ">u2"], ["count", "<i4"]],
          [["a", "<u2"], ["b", ">u2"], ["c", "<f8"], ["d", ">f8"]],
          [["hdr", [["x", ">i4"], ["y", "<i4"]]], ["v", ">f4"]],
          [["hdr", [["x", ">i4"], ["y", ">i2"]]], ["v", ">f4"]],
          [["p", ">i2", [3]], ["q", "<i2", [2]]],
          [["p", ">i2", [3]], ["q", ">f8"]],
          [["t", ">M8[s]"], ["n", "<u4"], ["s", ">U2"]]]
ZERO_ITEMSIZE = ["V0", []]
SHAPES = [[], [0], [1], [5], [17], [3, 4], [1, 1], [2, 0, 3], [2, 3, 4], [4, 1, 2], [0, 0], [1, 6], [2, 2, 2, 2]]
LAYOUTS = ["C", "C", "F", "T", "strided", "neg", "broadcast", "matrix", "subclass", "memmap", "memmapF", "memmap_view"]
FORMS = [0, 0, 0, False, True, 1, 3, 9, "zlib", "gzip", "bz2", "lzma", "xz", ["zlib", 1], ["gzip", 6], ["bz2", 9],
         ["xz", 0], ["lzma", 2]]


def is_object(dt):
    """does the dtype spec contain an object at any depth (numpy's dtype.hasobject)?"""
    if dt == "O":
        return True
    if isinstance(dt, dict):
        dt = dt["fields"]
    if isinstance(dt, list):
        return any(is_object(f[1]) for f in dt)
    return False


# dtypes that HAVE an object field without BEING object (kind 'V', hasobject True)
OBJECT_FIELD_DTYPES = [[["a", "O"], ["b", "<i4"]], [["k", "<i4"], ["o", "O"]],
                       [["inner", [["u", "<i2"], ["v", "O"]]], ["w", "<f8"]],
                       [["p", "O", [2]], ["q", "<i4"]],
                       [["outer", [["mid", [["deep", "O"]]], ["n", "u1"]]], ["z", ">f4"]]]


def gen_arrays(rng, n):
    cases = []
    for _ in range(n):
        dt = rng.choice(DTYPES)
        shape = rng.choice(SHAPES)
        lay = rng.choice(LAYOUTS)
        if lay == "matrix" and (len(shape) != 2 or is_object(dt)):
            lay = "C"
        if lay in ("memmap", "memmapF", "memmap_view") and is_object(dt):
            lay = "F"
        c = {"mode": "array", "seed": rng.randrange(10 ** 9), "dtype": dt, "shape": shape, "layout": lay,
             "target": rng.choice(["path", "path", "raw", "bytesio"]), "form": rng.choice(FORMS),
             "proto": rng.choice([None, 2, 3, 4, 5, None, -1, -2]), "filler": rng.choice([0, 1, 5, 9, 14, 15, 16, 17, 250, 4000, 66000]),
             "nested": rng.random() < 0.8, "name": rng.choice(["arr.pkl", "arr.gz", "arr", "arr.npy"]),
             "ensure_native": rng.choice(["auto", "auto", False, True]),
             "load_via": rng.choice(["path", "fileobj"])}
        if lay in ("memmap", "memmapF", "memmap_view"):
            c["mm_offset"] = rng.choice([0, 8, 16, 40])
        if rng.random() < 0.12:
            # joblib's own file object handed directly to dump as the TARGET, loaded back through every route
            c["target"] = rng.choice(["zlibfile", "gzipfile"])
            c["form"] = 0
            c["load_via"] = rng.choice(["path", "fileobj", "jfile"])
        cases.append(c)
    return cases


def gen_big(rng):
    """arrays larger than BUFFER_SIZE (chunked reads) and items larger than BUFFER_SIZE"""
    out = []
    for dt, shape, form in [("<f8", [40000], ["gzip", 1]), ("<f8", [32768], ["zlib", 1]), ("<f8", [32769], 0),
                            ("<i2", [3, 70000], ["zlib", 1]), ("V300000", [3], ["zlib", 1]), ("<c16", [16385], 3),
                            ("u1", [262145], ["bz2", 1]), ("<f4", [65536, 2], 0)]:
        out.append({"mode": "array", "seed": rng.randrange(10 ** 9), "dtype": dt, "shape": shape,
                    "layout": rng.choice(["C", "F"]) if len(shape) > 1 else "C", "target": rng.choice(["path", "bytesio"]),
                    "form": form, "proto": None, "filler": rng.choice([0, 7]), "nested": False, "ensure_native": "auto"})
    # item sizes around BUFFER_SIZE = 262144 (just below, equal, just above, several times), few elements
    for dt in ("V262143", "V262144", "V262145", "S300000", "<U70000", "V786432", [["blob", "V262140"], ["n", "<i8"]]):
        out.append({"mode": "array", "seed": rng.randrange(10 ** 9), "dtype": dt, "shape": [rng.choice([1, 2, 3])],
                    "layout": "C", "target": rng.choice(["path", "bytesio"]), "form": rng.choice([0, ["zlib", 1], "gzip"]),
                    "proto": None, "filler": rng.choice([0, 7]), "nested": False, "ensure_native": "auto"})
    # 4-8 MiB of zeros x zlib / gzip at levels 4, 7, 9: the compressed file is a few KiB, a single raw block of it
    # inflates to MiBs
    for dt, shape in [("<f8", [786432]), ("u1", [2048, 2048]), (">i4", [1500000]), ("<f4", [1024, 1024, 2])]:
        codec = rng.choice(["zlib", "gzip"])
        out.append({"mode": "array", "seed": rng.randrange(10 ** 9), "dtype": dt, "shape": shape, "layout": "zeros",
                    "target": rng.choice(["path", "raw", "bytesio"]), "form": rng.choice([[codec, 4], [codec, 7], [codec, 9], 7]),
                    "proto": rng.choice([None, 4, -1]), "filler": rng.choice([0, 7]), "nested": rng.random() < 0.5,
                    "ensure_native": "auto", "load_via": rng.choice(["path", "fileobj"])})
    return out


def gen_mmap(rng, n):
    cases = []
    for _ in range(n):
        dt = rng.choice([d for d in DTYPES if not is_object(d)])
        shape = rng.choice(SHAPES)
        lay = rng.choice(["C", "F", "T", "strided", "matrix", "memmap"])
        if lay == "matrix" and len(shape) != 2:
            lay = "C"
        cases.append({"mode": "array", "seed": rng.randrange(10 ** 9), "dtype": dt, "shape": shape, "layout": lay,
                      "target": rng.choice(["path", "raw"]), "form": 0, "proto": rng.choice([None, 2, 4, 5, -1]),
                      "filler": rng.choice([0, 3, 15, 16, 17, 1000]), "nested": rng.random() < 0.7,
                      "mmap_mode": rng.choice(["r", "r+", "c", "w+"]), "load_via": "path"})
    return cases


def gen_reduce(rng, n):
    cases = []
    dts = ["<i8", "<f4", ">i2", "<f8", [["f0", "i1"], ["f1", "<i8"]], {"fields": [["a", "u1"], ["b", "<f8"]], "align": True},
           [["f0", "<i4"], ["f1", "<i4"]]]
    for _ in range(n):
        dt = rng.choice(dts)
        nd = rng.choice([1, 1, 2, 2, 3])
        shape = [rng.choice([1, 2, 3, 4, 6, 10]) for _ in range(nd)]
        ops = []
        cur = list(shape)
        for _ in range(rng.choice([1, 1, 2, 3])):
            k = rng.randrange(10)
            if k < 5:
                sl = []
                for d in cur:
                    kind = rng.randrange(6)
                    if kind == 0:
                        sl.append([None, None, None])
                    elif kind == 1:
                        a = rng.randrange(0, d)
                        sl.append([a, rng.randrange(a + 1, d + 1), None])
                    elif kind == 2:
                        sl.append([rng.randrange(0, d), None, rng.choice([2, 3])])
                    elif kind == 3:
                        sl.append([None, None, rng.choice([-1, -2])])       # negative stride
                    elif kind == 4:
                        sl.append([0, 1, None])
                    else:
                        sl.append([None, None, 1])
                ops.append(["slice", sl])
                cur = [len(range(*slice(*s).indices(d))) for s, d in zip(sl, cur)]
            elif k < 7:
                ops.append(["T"])
                cur = cur[::-1]
            elif k == 7 and not isinstance(dt, str) and not any(o[0] == "field" for o in ops):
                names = [f[0] for f in (dt["fields"] if isinstance(dt, dict) else dt)]
                ops.append(["field", rng.choice(names)])
            elif k == 8:
                ops.append(["asarray"])
            else:
                ops.append(["newaxis"])
                cur = [1] + cur
            if 0 in cur:
                break
        cases.append({"mode": "reduce", "dtype": dt, "shape": shape, "order": rng.choice(["C", "C", "F"]),
                      "mm_offset": rng.choice([0, 0, 8, 24, 4096 + 16]), "tail": rng.choice([0, 5]), "ops": ops})
    # axes permuted (3-D and 4-D): the view covers one gap-free segment of the buffer without being contiguous
    for order in ("C", "F"):
        for shape, perm in (([2, 3, 4], [1, 0, 2]), ([2, 3, 4], [0, 2, 1]), ([3, 2, 2], [2, 0, 1]), ([2, 2, 3, 2], [1, 0, 3, 2])):
            cases.append({"mode": "reduce", "dtype": rng.choice(["<i8", "<f4"]), "shape": shape, "order": order,
                          "mm_offset": rng.choice([0, 24]), "ops": [["perm", perm]]})
    # the shapes the fixed finding F28 is about: transposes and contiguous slices of C- and F-ordered memmaps
    for order in ("C", "F"):
        for ops in ([["T"]], [["T"], ["slice", [[None, None, None], [None, None, None]]]], [["slice", [[1, 3, None], [None, None, None]]]],
                    [["T"], ["slice", [[1, 2, None], [None, None, None]]]], [["slice", [[None, None, None], [1, 2, None]]]]):
            cases.append({"mode": "reduce", "dtype": "<i8", "shape": [4, 3], "order": order, "mm_offset": 0, "ops": ops})
    return cases


def gen_loky(rng, quick):
    cases = []
    for thr in ([96, 104] if quick else [96, 104, 0, 95, 1000, None]):
        arrays = [{"dtype": "<f8", "shape": [12], "layout": "C"}, {"dtype": "<f8", "shape": [13], "layout": "C"},
                  {"dtype": "<f8", "shape": [14], "layout": "C"}, {"dtype": ">i4", "shape": [5, 6], "layout": "F"},
                  {"dtype": "<f4", "shape": [30], "layout": "strided"}, {"dtype": "O", "shape": [40], "layout": "C"},
                  {"dtype": [["a", "<i4"], ["b", ">f8"], ["c", "S3"]], "shape": [9], "layout": "C"},
                  {"dtype": "<i8", "shape": [13], "layout": "memmap"},
                  {"dtype": [["a", "O"], ["b", "<i4"]], "shape": [40], "layout": "C"},
                  {"dtype": [["inner", [["u", "<i2"], ["v", "O"]]], ["w", "<f8"]], "shape": [5, 6], "layout": "F"},
                  {"dtype": [["p", "O", [2]], ["q", "<i4"]], "shape": [30], "layout": "C"},
                  {"reduce": True, "dtype": "<i8", "shape": [4, 3], "ops": [["T"]]},
                  {"reduce": True, "dtype": "<i8", "shape": [4, 3], "order": "F", "ops": [["T"]]},
                  {"reduce": True, "dtype": "<i8", "shape": [6, 5], "ops": [["slice", [[1, 5, 2], [0, 5, 2]]]]},
                  {"reduce": True, "dtype": "<f8", "shape": [20], "ops": [["slice", [[3, 17, None]]]]}]
        cases.append({"mode": "loky", "seed": rng.randrange(10 ** 9), "max_nbytes": thr, "arrays": arrays})
    return cases


# ------------------------------------------------------------------ oracles (do not consult the model)
def judge_array(c, r, A):
    """returns (description, finding_key) or None"""
    if "harness_error" in r:
        return "harness error " + r["harness_error"] + r.get("tb", ""), None
    g = r.get("geom", {})
    if "dump_raise" in r:
        if g.get("itemsize") == 0 and r["dump_raise"].startswith("ZeroDivisionError"):
            return "dump of an array whose dtype has item size 0 raises " + r["dump_raise"], K_ITEMSIZE0
        return "dump raised " + r["dump_raise"], None
    if r.get("target_closed_by_dump"):
        return "dump closed the %s object it was given as target" % c["target"], None
    if "load_raise" in r:
        return "load (via %s) of a dump to %s raised %s" % (c.get("load_via", "path"), c["target"], r["load_raise"]), None
    if r.get("diff") == "type matrix -> ndarray" and not c.get("mmap_mode"):
        return "np.matrix comes back from load as a plain ndarray (subclass lost)", K_MATRIX
    if r.get("diff"):
        return "load(dump(a)) differs from a: " + r["diff"], None
    for w, lay in zip(r.get("writes", []), r.get("layout") or []):
        if lay is None:
            continue
        if not (1 <= lay["pad_byte"] <= A) or not lay["padding_all_ff"]:
            return "bad padding at %d: %s" % (lay["pos"], lay["head"]), None
        if lay["data_start"] % A != 0:
            return "array data at offset %d is not %d-byte aligned" % (lay["data_start"], A), None
        if not lay["data_ok"]:
            return "bytes at the data offset are not the array's bytes in order %s" % w["order"], None
        if lay["end"] != lay["data_start"] + w["nbytes"]:
            return "write_array wrote %d bytes after the header, array has %d" % (lay["end"] - lay["data_start"], w["nbytes"]), None
    if c.get("mmap_mode") and not r.get("compressed"):
        mm = r["mm"]
        lay = [l for l in (r.get("layout") or []) if l]
        if c["target"] in ("path", "raw") and not g["hasobject"] and g["type"] != "MyArr":
            if not mm["is_memmap"]:
                return "mmap_mode=%s did not give a memmap" % c["mmap_mode"], None
            if not mm["aligned"]:
                return "memmap data pointer is not %d-byte aligned" % A, None
            if lay and mm["offset"] != lay[0]["data_start"]:
                return "memmap offset %d, data was written at %d" % (mm["offset"], lay[0]["data_start"]), None
            want_mode = "r+" if c["mmap_mode"] == "w+" else c["mmap_mode"]
            if mm["mode"] != want_mode:
                return "memmap mode %s for mmap_mode=%s" % (mm["mode"], c["mmap_mode"]), None
    return None


def sample_indices(shape, rng, n=6):
    if any(d == 0 for d in shape):
        return []
    out = [[0] * len(shape), [d - 1 for d in shape]]
    for _ in range(n):
        out.append([rng.randrange(d) for d in shape])
    return out


def lin(shape, idx, order):
    pos = 0
    if order == "C":
        for d, i in zip(shape, idx):
            pos = pos * d + i
    else:
        for d, i in zip(reversed(shape), reversed(idx)):
            pos = pos * d + i
    return pos


def judge_reduce(c, r, rng):
    if "harness_error" in r:
        return "harness error " + r["harness_error"] + r.get("tb", ""), None
    if not r.get("has_backing"):
        return None
    a, v, b = r["args"], r["view"], r["backing"]
    neg = any(s < 0 and d > 1 for s, d in zip(v["strides"], v["shape"]))
    nonmult = any(s % v["itemsize"] for s, d in zip(v["strides"], v["shape"]) if d > 1)
    problems = []
    # arithmetic: every element must be rebuilt at its own file offset, inside the rebuilt buffer
    if v["size"] > 0:
        lo = a["offset"]
        if a["strides"] is None:
            hi = lo + v["size"] * v["itemsize"]
        else:
            hi = lo + a["total"] * v["itemsize"]
        for idx in sample_indices(v["shape"], rng):
            orig = b["offset"] + v["ptr"] + sum(i * s for i, s in zip(idx, v["strides"]))
            if a["strides"] is None:
                rec = a["offset"] + v["itemsize"] * lin(v["shape"], idx, a["order"])
            else:
                rec = a["offset"] + sum(i * s for i, s in zip(idx, a["strides"]))
            if rec != orig:
                problems.append("element %s is rebuilt at file offset %d, it lives at %d" % (idx, rec, orig))
                break
            if rec < lo or rec + v["itemsize"] > hi:
                problems.append("element %s at [%d, %d) lies outside the rebuilt buffer [%d, %d)"
                                % (idx, rec, rec + v["itemsize"], lo, hi))
                break
        if hi > b["file_len"]:
            problems.append("rebuilt buffer ends at %d, the file has %d bytes" % (hi, b["file_len"]))
    rb = r.get("rebuild")
    if rb is not None:
        if "crash" in rb:
            problems.append("rebuilding the view crashed the interpreter (%s)" % rb["crash"])
        elif rb["values"] != r["expected"]:
            problems.append("rebuilt view has other values")
    if not problems:
        return None
    if neg:
        return "negative-stride view of a memmap: " + problems[0], K_NEG
    if nonmult and all(p.startswith("element") and "outside the rebuilt buffer" in p for p in problems):
        return "stride not a multiple of the item size: " + problems[0], K_FLOOR
    return problems[0], None


def gen_routes(rng, n):
    """arrays around the auto-memmapping threshold, object arrays, memmap-backed arrays and views"""
    cases = []
    for _ in range(n):
        k = rng.randrange(6)
        if k == 0 and rng.random() < 0.35:
            arr = {"dtype": "O", "shape": [rng.choice([3, 40])], "layout": "C"}
        elif k == 0:
            arr = {"dtype": rng.choice(OBJECT_FIELD_DTYPES), "shape": rng.choice([[2], [13], [3, 4]]),
                   "layout": rng.choice(["C", "F"])}
        elif k == 1:
            arr = {"reduce": True, "dtype": "<i8", "shape": [4, 3], "order": rng.choice(["C", "F"]),
                   "ops": rng.choice([[["T"]], [["slice", [[1, 3, None], [None, None, None]]]], [["slice", [[None, None, 2], [None, None, None]]]]])}
        elif k == 2:
            arr = {"dtype": rng.choice(["<i8", "<f4"]), "shape": [rng.choice([2, 13])], "layout": "memmap"}
        else:
            arr = {"dtype": rng.choice(["<f8", ">i4", "u1", [["a", "<i4"], ["b", ">f8"]]]), "shape": rng.choice([[12], [13], [3, 4], [0], []]),
                   "layout": rng.choice(["C", "F", "strided", "T"])}
        nb = 96
        cases.append({"mode": "route", "seed": rng.randrange(10 ** 9), "array": arr, "mmap_mode": rng.choice(["r", "r", "c", None]),
                      "max_nbytes": rng.choice([None, 0, 1, 7, 8, 11, 12, 47, 48, 95, 96, 97, 103, 104, 105, 10 ** 6])})
    return cases


def judge_route(c, r):
    if "harness_error" in r:
        return "harness error " + r["harness_error"] + r.get("tb", "")
    if "forward_raise" in r:
        return "array of %d bytes (dtype.hasobject=%s) with max_nbytes=%s: %s" % (
            r["nbytes"], r["hasobject"], c["max_nbytes"], r["forward_raise"])
    if not r["forward_ok"]:
        return "the array rebuilt from the forward reduction differs from the array"
    thr = c["max_nbytes"]
    if r["has_backing"]:
        want = "reduce_backed"
    elif (not r["hasobject"]) and thr is not None and r["nbytes"] > thr and c.get("mmap_mode", "r") is not None:
        want = "dump_temp"          # mmap_mode=None: "None will disable memmapping"
    else:
        want = "pickle"
    if r["forward"] != want:
        return "array of %d bytes (object=%s, memmap-backed=%s) with max_nbytes=%s, mmap_mode=%r took the route %s, documented %s" % (
            r["nbytes"], r["hasobject"], r["has_backing"], thr, c.get("mmap_mode", "r"), r["forward"], want)
    want_back = "reduce_backed" if r["forward"] == "reduce_backed" else "pickle"
    if r["backward"] != want_back:
        return "on the way back the array took the route %s, documented %s" % (r["backward"], want_back)
    return None


def model_routes(ctx, routes, route_res):
    exprs, idx = [], []
    for i, (c, r) in enumerate(zip(routes, route_res)):
        if "forward" not in r or "forward_ok" not in r:
            continue
        thr = c["max_nbytes"]
        mm = c.get("mmap_mode", "r")
        exprs.append("(route_code (forward_route %s %s %d %s %s %d), route_code (Ok (backward_route %s %s)))" % (
            "true" if r["has_backing"] else "false", "true" if r["hasobject"] else "false", r["dtype_kind"],
            "None" if thr is None else "(Some %d)" % thr, "None" if mm is None else "(Some %d)" % ord(mm[0]), r["nbytes"],
            "true" if r["forward_memmap"] else "false", "true" if r["backward_is_joblib_temp"] else "false"))
        idx.append(i)
    vals = ctx.coq_eval_lines(REQ, DEFS, exprs, name="c19_routes", shard=300)
    names = {0: "reduce_backed", 1: "dump_temp", 2: "pickle", 9: "raise"}
    dis = []
    for i, v in zip(idx, vals):
        fw, bw = parse_coq(v)
        r = route_res[i]
        if names[fw] != r["forward"] or names[bw] != r["backward"]:
            dis.append({"function": "ArrayMemmapForwardReducer.__call__ / reduce_array_memmap_backward", "case": routes[i],
                        "model": [names[fw], names[bw]], "impl": [r["forward"], r["backward"]]})
    return dis, len(vals)


def gen_loky_loops(rng, quick):
    cases = [{"mode": "loky_loop", "dtype": "<f8", "shape": [5000], "max_nbytes": 0, "iterations": 12, "fill": "full"},
             {"mode": "loky_loop", "dtype": rng.choice(["<i4", ">f4", "<f8"]), "shape": rng.choice([[300, 20], [64, 64]]),
              "max_nbytes": rng.choice([100, 1000]), "iterations": 10, "fill": "arange", "order": rng.choice(["C", "F"]),
              "tasks": 3}]
    cases.append({"mode": "loky_loop", "unmanaged": True, "dtype": "<f8", "shape": [5000], "max_nbytes": 0, "iterations": 4,
                  "fill": "full", "tasks": 6})
    if not quick:
        cases += [{"mode": "loky_loop", "unmanaged": True, "dtype": rng.choice(["<i4", ">f4"]), "shape": [40, 50], "max_nbytes": 100,
                   "iterations": 6, "fill": "arange", "tasks": 8, "order": "F"},
                  {"mode": "loky_loop", "dtype": [["a", "<i4"], ["b", ">f8"]], "shape": [2000], "max_nbytes": 0,
                   "iterations": 20, "fill": "arange"},
                  {"mode": "loky_loop", "dtype": "<f8", "shape": [5000], "max_nbytes": 0, "iterations": 12, "fill": "full",
                   "backend": "multiprocessing"}]
    return cases


def gen_loky_modes(rng, quick):
    """automatic memmapping with an explicit mmap_mode: None (documented: "None will disable memmapping") given as an
    argument and through parallel_config, and a real mode for contrast; loky and multiprocessing; managed and not;
    arrays around max_nbytes"""
    arrays = [{"dtype": "<f8", "shape": [12], "layout": "C"}, {"dtype": "<f8", "shape": [13], "layout": "C"},
              {"dtype": ">i4", "shape": [5, 6], "layout": "F"}, {"dtype": "<f8", "shape": [5000], "layout": "C"},
              {"dtype": [["a", "<i4"], ["b", ">f8"]], "shape": [40], "layout": "C"}]
    combos = [("loky", "argument", None, False), ("loky", "config", None, True), ("multiprocessing", "argument", None, True),
              ("loky", "argument", "c", False)]
    if not quick:
        combos += [("multiprocessing", "config", None, False), ("loky", "argument", None, True), ("loky", "config", None, False),
                   ("multiprocessing", "argument", "r", False), ("loky", "default", "r", True)]
    return [{"mode": "loky_mode", "seed": rng.randrange(10 ** 9), "arrays": arrays, "max_nbytes": rng.choice([96, 10]),
             "backend": b, "mode_given": how, "mmap_mode": mm, "managed": managed, "timeout": 40}
            for b, how, mm, managed in combos]


def judge_loky_mode(c, r):
    what = "Parallel(n_jobs=2, backend=%r, max_nbytes=%s, mmap_mode=%r %s, %s)" % (
        c["backend"], c["max_nbytes"], c["mmap_mode"], "as argument" if c["mode_given"] == "argument" else
        ("through parallel_config" if c["mode_given"] == "config" else "by default"), "managed" if c["managed"] else "unmanaged")
    if "harness_error" in r:
        return what + ": the case could not be run to its end (%s %s)" % (r["harness_error"], r.get("tb", "")[-200:])
    if "parallel_raise" in r:
        return what + " over arrays around the threshold raised %s (the sequential run succeeds)" % r["parallel_raise"]
    for rnd in r["rounds"]:
        for spec, w, g in zip(c["arrays"], r["want"], rnd):
            if (w["digest"], w["dtype"], w["shape"]) != (g["digest"], g["dtype"], g["shape"]):
                return what + ": the task saw %s %s for an array %s %s" % (g["dtype"], g["shape"], w["dtype"], w["shape"])
            if c["mmap_mode"] is None:
                if g["memmap"]:
                    return what + ": memmapping is disabled but the task received a memmap (%d bytes)" % w["nbytes"]
                if g["temp_files"]:
                    return what + ": memmapping is disabled but %d temporary file(s) were created" % g["temp_files"]
            elif g["memmap"] != (w["nbytes"] > c["max_nbytes"]):
                return what + ": array of %d bytes: memmapped=%s" % (w["nbytes"], g["memmap"])
    return None


def gen_loky_seqs(rng, quick):
    """sequences of calls in ONE process with different (mmap_mode, max_nbytes): 'r+' then 'c' then 'r', a threshold
    above then below the array size"""
    seqs = [[("r+", 100), ("c", 100), ("r", 100), ("w+", 100)],
            [("r", 10 ** 6), ("r", 100), ("c", 10 ** 6), ("c", 0)]]
    if not quick:
        seqs += [[("c", 100), ("r+", 100), ("default", 100), (None, 100), ("r", 100)],
                 [("default", 10 ** 6), ("r+", 0), ("r", 10 ** 6), ("c", 100)]]
    return [{"mode": "loky_seq", "dtype": rng.choice(["<f8", "<i4"]), "shape": rng.choice([[500], [30, 20]]),
             "steps": [{"mmap_mode": mm, "max_nbytes": thr, "tasks": 4} for mm, thr in sq]} for sq in seqs]


def judge_loky_seq(c, r):
    if "harness_error" in r:
        return "the case could not be run to its end: " + r["harness_error"] + r.get("tb", "")[-200:]
    for i, (st, res) in enumerate(zip(c["steps"], r["steps"])):
        mm = "r" if st["mmap_mode"] == "default" else st["mmap_mode"]
        what = "call %d of the sequence %s, Parallel(mmap_mode=%r, max_nbytes=%s)" % (
            i + 1, [(s["mmap_mode"], s["max_nbytes"]) for s in c["steps"]], st["mmap_mode"], st["max_nbytes"])
        if not res["caller_array_intact"]:
            return what + ": the caller's array was modified by a task"
        want_mm = mm is not None and res["nbytes"] > st["max_nbytes"]
        want_mode = {"w+": "r+"}.get(mm, mm)
        for g in res["got"]:
            if g["memmap"] != want_mm:
                return what + ": array of %d bytes, the task received a memmap: %s" % (res["nbytes"], g["memmap"])
            if want_mm and g["mode"] != want_mode:
                return what + ": the task received a memmap of mode %r" % g["mode"]
            if want_mm and g["writeable"] != (want_mode != "r"):
                return what + ": the task's view is writeable: %s" % g["writeable"]
            if not (want_mm and want_mode == "r+") and (g["digest"] != res["want_digest"] or g["first"] != res["want_first"]):
                return what + ": a task saw other values than the array passed (first element %s, expected %s)" % (
                    g["first"], res["want_first"])
    if "parallel_raise" in r:
        return "call %d of the sequence %s raised %s" % (len(r["steps"]) + 1, [(s["mmap_mode"], s["max_nbytes"]) for s in c["steps"]],
                                                       r["parallel_raise"])
    return None


def reuse_signature(c, r):
    """does a failure of an UNMANAGED repeated-call loop carry the signature of known finding F54?  (the temporary file of
    the previous call is reused while its unlink is pending: the worker cannot open it, or the task sees the content
    the array had at the previous call)"""
    if not c.get("unmanaged"):
        return False
    rows = r.get("rows", [])
    if "parallel_raise" in r:
        return (len(rows) >= 1 and "BrokenProcessPool" in r["parallel_raise"] and "un-serialize" in r["parallel_raise"]
                and ("FileNotFoundError" in r.get("cause", "") or "load_temporary_memmap" in r.get("cause", "")
                     or r.get("cause") in (None, "None", "")))
    bad_rows = [i for i, row in enumerate(rows) if any(g["digest"] != row["want"]["digest"] for g in row["got"])]
    return bool(bad_rows) and all(i >= 1 and all(g["digest"] in (rows[i]["want"]["digest"], rows[i - 1]["want"]["digest"])
                                                 for g in rows[i]["got"]) for i in bad_rows)


def judge_reuse_witness(r):
    """(description, is the known finding) for the deterministic witness"""
    if "harness_error" in r:
        return "the witness could not be run: " + r["harness_error"] + r.get("tb", "")[-300:], False
    calls = r["calls"]
    for i, cl in enumerate(calls):
        if "raise" in cl:
            ok = i >= 1 and "BrokenProcessPool" in cl["raise"]
            return ("unmanaged Parallel(n_jobs=2, max_nbytes=0) called again with the same array while the unlink of the "
                    "previous call's temporary file is pending: call %d raised %s" % (i + 1, cl["raise"])), ok
        if any(g != "np.float64(%r)" % cl["want"] for g in cl["got"]):
            prev = calls[i - 1]["want"] if i else None
            ok = i >= 1 and all(g in ("np.float64(%r)" % cl["want"], "np.float64(%r)" % prev) for g in cl["got"])
            return ("unmanaged Parallel(n_jobs=2, max_nbytes=0) called again with the same array (changed in place to %r) "
                    "while the unlink of the previous call's temporary file is pending: the tasks of call %d saw %s -- the "
                    "content of the previous call" % (cl["want"], i + 1, sorted(set(cl["got"])))), ok
    return None, False


def judge_loky_loop(c, r):
    if "harness_error" in r:
        return "the case could not be run: " + r["harness_error"] + r.get("tb", "")[-300:]
    if "parallel_raise" in r:
        return "a managed Parallel(max_nbytes=%s) raised %s at call %d" % (c["max_nbytes"], r["parallel_raise"], len(r["rows"]))
    stale = []
    for row in r["rows"]:
        for g in row["got"]:
            if g["digest"] != row["want"]["digest"]:
                stale.append((row["it"], row["want"]["first"], g["first"]))
                break
    if stale:
        it, want, got = stale[0]
        how = ("one Parallel(n_jobs=2, max_nbytes=%s) object called repeatedly outside a with block, ONE %s%s array mutated in "
               "place between the calls" if c.get("unmanaged") else
               "managed Parallel(n_jobs=2, max_nbytes=%s), a fresh %s%s array per call") % (c["max_nbytes"], c["dtype"], c["shape"])
        return ("%s: at call %d the array started with %s but a task saw %s; %d of %d calls presented other values" % (
            how, it, want, got, len(stale), len(r["rows"])))
    return None


def judge_loky(c, r):
    if "harness_error" in r:
        return "harness error " + r["harness_error"] + r.get("tb", "")
    if "parallel_raise" in r:
        return "Parallel(n_jobs=2, max_nbytes=%s) over the arrays raised %s (the sequential run succeeds)" % (
            c["max_nbytes"], r["parallel_raise"])
    if [(x["digest"], x["dtype"], x["shape"]) for x in r["seq"]] != [(x["digest"], x["dtype"], x["shape"]) for x in r["got"]]:
        return "the parallel results differ from the sequential results (max_nbytes=%s)" % c["max_nbytes"]
    for spec, w, g in zip(c["arrays"], r["want"], r["got"]):
        if (w["digest"], w["dtype"], w["shape"]) != (g["digest"], g["dtype"], g["shape"]):
            return "the task saw %s %s %s for an array %s %s (max_nbytes=%s, %s)" % (
                g["dtype"], g["shape"], g["digest"][:8], w["dtype"], w["shape"], c["max_nbytes"], spec)
        thr = c["max_nbytes"]
        if not spec.get("reduce") and spec.get("layout") != "memmap" and not is_object(spec["dtype"]) and thr is not None:
            if g["memmap"] != (w["nbytes"] > thr):
                return "array of %d bytes with max_nbytes=%d: memmapped=%s" % (w["nbytes"], thr, g["memmap"])
    return None


# ------------------------------------------------------------------ model side
REQ = """From Coq Require Import ZArith List Bool.
Require Import JV.Base.PyPrelude JV.Gen.C03_Constants JV.Gen.C19_Padding JV.Model.ArrayLayout.
Import ListNotations. Open Scope Z_scope."""
DEFS = """Definition A := NUMPY_ARRAY_ALIGNMENT_BYTES.
Definition showZ (r : result Z) : Z * Z := match r with Ok z => (0, z) | Raise ZeroDivisionError => (1, 0) | Raise _ => (2, 0) end.
Definition showL (r : result (list Z)) : Z * list Z := match r with Ok l => (0, l) | Raise _ => (2, []) end.
Definition showC (r : result (list (Z * Z * Z))) : Z * list (Z * Z * Z) :=
  match r with Ok l => (0, l) | Raise ZeroDivisionError => (1, []) | Raise _ => (2, []) end.
Definition ord_code (o : order) : Z := match o with OrdC => 0 | OrdF => 1 end.
Definition type_code (t : arrtype) : Z := match t with TNdarray => 0 | TMatrix => 1 | TMemmap => 2 | TSubclass => 3 end.
Definition payload_code (p : payload) : Z := match p with PRaw => 0 | PPickle2 => 1 end.
Definition route_code (r : result route) : Z :=
  match r with Ok RReduceBacked => 0 | Ok RDumpTemp => 1 | Ok RPickle => 2 | Raise _ => 9 end.
Definition file_of (pos : Z) (head : list Z) : list Z := repeat 0 (Z.to_nat pos) ++ head.
Definition show_write (pos : Z) (head : list Z) :=
  (showZ (writer_padding A pos), pad_model A pos, showL (header_bytes A pos),
   showZ (read_array_data_pos (file_of pos head) pos), showZ (read_mmap_offset (file_of pos head) pos)).
Definition show_red (r : result (Z * order * option (list Z) * option Z)) : Z * (Z * Z * list Z * Z) :=
  match r with
  | Ok (off, o, st, tot) => (0, (off, ord_code o, match st with None => [(-7)] | Some l => l end,
                                 match tot with None => (-7) | Some t => t end))
  | Raise _ => (1, (0, 0, [], 0))
  end."""


def parse_coq(s):
    s = s.replace("%Z", "").replace("%nat", "").replace(";", ",")
    s = re.sub(r"\btrue\b", "True", s)
    s = re.sub(r"\bfalse\b", "False", s)
    return ast.literal_eval(s)


def flat(t):
    """Coq prints left-nested pairs flattened; normalise any nesting to a flat tuple of leaves/lists"""
    out = []
    for x in t:
        if isinstance(x, tuple):
            out.extend(flat(x))
        else:
            out.append(x)
    return out


def zl(xs):
    return "[" + "; ".join(common.zlit(int(x)) for x in xs) + "]"


def model_compare(ctx, arr_cases, arr_res, red_cases, red_res, k):
    """returns (disagreements, n_model)"""
    dis = []
    exprs, meta = [], []
    A = k["alignment"]
    for ci, (c, r) in enumerate(zip(arr_cases, arr_res)):
        if "writes" not in r or r.get("layout") is None:
            # compressed: positions are those of the uncompressed stream; the file bytes are not available,
            # the padding is still predicted from the recorded position
            for wi, w in enumerate(r.get("writes", [])):
                if w["hasobject"] or w["align"] is None or w["pos"] is None or w["pos"] > 300000:
                    continue
                exprs.append("(showZ (writer_padding A %d), ord_code (order_of %s %s))" % (
                    w["pos"], "true" if w["f"] else "false", "true" if w["c"] else "false"))
                meta.append(("wpos", ci, wi))
            continue
        for wi, (w, lay) in enumerate(zip(r["writes"], r["layout"])):
            if lay is None or w["pos"] > 300000:
                continue
            head = list(bytes.fromhex(lay["head"]))
            exprs.append("(show_write %d %s, ord_code (order_of %s %s))" % (
                w["pos"], zl(head), "true" if w["f"] else "false", "true" if w["c"] else "false"))
            meta.append(("write", ci, wi))
    for ci, (c, r) in enumerate(zip(arr_cases, arr_res)):
        g = r.get("geom")
        if not g or g["hasobject"] or "reads" not in r:
            continue
        for ri, rd in enumerate(r["reads"]):
            if rd["kind"] == "read_array" and ri == 0:
                cnt = 1
                for d in g["shape"]:
                    cnt *= d
                if cnt > 400000:
                    continue
                exprs.append("showC (chunks BUFFER_SIZE %d %d)" % (g["itemsize"], cnt))
                meta.append(("chunks", ci, ri))
    for ci, (c, r) in enumerate(zip(red_cases, red_res)):
        if not r.get("has_backing"):
            continue
        v, b = r["view"], r["backing"]
        vw = "{| v_ptr := %d; v_shape := %s; v_strides := %s; v_isz := %d; v_c := %s; v_f := %s |}" % (
            1000 + v["ptr"], zl(v["shape"]), zl(v["strides"]), v["itemsize"],
            "true" if v["c"] else "false", "true" if v["f"] else "false")
        bk = "{| m_start := 1000; m_offset := %d; m_f := %s |}" % (b["offset"], "true" if b["f"] else "false")
        # translated source, hand model, numpy's contiguity flags recomputed from shape/strides
        exprs.append("(show_red (reduce_memmap %s %s), show_red (reduce_memmap_hand %s %s), "
                     "(np_c_contig %s %s %d, np_f_contig %s %s %d))" % (
                         vw, bk, vw, bk, zl(v["shape"]), zl(v["strides"]), v["itemsize"],
                         zl(v["shape"]), zl(v["strides"]), v["itemsize"]))
        meta.append(("reduce", ci, 0))
    type_codes = {"ndarray": "TNdarray", "matrix": "TMatrix", "memmap": "TMemmap", "MyArr": "TSubclass"}
    for ci, (c, r) in enumerate(zip(arr_cases, arr_res)):
        g = r.get("geom")
        if not g or "loaded_type" not in r or g["type"] not in type_codes:
            continue
        via = bool(c.get("mmap_mode")) and not r.get("compressed") and c["target"] in ("path", "raw") \
            and c.get("load_via", "path") == "path" and not g["hasobject"] and g["type"] != "MyArr"
        exprs.append("(type_code (loaded_type %s numpy_has_array_prepare %s), save_intercepts %s, "
                     "payload_code (payload_kind %s))" % (type_codes[g["type"]], "true" if via else "false",
                                                          type_codes[g["type"]], "true" if g["hasobject"] else "false"))
        meta.append(("type", ci, via))
    vals = ctx.coq_eval_lines(REQ, DEFS, exprs, name="c19_cases", shard=250)
    for (kind, ci, wi), v in zip(meta, vals):
        t = parse_coq(v)
        if kind == "wpos":
            r = arr_res[ci]
            w = r["writes"][wi]
            (tag, pad), oc = (t[0], t[1]) if len(t) == 2 else ((t[0], t[1]), t[2])
            nxt = w["end"] - w["nbytes"] - w["pos"] - 1          # padding length as written (uncompressed stream)
            if tag != 0 or pad != nxt or oc != (1 if w["order"] == "F" else 0):
                dis.append({"function": "write_array padding / order (compressed stream)", "case": arr_cases[ci],
                            "model": [tag, pad, oc], "impl": [w["pos"], nxt, w["order"]]})
        elif kind == "write":
            r = arr_res[ci]
            w, lay = r["writes"][wi], r["layout"][wi]
            f = flat(t)
            # f = [tag, pad, pad_model, htag, hdr(list), ratag, rapos, rmtag, rmoff, ord]
            tag, pad, padm, htag, hdr, ratag, rapos, rmtag, rmoff, oc = f
            head = list(bytes.fromhex(lay["head"]))
            impl_hdr = head[: 1 + lay["pad_byte"]]
            ok = (tag == 0 and pad == lay["pad_byte"] and padm == pad and htag == 0 and hdr == impl_hdr
                  and ratag == 0 and rapos == lay["data_start"] and rmtag == 0 and rmoff == lay["data_start"]
                  and oc == (1 if w["order"] == "F" else 0))
            # where the readers really went
            for rd in r.get("reads", []):
                if rd["pos"] != w["pos"]:
                    continue
                if rd["kind"] == "read_array" and rd["reads"] and rd["reads"][0][0] != rapos:
                    ok = False
                if rd["kind"] == "read_mmap" and (rd.get("offset") != rmoff or rd.get("end") != rmoff + w["nbytes"]):
                    ok = False
            if not ok:
                dis.append({"function": "write_array / read_array / read_mmap layout", "case": arr_cases[ci],
                            "model": f, "impl": {"layout": lay, "order": w["order"],
                                                 "reads": [x for x in r.get("reads", []) if x["pos"] == w["pos"]]}})
        elif kind == "chunks":
            r = arr_res[ci]
            rd = r["reads"][wi]
            tag, lst = t
            sizes = [x[2] for x in lst]
            impl_sizes = [x[1] for x in rd["reads"]]
            impl_pos = [x[0] for x in rd["reads"]]
            want_pos = []
            if impl_pos:
                p = impl_pos[0]
                for s in sizes:
                    want_pos.append(p)
                    p += s
            if tag != 0 or sizes != impl_sizes or (not r.get("compressed") and want_pos != impl_pos):
                dis.append({"function": "read_array chunk loop", "case": arr_cases[ci],
                            "model": [tag, sizes[:6]], "impl": rd["reads"][:6]})
        elif kind == "type":
            r = arr_res[ci]
            g = r["geom"]
            tcode, intercepts, pcode = t
            names = {0: "ndarray", 1: "matrix", 2: "memmap", 3: "MyArr"}
            want = names[tcode] if intercepts else g["type"]       # not intercepted: numpy's own pickling keeps the type
            heads = r.get("object_payload_heads", [])
            n_arr_writes = len([w for w in r.get("writes", [])])
            ok = r["loaded_type"] == want
            if intercepts and g["hasobject"]:
                ok = ok and pcode == 1
                if not r.get("compressed"):      # the file bytes at the recorded positions: a protocol-2 pickle, no padding
                    ok = ok and all(h == "8002" for h in heads) and len(heads) == n_arr_writes
            if intercepts and not g["hasobject"]:
                ok = ok and pcode == 0 and not heads
            if not intercepts:
                ok = ok and n_arr_writes == 0
            if not ok:
                dis.append({"function": "NumpyPickler.save / NumpyArrayWrapper.read type and payload routes", "case": arr_cases[ci],
                            "model": {"loaded_type": want, "intercepted": intercepts, "pickled_payload": pcode == 1},
                            "impl": {"loaded_type": r["loaded_type"], "object_payload_heads": heads, "writes": n_arr_writes}})
        else:
            r = red_res[ci]
            a = r["args"]
            f = flat(t)
            # f = [tag, off, ord, strides(list), total] * 2 + [c, f]
            tr_, hand, flags = f[0:5], f[5:10], f[10:12]
            impl = [0, a["offset"], 1 if a["order"] == "F" else 0, [-7] if a["strides"] is None else a["strides"],
                    -7 if a["total"] is None else a["total"]]
            if tr_ != impl or hand != impl:
                dis.append({"function": "_reduce_memmap_backed", "case": red_cases[ci],
                            "model": {"translated": tr_, "hand": hand}, "impl": a})
            if flags != [r["view"]["c"], r["view"]["f"]]:
                dis.append({"function": "numpy contiguity flags (np_c_contig / np_f_contig)", "case": red_cases[ci],
                            "model": flags, "impl": [r["view"]["c"], r["view"]["f"]]})
    return dis, len(vals)


def known_cases():
    return [
        (K_ITEMSIZE0, {"mode": "array", "seed": 1, "dtype": "V0", "shape": [3], "layout": "C", "target": "path", "form": 0}),
        (K_ITEMSIZE0, {"mode": "array", "seed": 2, "dtype": [], "shape": [2, 2], "layout": "C", "target": "bytesio", "form": 3}),
        (K_NEG, {"mode": "reduce", "dtype": "<i8", "shape": [10], "ops": [["slice", [[None, None, -1]]]]}),
        (K_NEG, {"mode": "reduce", "dtype": "<i8", "shape": [2, 5], "ops": [["slice", [[None, None, -1], [1, 3, None]]]]}),
        (K_FLOOR, {"mode": "reduce", "dtype": [["f0", "i1"], ["f1", "<i8"]], "shape": [10], "ops": [["field", "f1"]]}),
        (K_MATRIX, {"mode": "array", "seed": 3, "dtype": "<i8", "shape": [2, 3], "layout": "matrix", "target": "bytesio", "form": 0,
                    "nested": False}),
    ]


def search_failing(ctx, k, n=300):
    rng = ctx.rng
    cases = gen_big(rng) + gen_arrays(rng, n) + gen_mmap(rng, n // 3)
    for c, r in zip(cases, run_parallel(cases)):
        bad = judge_array(c, r, k["alignment"])
        if bad and bad[1] is None:
            return bad[0], c
    red = gen_reduce(rng, n)
    for c, r in zip(red, run_parallel(red)):
        bad = judge_reduce(c, r, rng)
        if bad and bad[1] is None:
            return bad[0], c
    routes = gen_routes(rng, n)
    for c, r in zip(routes, run_parallel(routes)):
        bad = judge_route(c, r)
        if bad:
            return bad, c
    for c in gen_loky_modes(rng, True)[:2]:
        r = run_impl_cases([c], timeout=400)[0]
        bad = judge_loky_mode(c, r)
        if bad:
            return bad, c
    return None


def run(ctx):
    quick = ctx.tier == "quick"
    trusted = [
        "Coq 8.16.1 kernel (coqc); vm_compute in the refuted witnesses, the examples and the cases evaluation",
        "harness/translate.py (fail-closed Python-ast -> Gallina) driven by harness/gen_c19.py: the statements are "
        "selected by AST pattern (alignment guard of write_array / read_array / read_mmap, chunk loop of read_array); "
        "file_handle.tell() is the parameter pos, int.from_bytes(read(1)) the parameter padding_length, int(x) the "
        "identity on ints, 1024 ** 2 = 1048576",
        "Model/ArrayLayout.v: hand model of the bytes written/read around the translated arithmetic, of numpy's "
        "byte_bounds and of _reduce_memmap_backed / _strided_from_memmap (tied by the correspondence below)",
        "numpy itself (dtype (de)serialisation, nditer order, reshape/transpose, np.memmap, as_strided): differential only",
        "the implementation side runs under %s with PYTHONPATH=<repo>" % common.PYNP,
    ]
    _, changed, k = gen_c03.generate()
    translator_ok = True
    try:
        _, ch2 = gen_c19.generate()
        if ch2:
            ctx.note("Gen/C19_Padding.v changed: the padding/chunk arithmetic in numpy_pickle.py differs from the last run")
    except translate.TranslateError as e:
        translator_ok = False
        ctx.note("translator rejected the source (%s); Gen/C19_Padding.v left as it was, the hand model pad_model and the "
                 "behavioural tie decide" % e)
    proofs_ok = ctx.standard_proof_stage("C19", search=lambda: search_failing(ctx, k))
    A = k["alignment"]
    rng = ctx.rng
    arr = gen_arrays(rng, 260 if quick else 3000) + gen_big(rng) + gen_mmap(rng, 90 if quick else 900)
    corpus_path = os.path.join(common.ROOT, "corpus", "c19.jsonl")
    if os.path.exists(corpus_path):
        arr = [json.loads(l) for l in open(corpus_path) if l.strip()] + arr
    red = gen_reduce(rng, 160 if quick else 2000)
    lok = gen_loky(rng, quick)
    loops = gen_loky_loops(rng, quick)
    modes = gen_loky_modes(rng, quick)
    seqs = gen_loky_seqs(rng, quick)
    routes = gen_routes(rng, 60 if quick else 600)
    mat = [{"mode": "loadmatrix", "payload": pk, "form": f} for pk in ("array", "object")
           for f in (0, 3, "gzip", "bz2", "lzma", "xz")]
    arr_res = run_parallel(arr)
    red_res = run_parallel(red)
    route_res = run_parallel(routes)
    mat_res = run_parallel(mat, workers=6)
    with cf.ThreadPoolExecutor(4) as ex:
        both = list(ex.map(lambda c: run_impl_cases([c], timeout=400)[0], lok + loops + modes + seqs))
    lok_res, loop_res = both[:len(lok)], both[len(lok):len(lok) + len(loops)]
    mode_res = both[len(lok) + len(loops):len(lok) + len(loops) + len(modes)]
    seq_res = both[len(lok) + len(loops) + len(modes):]
    oracle_fail, known_hits = [], {}
    dist = {"dtype_kinds": {}, "layouts": {}, "forms": {}, "targets": {}, "mmap_modes": {}, "ranks": {}}
    nontrivial = set()
    for c, r in zip(arr, arr_res):
        bad = judge_array(c, r, A)
        if bad:
            oracle_fail.append((bad[0], c, r, bad[1]))
        g = r.get("geom", {})
        dist["layouts"][c["layout"]] = dist["layouts"].get(c["layout"], 0) + 1
        dist["forms"][str(c.get("form"))] = dist["forms"].get(str(c.get("form")), 0) + 1
        dist["targets"][c["target"]] = dist["targets"].get(c["target"], 0) + 1
        dist["ranks"][str(len(c["shape"]))] = dist["ranks"].get(str(len(c["shape"])), 0) + 1
        dk = g.get("dtype", "?")[:2] if isinstance(c["dtype"], str) else "struct"
        dist["dtype_kinds"][dk] = dist["dtype_kinds"].get(dk, 0) + 1
        if c.get("mmap_mode"):
            dist["mmap_modes"][c["mmap_mode"]] = dist["mmap_modes"].get(c["mmap_mode"], 0) + 1
        if g.get("nbytes", 0) > 0 and not g.get("hasobject"):
            nontrivial.add(json.dumps(c, sort_keys=True))
    n_neg = n_nonmult = 0
    for c, r in zip(red, red_res):
        bad = judge_reduce(c, r, rng)
        if bad:
            oracle_fail.append((bad[0], c, r, bad[1]))
        if r.get("has_backing"):
            v = r["view"]
            n_neg += any(s < 0 and d > 1 for s, d in zip(v["strides"], v["shape"]))
            n_nonmult += any(s % v["itemsize"] for s, d in zip(v["strides"], v["shape"]) if d > 1)
            if not (v["c"] and v["f"]):
                nontrivial.add(json.dumps(c, sort_keys=True))
    for c, r in zip(lok, lok_res):
        bad = judge_loky(c, r)
        if bad:
            r2 = run_impl_cases([c])[0]
            bad2 = judge_loky(c, r2)
            if bad2:
                oracle_fail.append((bad2, c, r2, None))
            else:
                ctx.note("inconclusive real-backend run (failed once, passed when repeated): " + bad[:200])
    inconclusive = []
    for c, r in zip(seqs, seq_res):
        bad = judge_loky_seq(c, r)
        if bad:
            r2 = run_impl_cases([c], timeout=400)[0]
            bad2 = judge_loky_seq(c, r2)
            if bad2:
                oracle_fail.append((bad2, c, {"first_attempt": bad}, None))
            else:
                inconclusive.append({"case": c, "first_attempt": bad})
                ctx.note("inconclusive real-backend run (failed once, passed when repeated): " + bad[:200])
    for c, r in zip(modes, mode_res):
        bad = judge_loky_mode(c, r)
        if bad:
            r2 = run_impl_cases([c], timeout=400)[0]
            bad2 = judge_loky_mode(c, r2)
            if bad2:
                oracle_fail.append((bad2, c, {kk: vv for kk, vv in r2.items() if kk != "rounds"}, None))
            else:
                inconclusive.append({"case": c, "first_attempt": bad})
                ctx.note("inconclusive real-backend run (failed once, passed when repeated): " + bad[:200])
    addr_reuse = 0
    for c, r in zip(loops, loop_res):
        bad = judge_loky_loop(c, r)
        if bad:
            # a sampled real-backend run: retried once in a fresh interpreter; a failure that does not repeat is
            # reported as inconclusive coverage, not as a violation (BUILDER_GUIDE: never decide on wall-clock luck)
            if reuse_signature(c, r):
                known_hits[K_REUSE] = known_hits.get(K_REUSE, 0) + 1      # known finding F54, shown by its witness below
                continue
            r2 = run_impl_cases([c])[0]
            bad2 = judge_loky_loop(c, r2)
            if bad2 and reuse_signature(c, r2):
                known_hits[K_REUSE] = known_hits.get(K_REUSE, 0) + 1
            elif bad2:
                oracle_fail.append((bad2, c, {"rows": r2.get("rows", [])[:3], "first_attempt": bad}, None))
            else:
                inconclusive.append({"case": c, "first_attempt": bad})
                ctx.note("inconclusive real-backend run (failed once, passed when repeated): " + bad[:200])
        addr_reuse += r.get("addresses_reused", 0)
    route_dist = {}
    for c, r in zip(routes, route_res):
        bad = judge_route(c, r)
        if bad:
            oracle_fail.append((bad, c, r, None))
        route_dist[r.get("forward")] = route_dist.get(r.get("forward"), 0) + 1
    # model
    disagreements, n_model = [], 0
    if os.path.exists(os.path.join(common.COQ, "Model", "ArrayLayout.vo")):
        disagreements, n_model = model_compare(ctx, arr, arr_res, red, red_res, k)
        d2, n2 = model_routes(ctx, routes, route_res)
        disagreements.extend(d2)
        n_model += n2
        for pk in ("array", "object"):
            sub = [(c, r) for c, r in zip(mat, mat_res) if c["payload"] == pk]
            lf, ld, ln = c03mod.load_matrix_check(ctx, [c for c, _ in sub], [r for _, r in sub], k, pk)
            for what, c, x in lf:
                oracle_fail.append((what, c, x, None))
            disagreements.extend(ld)
            n_model += ln
    # known findings: replay the witnesses of the _refuted theorems
    kc = known_cases()
    kres = run_impl_cases([c for _, c in kc])
    for (key, c), r in zip(kc, kres):
        bad = judge_array(c, r, A) if c["mode"] == "array" else judge_reduce(c, r, rng)
        if bad and bad[1] == key:
            ctx.violation(bad[0], {"kind": "known-finding", "case": c}, True, finding_key=key)
            known_hits[key] = known_hits.get(key, 0) + 1
        elif bad:
            oracle_fail.append((bad[0], c, r, bad[1]))
        else:
            ctx.violation("the witness of a C19 _refuted theorem (%s) no longer fails on the implementation: the model is stale"
                          % key, {"kind": "stale-refutation", "case": c, "key": key}, found_input=False)
    # F54: deterministic witness (the resource tracker is stopped so that the previous call's unlink is pending)
    wr = run_impl_cases([{"mode": "reuse_race"}], timeout=400)[0]
    wbad, wknown = judge_reuse_witness(wr)
    if wbad and wknown:
        ctx.violation(wbad, {"kind": "known-finding", "case": {"mode": "reuse_race"}}, True, finding_key=K_REUSE)
        known_hits[K_REUSE] = known_hits.get(K_REUSE, 0) + 1
    elif wbad:
        ctx.violation(wbad, {"kind": "oracle", "case": {"mode": "reuse_race"}, "impl": wr}, True)
    else:
        ctx.violation("the witness of known finding F54 (%s) no longer fails on the implementation: the entry is stale" % K_REUSE,
                      {"kind": "stale-refutation", "case": {"mode": "reuse_race"}, "key": K_REUSE, "impl": wr}, found_input=False)
    # decide
    reported = 0
    known_ids = {f["key"] for f in ctx.known if f["property"] == "C19" and f["kind"] == "known"}
    for bad, c, r, key in oracle_fail:
        if key is not None and key in known_ids:
            # a generated case that falls into a known finding: counted, the line is printed for the witnesses only
            known_hits[key] = known_hits.get(key, 0) + 1
            continue
        if key is not None:
            ctx.violation(bad, {"kind": "oracle", "case": c}, True, finding_key=key)
            continue
        if reported < 3:
            r2 = dict(r)
            r2.pop("expected", None)
            ctx.violation(bad, {"kind": "oracle", "case": c, "impl": r2}, True)
            reported += 1
    real_fail = [x for x in oracle_fail if x[3] is None or x[3] not in known_ids]
    if disagreements and not real_fail:
        hit = search_failing(ctx, k, 300 if quick else 2000)
        if hit:
            ctx.violation(hit[0], {"kind": "model-disagreement+failing-input", "case": hit[1],
                                   "first_disagreement": disagreements[0]}, True)
        else:
            ctx.violation("model and implementation disagree (%d cases): %s" % (len(disagreements), disagreements[0]["function"]),
                          {"kind": "correspondence", "first_disagreement": disagreements[0],
                           "correspondence": "Gen/C19_Padding.v + Model/ArrayLayout.v vs NumpyArrayWrapper / _reduce_memmap_backed"},
                          found_input=False)
    ctx.finish({
        "evaluations": len(arr) + len(red) + len(lok) + len(kc) + len(routes) + 75 * len(mat) + sum(c["iterations"] for c in loops) + len(modes) + sum(len(c["steps"]) for c in seqs),
        "load_dispatch_combinations": 75 * len(mat),
        "reducer_routes": route_dist,
        "inconclusive_real_backend_runs": inconclusive,
        "call_sequences": [[(st["mmap_mode"], st["max_nbytes"]) for st in c["steps"]] for c in seqs],
        "mmap_mode_runs": [[c["backend"], c["mode_given"], c["mmap_mode"], c["managed"]] for c in modes],
        "managed_parallel_loops": {"cases": len(loops), "calls": sum(c["iterations"] for c in loops),
                                   "fresh_arrays_allocated_at_a_dead_arrays_address": addr_reuse},
        "distinct_nontrivial": len(nontrivial),
        "rule": "arrays: dtype (%d kinds incl. structured/nested/aligned/object/datetime/both endiannesses) x shape (0-d, "
                "empty, 1..4-d) x layout (C, F, transposed, strided, negative stride, broadcast, matrix, ndarray subclass, "
                "memmap C/F, memmap view) x compress form x protocol x target x filler length (moves the file position over "
                "all residues mod 16); big arrays around BUFFER_SIZE; mmap_mode r/r+/c/w+; memmap views: random chains of "
                "slices (positive, negative steps), transposes, field selection, newaxis on C/F memmaps at several file "
                "offsets; loky workers with max_nbytes around the array sizes. non-trivial = array with data bytes / "
                "non-trivially-contiguous view" % len(DTYPES),
        "samples": [arr[0], red[0], lok[0]],
        "traces_validated_against_impl": n_model,
        "model_evaluations": n_model,
        "distribution": dist,
        "reduce_views": {"cases": len(red), "negative_stride": n_neg, "stride_not_multiple_of_itemsize": n_nonmult},
        "known_finding_hits": known_hits,
        "disagreements": len(disagreements),
        "translator_ok": translator_ok,
        "trusted_base": trusted,
        "exhaustive": False,
    }, assumptions=[
        "numpy: nditer(order='F'/'C') visits elements in Fortran/C index order; reshape addresses a flat buffer in C order; "
        "transpose reverses the index vector",
        "numpy.lib.array_utils.byte_bounds as modelled (contiguous formula for C-contiguous arrays)",
        "np.memmap(offset, shape, order) maps element idx at offset + itemsize * linear_index(order)",
        "_read_bytes returns exactly the requested number of bytes (C14)",
        "item size >= 1 for C19_chunks (item size 0 is finding F19)",
        "views of memmaps have non-negative strides for C19_memmap_view (negative strides: finding F20), strides "
        "multiples of the item size for the containment half (finding F21)",
    ])


def replay(ctx, path):
    obj = json.load(open(path))
    rep = obj.get("replay", obj)
    c = rep.get("case") or rep.get("input")
    if not c or "mode" not in c:
        print("replay file names a broken proof/correspondence, nothing to execute:", rep.get("kind"))
        return 1
    k = gen_c03.live_constants()
    r = run_impl_cases([c])[0]
    if c["mode"] == "array":
        bad = judge_array(c, r, k["alignment"])
    elif c["mode"] == "reduce":
        bad = judge_reduce(c, r, ctx.rng)
    elif c["mode"] == "route":
        b = judge_route(c, r)
        bad = (b, None) if b else None
    elif c["mode"] == "reuse_race":
        b, _ = judge_reuse_witness(r)
        bad = (b, None) if b else None
    elif c["mode"] == "loky_seq":
        b = judge_loky_seq(c, r)
        bad = (b, None) if b else None
        r = {"steps": len(r.get("steps", []))}
    elif c["mode"] == "loky_mode":
        b = judge_loky_mode(c, r)
        bad = (b, None) if b else None
        r = {kk: vv for kk, vv in r.items() if kk != "rounds"}
    elif c["mode"] == "loky_loop":
        b = judge_loky_loop(c, r)
        bad = (b, None) if b else None
        r = {"calls": len(r.get("rows", [])), "addresses_reused": r.get("addresses_reused")}
    elif c["mode"] == "loadmatrix":
        fails, _, _ = c03mod.load_matrix_check(ctx, [c], [r], k, c["payload"])
        only = c.get("only")
        fails = [f for f in fails if not only or all(f[2].get(kk) == vv for kk, vv in only.items())]
        bad = (fails[0][0], None) if fails else None
        r = {"n": len(r["res"])}
    else:
        b = judge_loky(c, r)
        bad = (b, None) if b else None
    r.pop("expected", None)
    print("replay:", json.dumps(c), "->", json.dumps(r)[:500], "=>", (bad[0] if bad else "property holds"))
    return 1 if bad else 0
