"""Correspondence and oracles for Model/ParallelSeq.v: the sequential path of joblib.Parallel (n_jobs resolves to 1:
n_jobs=1, the sequential backend, one-worker fall-backs).  Used by C01, C04, C09, C16.

The path is single-threaded, so a run is its event list: harness/impl/m1q_driver.py executes generated event lists on
the real Parallel object, the same lists are evaluated on the Coq model, observations and counters are compared
after every event; independent oracles judge the implementation alone.
"""
import json
import os
import subprocess
import sys

sys.path.insert(0, os.path.dirname(os.path.dirname(os.path.abspath(__file__))))
import common  # noqa: E402

REQ = """From Coq Require Import List Bool Arith.
Require Import JV.Model.ParallelCore JV.Model.ParallelSeq.
Import ListNotations."""


def gen_cases(rng, n):
    cases = []
    for i in range(n):
        bs = rng.choice(["auto", 1, 2, 3, 5])
        gen = rng.random() < 0.6
        events = []
        for k in range(rng.choice([1, 2, 2, 3])):
            N = rng.choice([0, 1, 2, 3, 4, 5, 7, 10])
            ifail = tfail = None
            r = rng.random()
            if r < 0.25 and N:
                tfail = rng.randrange(N)
            elif r < 0.4:
                ifail = rng.randint(0, N)
            elif r < 0.45 and N:
                tfail, ifail = rng.randrange(N), rng.randint(0, N)
            events.append(["call", N, ifail, tfail, rng.random() < 0.5])
            if gen:
                for _ in range(rng.choice([0, 1, 2, N, N + 1, N + 2])):
                    events.append(["next"])
                    if rng.random() < 0.04:
                        events.append(["call", 2, None, None, False])      # a call while the generator may be alive
                r = rng.random()
                if r < 0.25:
                    events.append(["close"])
                elif r < 0.4:
                    events.append(["drop"])
                elif r < 0.5:
                    events += [["close"], ["next"]]
        cases.append({"id": "q%d" % i, "bs": bs, "gen": gen, "events": events, "verbose": rng.choice([0, 0, 1, 60]),
                      "relist": rng.random() < 0.4,
                      "how": rng.choice(["n_jobs1", "n_jobs1", "sequential", "threading1", "negative"])})
    # fixed shapes: sized empty input with progress messages; failure in the first task; input failing at its end
    for gen in (False, True):
        for bs in ("auto", 3):
            for verbose in (0, 60):
                tail = [["next"]] * 3 if gen else []
                cases.append({"id": "qf", "bs": bs, "gen": gen, "verbose": verbose, "how": "n_jobs1",
                              "events": [["call", 0, None, None, True]] + tail + [["call", 4, None, 0, True]] + tail +
                                        [["call", 4, 4, None, False]] + [["next"]] * (6 if gen else 0) + [["call", 3, None, None, True]] +
                                        [["next"]] * (4 if gen else 0)})
    return cases


def run_driver(cases, timeout=900):
    env = common.impl_env()
    p = subprocess.run([common.PY, os.path.join(common.ROOT, "harness", "impl", "m1q_driver.py")],
                       input="\n".join(json.dumps(c) for c in cases) + "\n", stdout=subprocess.PIPE,
                       stderr=subprocess.PIPE, text=True, env=env, timeout=timeout)
    got = [json.loads(l) for l in p.stdout.splitlines() if l.startswith("{")]
    while len(got) < len(cases):
        got.append({"harness_error": "no result: " + p.stderr[-800:]})
    return got


def coq_events(r):
    bs = 1 if r["bs"] == "auto" else r["bs"]
    out = []
    for e in r["events"]:
        if e[0] == "call":
            _, N, ifail, tfail, _ = e
            out.append("QCall {| qN := %d; qifail := %s; qtfail := %s; qbs := %d; qgen := %s |}" % (
                N, "None" if ifail is None else "(Some %d)" % ifail, "None" if tfail is None else "(Some %d)" % tfail,
                bs, "true" if r["gen"] else "false"))
        elif e[0] == "next":
            out.append("QNext")
        else:
            out.append("QClose")
    return "[" + "; ".join(out) + "]"


def obs_code(o):
    if o[0] == "returned":
        return [0] + list(o[1])
    if o[0] == "val":
        return [1, o[1]]
    if o[0] == "stop":
        return [2]
    if o[0] == "gen":
        return [4]
    if o[0] == "raised":
        return [3, {"task": 0, "iter": 1, "runtime": 3}.get(o[1], 9), o[2] if isinstance(o[2], int) else 0]
    return [99]


def model_runs(ctx, runs):
    import m1_common as m1
    exprs = ["qrun_show qinit %s" % coq_events(r) for r in runs]
    vals = ctx.coq_eval_lines(REQ, "", exprs, name="m1q", shard=60)
    return [m1.parse_nested(v) for v in vals]


def compare(r, model):
    if len(model) != len(r["events"]):
        return {"kind": "length", "detail": "model %d events, real %d" % (len(model), len(r["events"]))}
    for k, (ev, ro, rs, m) in enumerate(zip(r["events"], r["obs"], r["snaps"], model)):
        robs = [obs_code(o) for o in ro]
        if robs != m[0]:
            return {"kind": "obs", "index": k, "event": ev, "real": ro, "model": m[0]}
        if rs != m[1]:
            return {"kind": "snap", "index": k, "event": ev, "real": rs, "model": m[1],
                    "fields": "pulls n_dispatched n_completed nb_consumed iterating aborting exception running"}
    return None


def oracle(r):
    """property oracles on the implementation alone: [(tag, what)]"""
    bad = []
    bs = 1 if r["bs"] == "auto" else r["bs"]
    cur = None
    vals = []
    alive = False
    for ev, ob, sn in zip(r["events"], r["obs"], r["snaps"]):
        o = ob[0]
        if o[0] == "raised" and o[1] not in ("task", "iter", "runtime"):
            bad.append(("ALL", "n_jobs=1: %s died with an internal error: %s %s" % (ev, o[1], o[2])))
            continue
        if ev[0] == "call":
            if o[0] == "raised" and o[1] == "runtime":
                if not alive:
                    bad.append(("C04", "n_jobs=1: a call on an idle Parallel object was refused ('already running')"))
                continue
            cur, vals = ev, []
            _, N, ifail, tfail, _ = ev
            alive = o[0] == "gen"
            if o[0] == "returned":
                if tfail is not None or (ifail is not None and ifail <= N):
                    bad.append(("C04", "n_jobs=1: task %s / input step %s fails but the call returned %s" % (tfail, ifail, o[1])))
                elif o[1] != list(range(N)):
                    bad.append(("C01", "n_jobs=1: the call returned %s instead of 0..%d" % (o[1], N - 1)))
                if sn[0] != N and tfail is None and ifail is None:
                    bad.append(("C01", "n_jobs=1: %d of %d input items consumed by a call that returned" % (sn[0], N)))
            elif o[0] == "raised":
                if (o[1] == "task" and o[2] != tfail) or (o[1] == "iter" and ifail is None):
                    bad.append(("C04", "n_jobs=1: the call raised %s, injected: task %s, input step %s" % (o, tfail, ifail)))
            if o[0] != "gen" and sn[7]:
                bad.append(("C04", "n_jobs=1: the object is still marked running after the call ended (%s)" % (o[:2],)))
        elif ev[0] == "next":
            _, N, ifail, tfail, _ = cur
            if o[0] == "val":
                if o[1] != len(vals):
                    tag = "C16"
                    bad.append((tag, "n_jobs=1: the generator yielded %s after %s" % (o[1], vals)))
                vals.append(o[1])
                if sn[0] > len(vals) + bs - 1:
                    bad.append(("C09", "n_jobs=1, batch_size=%s: %d input items consumed when only %d results had been asked for" % (
                        r["bs"], sn[0], len(vals))))
            elif o[0] == "raised":
                alive = False
                if (o[1] == "task" and o[2] != tfail) or (o[1] == "iter" and ifail is None) or o[1] == "runtime":
                    bad.append(("C04", "n_jobs=1: the generator raised %s, injected: task %s, input step %s" % (o, tfail, ifail)))
            elif o[0] == "stop":
                if alive and tfail is None and ifail is None and len(vals) != N:
                    bad.append(("C16", "n_jobs=1: the generator ended after %d of %d results" % (len(vals), N)))
                alive = False
            if not alive and sn[7]:
                bad.append(("C16", "n_jobs=1: the object is still marked running after its generator finished"))
        else:
            before = sn[0]
            alive = False
            if sn[7]:
                bad.append(("C16", "n_jobs=1: the object is still marked running after its generator was closed/dropped"))
    return bad


def check(ctx, prop, quick):
    cases = gen_cases(ctx.rng, 150 if quick else 1500)
    runs = run_driver(cases)
    ok = [r for r in runs if "harness_error" not in r]
    models = model_runs(ctx, ok)
    it = iter(models)
    mism, orc = [], []
    for c, r in zip(cases, runs):
        if "harness_error" in r:
            mism.append((c, r, {"kind": "harness_error", "detail": r.get("tb", r["harness_error"])[-1200:]}))
            continue
        d = compare(r, next(it))
        if d:
            mism.append((c, r, d))
        for o in oracle(r):
            orc.append((c, r, o))
    mine = [x for x in orc if x[2][0] in (prop, "ALL")]
    others = [x for x in orc if x[2][0] not in (prop, "ALL")]
    seen = set()
    for c, r, o in mine:
        if o[1] in seen or len(seen) >= 3:
            continue
        seen.add(o[1])
        ctx.violation(o[1], {"kind": "oracle-seq", "case": dict(c, seq=True)}, True)
    if mism and not seen:
        c, r, d = mism[0]
        what = "model M1q (sequential path) and joblib.Parallel disagree (%d of %d runs), first: %s" % (
            len(mism), len(runs), json.dumps(d)[:300])
        if others:
            what += " ; the runs violate %s: %s" % (others[0][2][0], others[0][2][1])
        ctx.violation(what, {"kind": "correspondence", "correspondence": "Model/ParallelSeq.v qstep vs m1q_driver events",
                             "first_disagreement": d, "case": dict(c, seq=True)}, found_input=False)
    kinds = {}
    for r in ok:
        for e, o in zip(r["events"], r["obs"]):
            k = e[0] + ":" + "/".join(str(x) for x in o[0][:2] if not isinstance(x, list))
            kinds[k] = kinds.get(k, 0) + 1
    return {"seq_path_runs": len(runs), "seq_path_events_compared": sum(len(r["events"]) for r in ok),
            "seq_path_event_outcomes": kinds, "seq_path_disagreements": len(mism)}


def replay(case, prop):
    r = run_driver([case])[0]
    bad = [o for o in oracle(r) if o[0] in (prop, "ALL")] if "harness_error" not in r else [("ALL", r["harness_error"])]
    for e, o in zip(r.get("events", []), r.get("obs", [])):
        print(" ", e, o)
    print("replay =>", bad or "property holds on this run")
    return 1 if bad else 0
