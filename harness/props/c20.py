"""C20 -- tracked temporary resources are deleted exactly when their last user is gone.

1. build Props/C20.vo (theorems over ALL line sequences about Model/ResTracker.v) + Print Assumptions;
2. correspondence: the REAL resource_tracker.main(fd) of the repo under test runs in a subprocess on a
   pipe (harness/impl/c20_impl.py + c20_tracker_child.py: clean-up functions wrapped from outside with
   logging + the real deletion in a temp dir); generated command sequences over 4 files + 2 folders
   + a semaphore name, with malformed / unbalanced lines; after every line a synchronisation group
   cuts the clean-up log, stderr and a file-system snapshot per step.  Per-step deletions, logged
   errors and the ordered EOF clean-up calls are compared with the Coq model (vm_compute);
3. independent oracle: a plain Python reference-count dictionary + a set of existing paths, stating
   the property (never consults the model); it decides what is a violation;
4. client-side sample: 1-3 real client processes on one real tracker through the public
   register / maybe_unlink / unregister API, normal exits and SIGKILL (sampled, reported as such);
4a. signals (Model/TrackerStartup.v): SIGINT/SIGTERM to the tracker's pid / group as events of the loop
   histories (before a line; pending when main() starts, the tracker being spawned with both blocked as
   ensure_running() does) and on the real spawn path (spawnv_passfds wrapped from outside);
4b. TemporaryResourcesManager (Model/TempManager.v): the real manager + real tracker + real directory
   driven event by event (register_new_context, file life-cycle, _clean_temporary_resources with
   instrumented register/unregister/maybe_unlink/delete_folder, tracker optionally frozen), then the
   client is killed or exits; ORDER of the actions and the disk after every event are compared with
   the model, the end-state oracle is "nothing of ours left after the tracker exited";
5. life-cycle sample of the per-call temporary folder through real Parallel calls with numpy
   (python3-vt): normal exit, SIGKILL of parent and workers (sampled);
6. known finding: EOF clean-up aborted under -W error (C20_eof_refuted_werror) replayed, on the loop
   and end to end.
"""
import ast
import concurrent.futures as cf
import json
import os
import sys

sys.path.insert(0, os.path.dirname(os.path.dirname(os.path.abspath(__file__))))
import common  # noqa: E402

FILES = ["f1", "f2", "d1/f3", "a:b"]
FOLDERS = ["d1", "d2"]
EXTRA = ["d2/u"]
UNIVERSE = FILES + FOLDERS + EXTRA
SEM = "/jvc20s"
TYPES = ["folder", "file", "semlock"]
WS = b" \t\n\r\x0b\x0c"
KEY_WERROR = "eof-cleanup-aborted:-W-error+raising-cleanup-function"
ERRNAMES = {0: None, 1: "UnicodeDecodeError", 2: "ValueError", 3: "RuntimeError", 4: "KeyError", 5: "UserWarning"}


# ------------------------------------------------------------------ independent oracle
def oracle_parse(raw):
    """The request format as documented (CMD:NAME:RTYPE, NAME may contain ':'), restated with
    find/rfind.  Returns (cmd, rtype, name) for a request that may change the registry, else None."""
    s = raw.strip(WS)
    if any(b >= 128 for b in s):
        return None
    s = s.decode("ascii")
    i, j = s.find(":"), s.rfind(":")
    if i < 0:
        cmd, name, rtype = s, "", s
    else:
        cmd, rtype = s[:i], s[j + 1:]
        name = s[i + 1:j] if j > i else ""
    if cmd == "PROBE" or rtype not in TYPES or cmd not in ("REGISTER", "UNREGISTER", "MAYBE_UNLINK"):
        return None
    return cmd, rtype, name


class FS:
    """which paths of the universe exist, as the property expects"""

    def __init__(self, universe, files, folders, initial=()):
        self.universe, self.files, self.folders = universe, files, folders
        self.s = set(initial)

    def create(self, res):
        self.s.add(res)
        if "/" in res:
            self.s.add(res.split("/")[0])
        if res == "d2" and "d2/u" in self.universe:
            self.s.add("d2/u")

    def cleanup(self, rtype, name):
        if rtype == "file" and name in self.s and name not in self.folders:
            self.s.discard(name)
        elif rtype == "folder" and name in self.s and name in self.folders:
            self.s = {p for p in self.s if p != name and not p.startswith(name + "/")}

    def vec(self):
        return [p in self.s for p in self.universe]


def werror_signature(case, res):
    e = res.get("eof") or {}
    calls = e.get("calls") or []
    return bool(case.get("werror") and e.get("exit") not in (0, None) and calls and calls[-1][2] not in ("ok", None)
                and any(x[0] == "UserWarning" for x in e.get("errs", [])))


def judge_loop(case, res):
    """Property oracle on one tracker run.  Returns (description | None, finding_key | None)."""
    if "harness_error" in res:
        return "harness error " + res["harness_error"], None
    cnt = {}
    fs = FS(UNIVERSE, FILES + EXTRA, FOLDERS)
    steps = case["steps"]
    carried = []
    for i, st in enumerate(steps):
        for r in st.get("pre", []):
            fs.create(r)
        q = oracle_parse(st["line"].encode("latin-1"))
        exp = []
        if q:
            cmd, rtype, name = q
            k = (rtype, name)
            if cmd == "REGISTER":
                cnt[k] = cnt.get(k, 0) + 1
            elif cmd == "UNREGISTER":
                cnt.pop(k, None)
            elif cnt.get(k, 0) > 0:
                cnt[k] -= 1
                if cnt[k] == 0:
                    del cnt[k]
                    exp = [k]
        for k in exp:
            fs.cleanup(*k)
        if not st.get("nl", True):
            carried = exp
            break
        if i >= len(res["steps"]):
            return "the tracker stopped serving requests before line %d (%r); flags=%s stderr=%s" % (
                i, st["line"], res.get("flags"), res["eof"].get("stderr_tail", "")[-300:]), None
        ob = res["steps"][i]
        got = [(c[0], c[1]) for c in ob["calls"]]
        if got != exp:
            extra = [g for g in got if g not in exp]
            if extra:
                k = extra[0]
                why = ("its reference count is %d" % cnt[k]) if cnt.get(k) else "it is not registered"
                return "line %d (%r): clean-up of %s %r although %s" % (i, st["line"], k[0], k[1], why), None
            return "line %d (%r): reference count of %s %r returned to zero but it was not cleaned up" % (
                i, st["line"], exp[0][0], exp[0][1]), None
        if not ob["alive"]:
            return "line %d (%r): the tracker process terminated (exit %s): %s" % (
                i, st["line"], res["eof"].get("exit"), res["eof"].get("stderr_tail", "")[-300:]), None
        if not ob["sentinel"]:
            return "line %d (%r): a fresh register/maybe_unlink pair sent afterwards was not honoured" % (i, st["line"]), None
        if not ob["synced"]:
            return "line %d (%r): the tracker stopped answering (flags %s)" % (i, st["line"], res.get("flags")), None
        if ob["exists"] != fs.vec():
            diff = [(p, a, b) for p, a, b in zip(UNIVERSE, ob["exists"], fs.vec()) if a != b]
            return "line %d (%r): on disk (path, exists, expected): %s" % (i, st["line"], diff), None
    # EOF
    e = res["eof"]
    if werror_signature(case, res):
        return ("with -W error the EOF clean-up stopped at the first raising clean-up call (%s %r): exit %s, "
                "still registered and not cleaned: %s" % (
                    e["calls"][-1][0], e["calls"][-1][1], e["exit"],
                    sorted(set(cnt) - {(c[0], c[1]) for c in e["calls"]}))), KEY_WERROR
    got = [(c[0], c[1]) for c in e["calls"]]
    if carried:
        if got[:1] != carried:
            return "final unterminated line: expected clean-up of %s, got %s" % (carried, got[:1]), None
        got = got[1:]
    if sorted(got) != sorted(cnt):
        return "at EOF cleaned %s, still registered were %s" % (sorted(got), sorted(cnt)), None
    seen_folder = False
    for k in got:
        if k[0] == "folder":
            seen_folder = True
        elif seen_folder:
            return "at EOF %s %r was cleaned after a folder: %s" % (k[0], k[1], got), None
    for k in got:
        fs.cleanup(*k)
    if e["exists"] != fs.vec():
        diff = [(p, a, b) for p, a, b in zip(UNIVERSE, e["exists"], fs.vec()) if a != b]
        return "after EOF on disk (path, exists, expected): %s" % diff, None
    if e["exit"] != 0:
        return "the tracker exited with status %s: %s" % (e["exit"], e.get("stderr_tail", "")[-300:]), None
    return None, None


# --------------------------------------------------------------------- generator
def gen_line(rng, shadow):
    """(raw line as latin-1 text, resource to pre-create or None, kind)"""
    u = rng.random()
    if u < 0.78:
        x = rng.random()
        if x < 0.62:
            name = rng.choice(FILES)
            rtype = "file"
        elif x < 0.87:
            name = rng.choice(FOLDERS)
            rtype = "folder"
        elif x < 0.95:
            name, rtype = SEM, "semlock"
        else:  # type that does not fit the path, or a path that never exists
            name = rng.choice(FILES + FOLDERS + ["zz", " f1", "f1 "])
            rtype = rng.choice(TYPES)
        # the shadow count only BIASES the choice (deep counts, returns to zero, few unbalanced requests)
        c = shadow.get((rtype, name), 0)
        if c == 0:
            cmd = rng.choice(["REGISTER"] * 16 + ["MAYBE_UNLINK"] * 3 + ["UNREGISTER"])
        else:
            cmd = rng.choice(["REGISTER"] * 7 + ["MAYBE_UNLINK"] * 11 + ["UNREGISTER"] * 2)
        if cmd == "REGISTER":
            shadow[(rtype, name)] = c + 1
        elif cmd == "UNREGISTER":
            shadow[(rtype, name)] = 0
        elif c:
            shadow[(rtype, name)] = c - 1
        line = "%s:%s:%s" % (cmd, name, rtype)
        deco = rng.random()
        if deco < 0.06:
            line = rng.choice([" ", "\t", "  ", "\x0b", "\x0c"]) + line
        elif deco < 0.12:
            line = line + rng.choice(["\r", " ", "\t \r", "\x0c"])
        pre = name if (cmd == "REGISTER" and name in UNIVERSE and rng.random() < 0.9) else None
        return line, pre, "valid"
    if u < 0.81:
        return rng.choice(["PROBE:0:noop", "PROBE", "PROBE:x:file", "PROBE:f1:weird"]), None, "probe"
    name = rng.choice(FILES + FOLDERS)
    t = rng.choice(["file", "folder"])
    bad = [
        "BOGUS:%s:%s" % (name, t), "register:%s:%s" % (name, t), "REGISTER :%s:%s" % (name, t),
        "MAYBE_UNLINK_:%s:%s" % (name, t), "UNLINK:%s:%s" % (name, t), ":%s:%s" % (name, t),
        "REGISTER:%s:weird" % name, "MAYBE_UNLINK:%s:File" % name, "REGISTER:%s:" % name,
        "MAYBE_UNLINK:%s: file x" % name, "UNREGISTER:%s:files" % name,
        "garbage", "", " ", "\t\r", ":", "::", ":::", "file", "REGISTER", "MAYBE_UNLINK", name,
        "REGISTER:file", "MAYBE_UNLINK:file", "UNREGISTER:folder", "REGISTER::file", "MAYBE_UNLINK::file",
        "REGISTER:%s" % name, "MAYBE_UNLINK:%s" % name, "%s:%s" % (name, t),
        "REGISTER:%s:%s:x" % (name, t), "MAYBE_UNLINK:%s:%s:" % (name, t),
        "REGISTER:\xe9%s:%s" % (name, t), "MAYBE_UNLINK:%s:%s\xff" % (name, t), "\x80", "REGISTER:%s\x00:%s" % (name, t),
        "MAYBE_UNLINK:x:%s:%s" % (name, t), "MAYBE_UNLINK:%s:x:%s" % (name, t),
    ]
    return rng.choice(bad), None, "malformed"


def gen_case(rng, werror=False):
    n = rng.choice([4, 8, 12, 16, 24, 32, 40])
    steps = []
    shadow = {}
    for _ in range(n):
        line, pre, kind = gen_line(rng, shadow)
        steps.append({"pre": [pre] if pre else [], "line": line, "nl": True, "kind": kind})
    if rng.random() < 0.15:
        line, pre, kind = gen_line(rng, shadow)
        if line.strip(" \t\r\x0b\x0c") and "\n" not in line:
            steps.append({"pre": [pre] if pre else [], "line": line, "nl": False, "kind": kind})
    case = {"steps": steps, "werror": werror}
    # signals to the tracker: while it runs (before a line) and pending at its start
    if rng.random() < 0.35:
        for st in steps:
            if st["nl"] and rng.random() < 0.12:
                st["sig"] = [rng.choice(["INT", "TERM"]), rng.choice(["pid", "group"])]
    if rng.random() < 0.12:
        # transient clean-up faults in the tracker: the first k os.unlink attempts on these files fail with
        # PermissionError (k < the 10 attempts of unlink_file, so the file must still be gone afterwards)
        case["faults"] = {n: rng.choice([1, 1, 2]) for n in rng.sample(FILES, rng.choice([1, 2]))}
    if rng.random() < 0.2:
        case["pending"] = [[n, rng.choice(["pid", "group"])] for n in rng.sample(["INT", "TERM"], rng.choice([1, 1, 2]))]
    return case


# ------------------------------------------------------------------------- model
REQ = """From Coq Require Import ZArith List Bool.
Require Import JV.Model.ResTracker.
Import ListNotations. Open Scope Z_scope."""
DEFS = """Definition show_t (t : rtype) : Z := match t with Folder => 0 | File => 1 | Semlock => 2 end.
Definition show_e (e : option err) : Z :=
  match e with None => 0 | Some EDecode => 1 | Some EUnknownType => 2 | Some EUnknownCmd => 3
             | Some EKey => 4 | Some EWarning => 5 end.
Definition show_d (d : deletion) : Z * list Z := (show_t (fst d), snd d).
Definition show (x : list (list deletion * option err) * (list deletion * bool)) :=
  (map (fun p => (map show_d (fst p), show_e (snd p))) (fst x), (map show_d (fst (snd x)), snd (snd x))).
Definition cf_of (l : list (Z * list Z)) (d : deletion) : bool :=
  existsb (fun p => (fst p =? show_t (fst d)) && beq (snd p) (snd d)) l."""
TCODE = {"folder": 0, "file": 1, "semlock": 2}


def stream_of(case):
    b = b""
    for st in case["steps"]:
        b += st["line"].encode("latin-1") + (b"\n" if st.get("nl", True) else b"")
    return b


def zbytes(b):
    return common.coq_list(str(x) for x in b)


def observed_failures(res):
    """(rtype,name) -> set of outcomes over the whole run"""
    m = {}
    for blk in res.get("steps", []) + [res.get("eof", {})]:
        for c in blk.get("calls", []):
            m.setdefault((c[0], c[1]), set()).add(c[2] != "ok")
    return m


def model_expr(case, res):
    if case.get("werror"):
        fails = observed_failures(res)
        if any(len(v) > 1 for v in fails.values()):
            return None  # the same clean-up call both failed and succeeded in this run: cf is not a function
        fl = common.coq_list("(%d, %s)" % (TCODE[k[0]], zbytes(k[1].encode("latin-1"))) for k, v in sorted(fails.items())
                             if True in v and k[0] in TCODE)
        return "show (main true (cf_of %s) %s)" % (fl, zbytes(stream_of(case)))
    return "show (main false (fun _ => false) %s)" % zbytes(stream_of(case))


def parse_model(s):
    s = s.replace("%Z", "").replace(";", ",").replace("false", "False").replace("true", "True")
    tr, (eof, aborted) = ast.literal_eval(s)

    def dl(l):
        return [(TYPES[t], bytes(n).decode("latin-1")) for t, n in l]
    return {"trace": [(dl(d), e) for d, e in tr], "eof": dl(eof), "aborted": aborted}


def compare(case, res, m):
    """model vs implementation on one case: description of the first difference or None"""
    if "harness_error" in res:
        return "harness error"
    steps = case["steps"]
    if len(m["trace"]) != len(steps):
        return "model processed %d lines, case has %d" % (len(m["trace"]), len(steps))
    carried = []
    for i, st in enumerate(steps):
        md, me = m["trace"][i]
        if not st.get("nl", True):
            carried = md
            break
        if i >= len(res["steps"]):
            return "implementation stopped at line %d" % i
        ob = res["steps"][i]
        got = [(c[0], c[1]) for c in ob["calls"]]
        if got != md:
            return "line %d %r: model deletes %s, implementation %s" % (i, st["line"], md, got)
        if bool(me) != bool(ob["errs"]):
            return "line %d %r: model logs %s, implementation %s" % (i, st["line"], ERRNAMES[me], ob["errs"])
    got = [(c[0], c[1]) for c in res["eof"]["calls"]]
    if got != carried + m["eof"]:
        return "EOF: model calls %s, implementation %s" % (carried + m["eof"], got)
    if m["aborted"] != (res["eof"]["exit"] != 0):
        return "EOF: model aborted=%s, implementation exit=%s" % (m["aborted"], res["eof"]["exit"])
    return None


def class_mismatches(case, res, m):
    n = 0
    for i, ob in enumerate(res.get("steps", [])):
        me = m["trace"][i][1] if i < len(m["trace"]) else 0
        if me and ob["errs"] and ob["errs"][0][0] != ERRNAMES[me]:
            n += 1
    return n


# ----------------------------------------------------------------- running the impl
def run_env(ctx):
    return common.impl_env({"VERIF_C20_RUN": ctx.tmp})


def kill_stragglers(tag):
    """SIGKILL every process started (directly or not) by this run that is still alive: they all carry
    VERIF_C20_RUN=<scratch dir of this run> in their environment"""
    import signal
    needle = ("VERIF_C20_RUN=%s" % tag).encode()
    n = 0
    for d in os.listdir("/proc"):
        if not d.isdigit() or int(d) == os.getpid():
            continue
        try:
            with open("/proc/%s/environ" % d, "rb") as f:
                if needle in f.read().split(b"\0"):
                    os.kill(int(d), signal.SIGKILL)
                    n += 1
        except OSError:
            pass
    return n


def run_impl_cases(ctx, cases, script="c20_impl.py", workers=12, timeout=900):
    if not cases:
        return []
    workers = max(1, min(workers, len(cases)))
    chunks = [cases[i::workers] for i in range(workers)]

    def one(ch):
        rc, out, err = common.run_impl(script, args=[ctx.tmp], input_text="\n".join(json.dumps(c) for c in ch) + "\n",
                                       timeout=timeout, env=run_env(ctx))
        lines = [json.loads(l) for l in out.splitlines() if l.strip()]
        if len(lines) != len(ch):
            raise RuntimeError("%s produced %d results for %d cases: %s" % (script, len(lines), len(ch), err[-1500:]))
        return lines
    with cf.ThreadPoolExecutor(workers) as ex:
        outs = list(ex.map(one, chunks))
    res = [None] * len(cases)
    for k, ch in enumerate(chunks):
        for j, r in enumerate(outs[k]):
            res[k + workers * j] = r
    return res


def strip_case(c):
    steps = []
    for s in c["steps"]:
        d = {"pre": s.get("pre", []), "line": s["line"], "nl": s.get("nl", True)}
        if s.get("sig"):
            d["sig"] = s["sig"]
        steps.append(d)
    out = {"steps": steps, "werror": bool(c.get("werror"))}
    if c.get("pending"):
        out["pending"] = c["pending"]
    if c.get("faults"):
        out["faults"] = c["faults"]
    return out


def search_failing(ctx, n=150):
    cases = [gen_case(ctx.rng) for _ in range(n)]
    res = run_impl_cases(ctx, cases)
    for c, r in zip(cases, res):
        bad, key = judge_loop(c, r)
        if bad and key is None:
            return bad, shrink(ctx, c, bad)
    return None


def shrink(ctx, case, bad):
    """greedy line removal while the oracle still fails (bounded effort)"""
    cur = strip_case(case)
    budget = 4
    while budget and len(cur["steps"]) > 1:
        budget -= 1
        n = len(cur["steps"])
        cands = []
        for i in range(n):
            c = dict(cur, steps=cur["steps"][:i] + cur["steps"][i + 1:])
            if c["steps"] and not all(s["nl"] for s in c["steps"][:-1]):
                continue
            cands.append(c)
        # also: keep only the second half / first half
        res = run_impl_cases(ctx, cands)
        better = None
        for c, r in zip(cands, res):
            b, key = judge_loop(c, r)
            if b and key is None:
                better = c
        if better is None:
            break
        cur = better
    return cur


# ---------------------------------------------------------------- client-side sample
CL_FILES = ["f1", "f2", "d1/f3", "a:b", " sp ace:x "]
CL_FOLDERS = ["d1", "d2"]
CL_UNIVERSE = CL_FILES + CL_FOLDERS


def gen_scenario(rng):
    n = rng.choice([1, 2, 2, 3, 3])
    script = []
    alive = list(range(n))
    victim = rng.randrange(n)
    kill_at = rng.randint(1, 9)
    for step in range(rng.randint(6, 14)):
        if step == kill_at and victim in alive:
            script.append([victim, "kill", None])
            alive.remove(victim)
            if not alive:
                break
            continue
        if len(alive) > 1 and rng.random() < 0.08:
            c = rng.choice(alive)
            script.append([c, "exit", None])
            alive.remove(c)
            continue
        c = rng.choice(alive)
        op = rng.choice(["reg"] * 5 + ["unl"] * 4 + ["unreg"])
        res = rng.choice(CL_UNIVERSE + (["zz"] if op != "reg" and rng.random() < 0.3 else []))
        script.append([c, op, res])
    if victim in alive:
        script.append([victim, "kill", None])
    return {"n": n, "script": script}


def judge_clients(sc, res):
    """(violation | None, inconclusive | None)"""
    if "harness_error" in res:
        return None, "harness error " + res["harness_error"]
    if res.get("flags"):
        return None, "flags %s" % res["flags"]
    cnt = {}
    fs = FS(CL_UNIVERSE, CL_FILES, CL_FOLDERS, initial=CL_UNIVERSE)
    for ob in res["obs"]:
        c, op, r = ob["op"]
        if op == "reg":
            cnt[r] = cnt.get(r, 0) + 1
        elif op == "unreg":
            cnt.pop(r, None)
        elif op == "unl" and cnt.get(r, 0) > 0:
            cnt[r] -= 1
            if cnt[r] == 0:
                del cnt[r]
                fs.cleanup("folder" if r in CL_FOLDERS else "file", r)
        if ob["alive"]:
            if not ob["tracker_running"]:
                return "tracker process gone while clients %s are still connected (after %s)" % (ob["alive"], ob["op"]), None
            if ob["exists"] != fs.vec():
                diff = [(p, a, b) for p, a, b in zip(CL_UNIVERSE, ob["exists"], fs.vec()) if a != b]
                return "after %s with clients %s alive, on disk (path, exists, expected): %s" % (ob["op"], ob["alive"], diff), None
    if not res.get("tracker_ended"):
        return None, "tracker still running 30 s after the last client ended"
    for r in sorted(cnt, key=lambda r: r in CL_FOLDERS):
        fs.cleanup("folder" if r in CL_FOLDERS else "file", r)
    if res["final_exists"] != fs.vec():
        diff = [(p, a, b) for p, a, b in zip(CL_UNIVERSE, res["final_exists"], fs.vec()) if a != b]
        return "after the last client ended and the tracker exited, on disk (path, exists, expected): %s" % diff, None
    if ("d2" in fs.s) != res["untracked_d2"]:
        return "untracked content of d2: exists=%s, folder expected to exist=%s" % (res["untracked_d2"], "d2" in fs.s), None
    return None, None


# ------------------------------------- TemporaryResourcesManager: event-level driver
MG_REQ = """From Coq Require Import ZArith List Bool.
Require Import JV.Model.ResTracker JV.Model.TempManager.
Import ListNotations. Open Scope Z_scope."""
MG_DEFS = """Definition show_t (t : rtype) : Z := match t with Folder => 0 | File => 1 | Semlock => 2 end.
Definition show_q (q : request) : Z * list Z :=
  match q with
  | QRegister t n => (10 + show_t t, n) | QUnregister t n => (20 + show_t t, n)
  | QMaybeUnlink t n => (30 + show_t t, n) | _ => (0, [])
  end.
Definition show_a (a : action) : Z * list Z :=
  match a with
  | ASend q => show_q q
  | AMkdir c => (1, [Z.of_nat c])
  | AWrite c f => (2, [Z.of_nat c; Z.of_nat f])
  | ADeleteFolder c ok => (if ok then 4 else 3, [Z.of_nat c])
  end.
Definition show_fs (fo : list nat) (fi : list (nat * nat)) :=
  (map Z.of_nat fo, map (fun x => (Z.of_nat (fst x), Z.of_nat (snd x))) fi).
Inductive mev := MSeq (l : list event) | MCleanAll (second force allow : bool) (pad : nat).
(* context_id omitted: the manager iterates over list(self._cached_temp_folders) (insertion order) *)
Definition expand (w : world) (m : mev) : list event :=
  match m with
  | MSeq l => l
  | MCleanAll second force allow pad =>
      flat_map (fun c => ECleanFiles c force :: repeat ETracker pad ++ [ECleanFolder c (allow || force)] ++ repeat ETracker pad)
               (filter (fun c => Bool.eqb (Nat.leb 10 c) second) (rev (w_cached w)))
  end.
Fixpoint acts (w : world) (evs : list event) : list action * world :=
  match evs with
  | [] => ([], w)
  | e :: t => let '(a, w') := acts (fst (ev_step w e)) t in (snd (ev_step w e) ++ a, w')
  end.
Fixpoint mstates (w : world) (ms : list mev) :=
  match ms with
  | [] => ([], w)
  | m :: t => let '(a, w') := acts w (expand w m) in
              let '(r, wf) := mstates w' t in
              ((map show_a a, show_fs (w_folders w') (w_files w')) :: r, wf)
  end.
Definition show_m (ms : list mev) :=
  let '(r, w) := mstates world0 ms in (r, let d := disk_after_kill w in show_fs (fst d) (snd d))."""
MG_CTX0 = 9
MG_PAD = 6


def mg_coq_events(sc):
    """scenario -> list of Gallina macro events: [constructor(s)] + one per scenario event"""
    b = lambda x: "true" if x else "false"  # noqa
    tr = lambda n: ["ETracker"] * n  # noqa
    seq = lambda es: "MSeq %s" % common.coq_list(es)  # noqa
    out = [seq(["ENewContext %d" % MG_CTX0] + (["ENewContext %d" % (10 + MG_CTX0)] if sc.get("two") else []) + tr(3))]
    frozen = False
    for ev in sc["events"]:
        k = ev[0]
        pad = 0 if frozen else MG_PAD
        if k == "new":
            m = seq(["ENewContext %d" % ev[1]] + tr(pad))
        elif k == "mkdir":
            m = seq(["EMkdir %d" % ev[1]] + tr(pad))
        elif k == "reg":
            m = seq(["ERegFile %d %d" % (ev[1], ev[2])] + tr(pad))
        elif k == "write":
            m = seq(["EWrite %d %d" % (ev[1], ev[2])] + tr(pad))
        elif k == "unl":
            m = seq(["EUnlinkFile %d %d" % (ev[1], ev[2])] + tr(pad))
        elif k == "clean":   # omitted keywords take the defaults force=False, allow_non_empty=False
            m = seq(["ECleanFiles %d %s" % (ev[1], b(ev[2]))] + tr(pad) +
                    ["ECleanFolder %d %s" % (ev[1], b(ev[3] or ev[2]))] + tr(pad))
        elif k == "cleanall":
            m = "MCleanAll %s %s %s %d" % (b(ev[1] == 2), b(ev[2]), b(ev[3]), pad)
        elif k == "freeze":
            frozen, m = True, seq([])
        elif k == "thaw":
            frozen, m = False, seq(tr(60))
        out.append(m)
    return out


def mg_real_actions(actions):
    out = []
    for kind, x, lab in actions:
        if kind == "delete":
            out.append((4 if x == "ok" else 3, list(lab)))
        elif kind in ("reg", "unreg", "unl") and isinstance(lab, list):
            code = {"reg": 10, "unreg": 20, "unl": 30}[kind] + TCODE.get(x, 9)
            out.append((code, [lab[0]] if len(lab) == 1 else [lab[0], 47, lab[1]]))
        else:
            out.append((99, [kind, x, str(lab)]))
    return out


def mg_norm(seq):
    """order inside a run of per-file requests is os.listdir order: compare runs as multisets"""
    out, run = [], []
    for a in seq:
        if a[0] in (21, 31):
            run.append(a)
        else:
            out += sorted(run) + [a]
            run = []
    return out + sorted(run)


def mg_compare(sc, res, mval):
    s = mval.replace("%Z", "").replace("%nat", "").replace(";", ",")
    states, final = ast.literal_eval(s)
    if len(states) != len(sc["events"]) + 1:
        return "model returned %d states for %d events" % (len(states), len(sc["events"]) + 1)
    rel = list(res.get("init_rel", [])) + [n for st in res["steps"] for n in st.get("rel", [])]
    if rel:
        return ("a name handed to the tracker is not an absolute path (the model's names are absolute: the tracker "
                "resolves them with its own cwd): %r" % rel[0])

    def macts(st):
        return [(a[0], list(a[1])) for a in st[0] if a[0] not in (1, 2)]
    init = mg_real_actions(res.get("init_actions", []))
    if mg_norm(init) != mg_norm(macts(states[0])):
        return "constructor: model %s, implementation %s" % (macts(states[0]), init)
    for i, st in enumerate(res["steps"]):
        m = states[i + 1]
        real = mg_real_actions(st["actions"])
        if st.get("raised"):
            return "event %d %s: the implementation raised %s, the model does not" % (i, st["ev"], st["raised"])
        if mg_norm(real) != mg_norm(macts(m)):
            return "event %d %s: model performs %s, implementation %s" % (i, st["ev"], mg_norm(macts(m)), mg_norm(real))
        mfo, mfi = sorted(m[1][0]), sorted([list(x) for x in m[1][1]])
        if mfo != sorted(st["disk"]["folders"]) or mfi != sorted(st["disk"]["files"]):
            return "event %d %s: model disk %s %s, implementation %s" % (i, st["ev"], mfo, mfi, st["disk"])
    if sc.get("end", "kill") == "kill" and bool(list(final[0]) or list(final[1])) != bool(res["left"]):
        return "after the kill: model %s, implementation %s" % (final, res["left"])
    return None


def judge_manager(sc, res):
    """(violation | None, inconclusive | None): the end-state oracle"""
    if "harness_error" in res:
        return None, "harness error " + res["harness_error"]
    if res.get("skipped"):
        return None, "skipped"
    if res.get("ctor_error"):
        return "TemporaryResourcesManager(...) raised %s" % res["ctor_error"], None
    if res.get("flags") or any(not st["synced"] for st in res["steps"]):
        return None, "flags %s %s" % (res.get("flags"), res.get("stderr_tail", "")[-200:])
    for st in res["steps"]:
        if st.get("raised"):
            return "event %s raised %s (a clean-up request must not fail; the remaining contexts are skipped)" % (
                st["ev"], st["raised"]), None
    # not early: a file with a registered user left may only disappear through a clean-up that is
    # allowed to remove a non-empty folder (force / allow_non_empty)
    cnt, prev = {}, set()
    for st in res["steps"]:
        ev = st["ev"]
        now = {tuple(x) for x in st["disk"]["files"]}
        exempt = set()   # contexts whose folder this event may remove although files in it are in use
        if ev[0] == "reg":
            cnt[(ev[1], ev[2])] = cnt.get((ev[1], ev[2]), 0) + 1
        elif ev[0] == "unl" and cnt.get((ev[1], ev[2]), 0) > 0:
            cnt[(ev[1], ev[2])] -= 1
        elif ev[0] in ("clean", "cleanall"):
            ctxs = {ev[1]} if ev[0] == "clean" else {k[0] for k in prev if (k[0] >= 10) == (ev[1] == 2)}
            for k in [k for k in prev if k[0] in ctxs]:
                if ev[2]:
                    cnt[k] = 0
                elif cnt.get(k, 0) > 0:
                    cnt[k] -= 1
            if ev[2] or ev[3]:
                exempt = ctxs
        gone = sorted(k for k in prev - now if cnt.get(k, 0) > 0 and k[0] not in exempt)
        if gone:
            return ("event %s: file(s) %s disappeared although %s registered user(s) remain" % (
                ev, gone, [cnt[k] for k in gone])), None
        prev = now
    if res["left"]:
        return ("after the client %s and the tracker exited, left on disk: %s" % (
            "was killed" if sc.get("end", "kill") == "kill" else "exited normally", res["left"])), None
    return None, None


def gen_manager(rng):
    two = rng.random() < 0.35
    ctxs = [1, 2] + ([11, 12] if two else [])
    ob = lambda p: (rng.random() < p)  # noqa

    def clean_ev(c):
        shape = rng.random()
        if shape < 0.3:    # LokyBackend.terminate: context_id + force=False, allow_non_empty omitted
            return ["clean", c, False, None]
        if shape < 0.45:   # MemmappingExecutor.terminate(kill_workers): all contexts, allow_non_empty=True
            return ["cleanall", 2 if c >= 10 else 1, ob(0.5), True]
        if shape < 0.55:   # MemmappingPool.terminate: no argument at all
            return ["cleanall", 2 if c >= 10 else 1, None, None]
        return ["clean", c, ob(0.2), ob(0.3)]
    evs = []
    if rng.random() < 0.6:
        c = rng.choice(ctxs)
        evs += [["new", c]] + ([["mkdir", c]] if ob(0.85) else [])
        files = rng.sample([0, 1, 2], rng.choice([1, 1, 2, 3]))
        for f in files:
            evs += [["reg", c, f]] * rng.choice([1, 2, 2, 3])
            if ob(0.9):
                evs.append(["write", c, f])
        if two and ob(0.7):   # the other manager works on the same context id meanwhile
            c2 = c + 10 if c < 10 else c - 10
            evs += [["new", c2], ["mkdir", c2], ["reg", c2, 0], ["reg", c2, 0], ["write", c2, 0]]
        for _ in range(rng.choice([0, 0, 1, 2, 3])):
            evs.append(["unl", c, rng.choice(files)])
        if ob(0.15):
            evs.append(["freeze"])
        evs.append(clean_ev(c))
        for _ in range(rng.choice([0, 0, 1, 3])):
            k = rng.choice(["unl", "clean", "new", "mkdir", "write", "thaw"])
            if k == "unl":
                evs.append(["unl", c, rng.choice(files)])
            elif k == "clean":
                evs.append(clean_ev(rng.choice(ctxs)))
            elif k == "thaw":
                evs.append(["thaw"])
            else:
                evs.append([k, c] + ([rng.choice([0, 1, 2])] if k == "write" else []))
    else:
        for _ in range(rng.randint(5, 16)):
            k = rng.choice(["new"] * 3 + ["mkdir"] * 3 + ["reg"] * 5 + ["write"] * 4 + ["unl"] * 4 + ["clean"] * 3 + ["freeze", "thaw"])
            c, f = rng.choice(ctxs), rng.choice([0, 1, 2])
            evs.append({"new": ["new", c], "mkdir": ["mkdir", c], "reg": ["reg", c, f], "write": ["write", c, f],
                        "unl": ["unl", c, f], "clean": clean_ev(c), "freeze": ["freeze"], "thaw": ["thaw"]}[k])
    return {"events": evs, "end": "kill" if rng.random() < 0.75 else "exit", "two": two,
            # how temp_folder is spelled, and whether the tracker was started under another cwd
            "root": rng.choice(["abs", "abs", "rel", "relsub", "env", "envabs"]), "chdir": rng.random() < 0.5}


def shrink_manager(ctx, sc):
    cur = sc
    for _ in range(5):
        cands = [dict(cur, events=cur["events"][:i] + cur["events"][i + 1:]) for i in range(len(cur["events"]))]
        if not cands:
            break
        res = run_impl_cases(ctx, cands, script="c20_manager.py")
        better = [c for c, r in zip(cands, res) if judge_manager(c, r)[0]]
        if not better:
            break
        cur = better[-1]
    return cur


def run_manager_stage(ctx, quick):
    n = 40 if quick else 320
    scs = [gen_manager(ctx.rng) for _ in range(n)]
    res = run_impl_cases(ctx, scs, script="c20_manager.py", workers=min(14, common.NCPU))
    stats = {"scenarios": n, "inconclusive": 0, "disagreements": 0, "kills": sum(1 for s in scs if s["end"] == "kill"),
             "clean_failed": 0, "clean_ok": 0, "model_evaluations": 0}
    bad_cases, usable = [], []
    retries, first_inc, confirmed = 0, None, 0
    for i, (sc, r) in enumerate(zip(scs, res)):
        bad, inc = judge_manager(sc, r)
        if inc and inc != "skipped" and retries < 2:
            retries += 1
            r = run_impl_cases(ctx, [sc], script="c20_manager.py", workers=1)[0]
            res[i] = r
            bad, inc = judge_manager(sc, r)
            confirmed += 1 if inc else 0
        if inc:
            stats["inconclusive"] += 1
            if inc != "skipped":
                first_inc = first_inc or (inc, sc)
                ctx.note("manager scenario inconclusive (%s): %s" % (inc, json.dumps(sc)))
            continue
        if r.get("ctor_error"):
            bad_cases.append((bad, sc))
            continue
        usable.append(i)
        for st in r["steps"]:
            for a in st["actions"]:
                if a[0] == "delete":
                    stats["clean_ok" if a[1] == "ok" else "clean_failed"] += 1
        if bad:
            bad_cases.append((bad, sc))
    if first_inc and (confirmed >= 2 or stats["inconclusive"] >= max(3, n // 4)):
        stats["unevaluable"] = True
        ctx.violation("TemporaryResourcesManager stage could not be evaluated on %d of %d scenarios (time-outs / hangs / "
                      "crashes): %s" % (stats["inconclusive"], n, first_inc[0]), {"kind": "manager", "scenario": first_inc[1]}, True)
    exprs = ["show_m %s" % common.coq_list(mg_coq_events(scs[i])) for i in usable]
    vals = ctx.coq_eval_lines(MG_REQ, MG_DEFS, exprs, name="c20mg", shard=max(4, len(exprs) // common.NCPU + 1))
    stats["model_evaluations"] = len(vals)
    dis = []
    for i, v in zip(usable, vals):
        d = mg_compare(scs[i], res[i], v)
        if d:
            dis.append({"what": d, "scenario": scs[i]})
    stats["disagreements"] = len(dis)
    for bad, sc in bad_cases[:2]:
        small = shrink_manager(ctx, sc)
        b2 = judge_manager(small, run_impl_cases(ctx, [small], script="c20_manager.py", workers=1)[0])[0]
        ctx.violation("TemporaryResourcesManager: " + (b2 or bad), {"kind": "manager", "scenario": small if b2 else sc}, True)
    if dis and not bad_cases:
        # look for a failing input with the end-state oracle near the disagreeing scenarios
        found = None
        extra = []
        for d in dis[:6]:
            evs = d["scenario"]["events"]
            for cut in range(1, len(evs) + 1):
                extra.append(dict(d["scenario"], events=evs[:cut], end="kill"))
        extra += [gen_manager(ctx.rng) for _ in range(60)]
        for sc, r in zip(extra, run_impl_cases(ctx, extra, script="c20_manager.py", workers=min(14, common.NCPU))):
            b, inc = judge_manager(sc, r)
            if b:
                found = (b, sc)
                break
        if found:
            ctx.violation("TemporaryResourcesManager: " + found[0],
                          {"kind": "manager", "scenario": shrink_manager(ctx, found[1]), "first_disagreement": dis[0]}, True)
        else:
            ctx.violation("TemporaryResourcesManager model and implementation disagree (%d scenarios): %s" % (len(dis), dis[0]["what"]),
                          {"kind": "correspondence", "first_disagreement": dis[0],
                           "correspondence": "Model/TempManager.v ev_step vs TemporaryResourcesManager (order of actions, disk)"},
                          found_input=False)
    return stats, scs[0]


# ------------------------------------- regenerated fact: the real call sites of the clean-up
# what the manager scenarios (clean / cleanall shapes) and the model assume about the callers
EXPECTED_CALLSITES = {
    "signature": [["context_id", None], ["force", False], ["allow_non_empty", False]],
    "sites": {
        "_memmapping_reducer.py:TemporaryResourcesManager._clean_temporary_resources":
            {"context_id": "<expr>", "force": "<expr>", "allow_non_empty": "<expr>"},   # the per-context recursion
        "_parallel_backends.py:LokyBackend.terminate": {"context_id": "<expr>", "force": False},   # ITS OWN context only
        "executor.py:MemmappingExecutor.terminate": {"force": "<expr>", "allow_non_empty": True},  # all contexts
        "pool.py:MemmappingPool.terminate": {},                                                     # all contexts, defaults
    },
}


def check_callsites(ctx):
    try:
        rc, out, err = common.run_impl("c20_callsites.py", args=[common.REPO], env=run_env(ctx), timeout=60)
        live = json.loads(out)
    except Exception as e:  # noqa
        ctx.violation("the call sites of _clean_temporary_resources could not be read from the source (%s)" % e,
                      {"kind": "correspondence", "correspondence": "call-site shapes"}, found_input=False)
        return None
    diffs = []
    if live.get("signature") != EXPECTED_CALLSITES["signature"]:
        diffs.append("signature %s (expected %s)" % (live.get("signature"), EXPECTED_CALLSITES["signature"]))
    for k in sorted(set(live["sites"]) | set(EXPECTED_CALLSITES["sites"])):
        if live["sites"].get(k) != EXPECTED_CALLSITES["sites"].get(k):
            diffs.append("%s passes %s (expected %s)" % (k, live["sites"].get(k), EXPECTED_CALLSITES["sites"].get(k)))
    return diffs


# ------------------------------------------- signals on the real spawn path
def judge_signal(sc, r):
    """(violation | None, inconclusive | None)"""
    if "harness_error" in r:
        return None, "harness error " + r["harness_error"]
    if [f for f in r.get("flags", []) if f != "no-client-log"] or "tracker" not in r:
        return None, "flags %s" % r.get("flags")
    what = "SIG%s sent to the tracker's %s %s" % (sc["sig"], sc["target"],
                                                  "while it was starting (pending at main())" if sc["when"] == "pending"
                                                  else "while it was serving requests")
    if r["left"]:
        return "%s: after the client was killed and the tracker process ended, left on disk: %s (client: %s)" % (
            what, r["left"], r.get("client_error")), None
    if r.get("sync1") is False or r.get("sync2") is False or r.get("client_error"):
        return "%s: the tracker stopped answering (%s)" % (what, r.get("client_error")), None
    return None, None


def run_signal_stage(ctx):
    scs = [{"sig": s, "target": t, "when": w} for w in ("pending", "running") for s in ("TERM", "INT") for t in ("pid", "group")]
    res = run_impl_cases(ctx, scs, script="c20_signals.py", workers=8)
    inconclusive, first_inc = 0, None
    masks = set()
    for sc, r in zip(scs, res):
        if r.get("skipped"):
            inconclusive += 1
            continue
        bad, inc = judge_signal(sc, r)
        if inc and inconclusive < 2:
            r = run_impl_cases(ctx, [sc], script="c20_signals.py", workers=1)[0]
            bad, inc = judge_signal(sc, r)
        if inc:
            inconclusive += 1
            first_inc = first_inc or (inc, sc)
            ctx.note("signal scenario inconclusive (%s): %s" % (inc, json.dumps(sc)))
        elif bad:
            ctx.violation(bad, {"kind": "signal", "scenario": sc}, True)
        masks.add(tuple(r.get("mask_at_spawn") or ()))
    unevaluable = bool(first_inc and inconclusive >= 3)
    if unevaluable:
        ctx.violation("signal stage could not be evaluated on %d of %d scenarios: %s" % (inconclusive, len(scs), first_inc[0]),
                      {"kind": "signal", "scenario": first_inc[1]}, True)
    return {"scenarios": len(scs), "inconclusive": inconclusive, "mask_at_spawn_seen": sorted(masks), "unevaluable": unevaluable}


# ------------------------------------------------ Parallel + numpy life-cycle sample
KEY_WERROR_E2E = "eof-cleanup-aborted:-W-error:parallel-memmap-folder-left-after-kill"


def run_np(ctx, mode):
    try:
        rc, out, err = common.run_impl("c20_parallel_np.py", args=[ctx.tmp, mode], py=common.PYNP, timeout=400,
                                       env=run_env(ctx))
        return json.loads(out.strip().splitlines()[-1])
    except Exception as e:  # noqa
        return {"mode": mode, "harness_error": "%s: %s" % (type(e).__name__, e)}


def judge_np(r):
    """(violation | None, inconclusive | None, finding_key | None)"""
    if "harness_error" in r:
        return None, "harness error " + r["harness_error"], None
    if r.get("flags"):
        return None, "flags %s %s" % (r["flags"], r.get("stderr_tail", "")[-200:]), None
    seen = r.get("seen") or []
    if r.get("mode") in ("same-array-contexts", "delete-race") and r.get("workload"):
        seen = [{"filename": "-", "exists": True}]
    if r.get("mode") == "two-calls" and (r.get("workload") or {}).get("files_b"):
        seen = [{"filename": "-", "exists": True}]
    if r.get("mode") == "terminate-pending" and not seen and (r.get("workload") or {}).get("before"):
        seen = [{"filename": "-", "exists": True}]   # the pending task never ran its body: judged by its result below
    if not seen or not all(x.get("filename") for x in seen):
        return None, "memmapping did not engage", None
    if not all(x["exists"] for x in seen):
        return "a worker received a memmap whose backing file was already deleted: %s" % [x for x in seen if not x["exists"]][:1], None, None
    if r["mode"] == "same-array-contexts":
        w = r.get("workload") or {}
        if not w.get("synced") or not w.get("contexts"):
            return None, "tracker not synchronised / no context ran", None
        for c in w["contexts"]:
            if not (c["same_file"] and c["in_folder"]):
                return None, "set-up: the array was not dumped to one file of the context's folder: %s" % c, None
            # model: per context the first send is ERegFile x2 (per-child reference + the owner's extra one), every
            # further send ERegFile x1; the owner's reference is released only by the end-of-call clean-up
            if c["registers_first_send"] != 2 or c["registers_total"] != 3:
                return ("context %s: the reducer sent %d register(file) for the first task and %d in total for two tasks "
                        "(model: 2 and 3 -- one per task plus one for the owning call of EVERY context)"
                        % (c["ctx"], c["registers_first_send"], c["registers_total"])), None, None
            if not c["alive_after_first_release"] or not c["alive_before_end"]:
                return ("context %s: the memmap file was deleted when a worker released it although the owning call has "
                        "not ended (alive after the first release: %s, before the end: %s)"
                        % (c["ctx"], c["alive_after_first_release"], c["alive_before_end"])), None, None
            if not c["folder_gone_after_end"]:
                # depends on the tracker answering within delete_folder's retry window: decided by the delete-race mode
                return None, "context %s: folder not deleted by the end-of-call clean-up (timing; see delete-race)" % c["ctx"], None
        return None, None, None
    if r["mode"] == "delete-race":
        w = r.get("workload") or {}
        if "direct_folder_left" not in w:
            return None, "no output", None
        if w["direct_raised"] or w["direct_folder_left"]:
            return ("delete_folder(allow_non_empty=False): the folder held a file at the first listing and was empty right "
                    "after it, yet it was not deleted within the retry window (%s listings, raised %s)"
                    % (w.get("direct_listings"), w["direct_raised"])), None, None
        if w.get("real_folder_left"):
            return None, "real path: folder left after the end-of-call clean-up although the direct drive passed (timing)", None
        return None, None, None
    if r["mode"] == "two-calls":
        w = r.get("workload") or {}
        if w.get("setup"):
            return None, "set-up: %s" % w["setup"], None
        if w.get("problems"):
            return "two Parallel calls sharing the loky executor: " + "; ".join(w["problems"]), None, None
        return None, None, None
    if r["mode"] == "terminate-pending":
        w = r.get("workload") or {}
        if not w.get("before"):
            return None, "the pending task's argument had not been dumped when terminate() was called", None
        if (w.get("res") or {}).get("f2") != 30000.0 or (w.get("res") or {}).get("f1") != "unblocked":
            return ("terminate(kill_workers=False) with a pending user of a tracked temp file: the pending task ended with %r "
                    "(its file was deleted under it)" % ((w.get("res") or {}).get("f2"),)), None, None
        return None, None, None
    if r["mode"] == "normal":
        w = r.get("workload") or {}
        if w.get("out1") != [30000.0 + i for i in range(4)] or w.get("out2") != [60010.0 + i for i in range(3)]:
            return "wrong results through memmapped arguments: %s" % w, None, None
        if r["left"]:
            return "temporary folder left after a normal exit of the interpreter and of the tracker: %s" % r["left"], None, None
        return None, None, None
    if not r["during"] or not all(r["files_during"]):
        return "temporary folder/files missing while the call is running: %s %s" % (r["during"], r["files_during"]), None, None
    if all(r["workers_alive_then"]) and not r["after_parent_kill"]:
        return "temporary folder deleted although two workers are still connected to the tracker", None, None
    if r["left"]:
        what = ("%d temporary joblib_memmapping_folder left behind after parent and workers were killed and the tracker "
                "exited%s" % (len(r["left"]), " with a traceback" if "Traceback" in r.get("stderr_tail", "") or
                              "Error" in r.get("stderr_tail", "") else ""))
        return what, None, (KEY_WERROR_E2E if r["mode"] == "kill-werror" else None)
    return None, None, None


# -------------------------------------------------------------------- known finding
WERROR_WITNESS = {"steps": [{"pre": [], "line": "REGISTER:d0:folder", "nl": True},
                            {"pre": ["d1"], "line": "REGISTER:d1:folder", "nl": True},
                            {"pre": ["d2"], "line": "REGISTER:d2:folder", "nl": True}], "werror": True}


# ------------------------------------------------------------------------------ run
def run(ctx):
    import atexit
    import time as _time
    atexit.register(kill_stragglers, ctx.tmp)
    stage_t = {}
    _t = [_time.time()]

    def lap(name):
        stage_t[name] = round(_time.time() - _t[0], 1)
        _t[0] = _time.time()
    quick = ctx.tier == "quick"
    trusted = [
        "Coq 8.16.1 kernel (coqc); vm_compute in the Examples, the _refuted witness and the cases evaluation",
        "Model/ResTracker.v is a hand model of resource_tracker.main(fd) (posix branch; verbose=0); tied to the code "
        "only behaviourally: per-line clean-up calls, logged errors, ordered EOF clean-up calls, exit status",
        "harness: c20_tracker_child.py replaces _CLEANUP_FUNCS by wrappers that log and call the original functions; "
        "synchronisation by a register/maybe_unlink sentinel + an unknown command whose traceback marks the position "
        "(C20_sync_transparent: the group leaves the registry unchanged)",
        "a Python dict is modelled as an insertion-ordered association list with unique keys (invariant proved)",
        "OS: the tracker reads EOF exactly when every client has closed the pipe (exit or SIGKILL) -- sampled with real "
        "processes, not proved; file-system effect of os.unlink / shutil.rmtree / sem_unlink",
        "client side: TemporaryResourcesManager is modelled (Model/TempManager.v) and tied event by event with instrumented calls (joblib.disk.RM_SUBDIRS_RETRY_TIME shortened from outside, tracker frozen with SIGSTOP); ResourceTracker.register/maybe_unlink/unregister and the reducer/Parallel integration are sampled",
    ]
    proofs_ok = ctx.standard_proof_stage("C20", search=lambda: search_failing(ctx))

    n_cases = 220 if quick else 2000
    n_werr = 12 if quick else 100
    cases = [gen_case(ctx.rng) for _ in range(n_cases)] + [gen_case(ctx.rng, werror=True) for _ in range(n_werr)]
    corpus_path = os.path.join(common.ROOT, "corpus", "c20.jsonl")
    if os.path.exists(corpus_path):
        cases = [json.loads(l) for l in open(corpus_path) if l.strip()] + cases
    res = run_impl_cases(ctx, cases, workers=min(14, common.NCPU))

    # constants of the live code the model fixes
    types_seen = {tuple(r.get("types") or ()) for r in res if "harness_error" not in r and not r.get("skipped")
                  and r.get("types")}
    if types_seen and types_seen != {tuple(TYPES)}:
        ctx.violation("_CLEANUP_FUNCS keys/order are %s, the model assumes %s" % (sorted(types_seen), TYPES),
                      {"kind": "correspondence", "correspondence": "resource types (dict order decides the EOF order)"},
                      found_input=False)

    # oracle
    oracle_fail, known_hits = [], 0
    kinds, nontrivial = {}, set()
    n_lines = 0
    n_skipped = sum(1 for r in res if r.get("skipped"))
    if n_skipped:
        ctx.note("%d tracker-loop cases skipped by the early stop (time-outs)" % n_skipped)
        keep = [i for i, r in enumerate(res) if not r.get("skipped")]
        cases, res = [cases[i] for i in keep], [res[i] for i in keep]
    for c, r in zip(cases, res):
        bad, key = judge_loop(c, r)
        if bad and key:
            known_hits += 1
            if known_hits == 1:
                ctx.violation(bad, {"kind": "oracle", "case": strip_case(c)}, True, finding_key=key)
        elif bad:
            oracle_fail.append((bad, c, r))
        for st in c["steps"]:
            kinds[st.get("kind", "?")] = kinds.get(st.get("kind", "?"), 0) + 1
        n_lines += len(c["steps"])
        if "harness_error" not in r:
            loop_del = sum(len(s["calls"]) for s in r["steps"])
            errs = sum(1 for s in r["steps"] if s["errs"])
            kinds["loop_deletions"] = kinds.get("loop_deletions", 0) + loop_del
            kinds["logged_errors"] = kinds.get("logged_errors", 0) + errs
            kinds["eof_deletions"] = kinds.get("eof_deletions", 0) + len(r["eof"]["calls"])
            kinds["cleanup_raised"] = kinds.get("cleanup_raised", 0) + sum(
                1 for blk in r["steps"] + [r["eof"]] for cc in blk["calls"] if cc[2] != "ok")
            if loop_del:
                nontrivial.add(json.dumps(strip_case(c), sort_keys=True))

    # model
    idx, exprs = [], []
    for i, (c, r) in enumerate(zip(cases, res)):
        if "harness_error" in r:
            continue
        e = model_expr(c, r)
        if e is not None:
            idx.append(i)
            exprs.append(e)
    vals = ctx.coq_eval_lines(REQ, DEFS, exprs, name="c20", shard=max(8, len(exprs) // (2 * common.NCPU) + 1))
    disagreements, cls_mis = [], 0
    for i, v in zip(idx, vals):
        m = parse_model(v)
        d = compare(cases[i], res[i], m)
        if d:
            disagreements.append({"what": d, "case": strip_case(cases[i])})
        else:
            cls_mis += class_mismatches(cases[i], res[i], m)
    if cls_mis:
        ctx.note("%d logged errors have another exception class than the model names (not a property matter)" % cls_mis)

    # decide
    def hung(r):
        return any("timeout" in f or "not-logged" in f for f in r.get("flags", []))
    oracle_fail.sort(key=lambda x: hung(x[2]))   # definite failures first
    for n, (bad, c, r) in enumerate(oracle_fail[:3]):
        if hung(r) or n:   # no shrinking of hangs (every candidate would wait for its time-out), shrink one case only
            ctx.violation(bad, {"kind": "oracle", "case": strip_case(c)}, True)
            continue
        small = shrink(ctx, c, bad)
        rr = run_impl_cases(ctx, [small])[0]
        b2, k2 = judge_loop(small, rr)
        ctx.violation(b2 or bad, {"kind": "oracle", "case": small if b2 else strip_case(c)}, True)
    if disagreements and not oracle_fail:
        hit = search_failing(ctx, 150 if quick else 1500)
        if hit:
            ctx.violation(hit[0], {"kind": "model-disagreement+failing-input", "case": hit[1],
                                   "first_disagreement": disagreements[0]}, True)
        else:
            ctx.violation("model and implementation disagree (%d cases): %s" % (len(disagreements), disagreements[0]["what"]),
                          {"kind": "correspondence", "first_disagreement": disagreements[0],
                           "correspondence": "Model/ResTracker.v main vs resource_tracker.main(fd)"}, found_input=False)

    lap('proofs+loop+model')
    # once a stage has met time-outs/hangs the later (sampled) stages would only wait for the same hang again:
    # they are skipped, the violation is already reported
    hang = ["tracker-loop stage"] if n_skipped else []

    def viol_count():
        return len(ctx.violations)

    # client-side sample
    n_sc = 10 if quick else 80
    scs = [gen_scenario(ctx.rng) for _ in range(n_sc)]
    cres = (run_impl_cases(ctx, scs, script="c20_clients.py", workers=min(8, common.NCPU)) if not hang
            else [{"skipped": "after " + hang[0]} for _ in scs])
    cl_viol, cl_inconclusive, cl_kills = 0, 0, 0
    retries, cl_confirmed = 0, 0
    first_inc = None
    for sc, r in zip(scs, cres):
        if r.get("skipped"):
            cl_inconclusive += 1
            continue
        bad, inc = judge_clients(sc, r)
        if inc and retries < 2:  # retried once, alone
            retries += 1
            r = run_impl_cases(ctx, [sc], script="c20_clients.py", workers=1)[0]
            bad, inc = judge_clients(sc, r)
            cl_confirmed += 1 if inc else 0
        if inc:
            cl_inconclusive += 1
            first_inc = first_inc or (inc, sc)
            ctx.note("client sample inconclusive (%s): %s" % (inc, json.dumps(sc)))
        elif bad:
            cl_viol += 1
            ctx.violation("client-side sample: " + bad, {"kind": "clients", "scenario": sc}, True)
        cl_kills += sum(1 for s in sc["script"] if s[1] == "kill")
    if first_inc and (cl_confirmed >= 2 or cl_inconclusive >= max(3, len(scs) // 4)):
        hang.append("client-side sample")
        ctx.violation("client-side sample could not be evaluated on %d of %d scenarios (time-outs / hangs): %s"
                      % (cl_inconclusive, len(scs), first_inc[0]), {"kind": "clients", "scenario": first_inc[1]}, True)

    lap('clients')
    # TemporaryResourcesManager, event by event, then kill / exit
    if hang:
        mg_stats, mg_sample = {"scenarios": 0, "model_evaluations": 0, "skipped": "after " + hang[0]}, None
    else:
        mg_stats, mg_sample = run_manager_stage(ctx, quick)
        if mg_stats.get("unevaluable"):
            hang.append("manager stage")

    lap('manager')
    # SIGINT / SIGTERM to the tracker spawned by the real ensure_running()
    sg_stats = run_signal_stage(ctx) if not hang else {"scenarios": 0, "skipped": "after " + hang[0]}
    if sg_stats.get("unevaluable"):
        hang.append("signal stage")

    lap('signals')
    # Parallel + numpy life-cycle (sampled; python3-vt)
    modes = (["normal", "kill", "kill-rel", "terminate-pending", "two-calls", "same-array-contexts", "delete-race", "kill-werror"]
             if quick else ["normal"] * 3 + ["kill"] * 4 + ["kill-rel"] * 3 + ["terminate-pending"] * 3 + ["two-calls"] * 3 +
             ["same-array-contexts"] * 2 + ["delete-race"] * 2 + ["kill-werror"])
    if hang:
        ctx.note("sampled stages skipped after time-outs in the %s" % hang[0])
        modes = []
    with cf.ThreadPoolExecutor(max(1, min(8, len(modes)))) as ex:
        nres = list(ex.map(lambda m: run_np(ctx, m), modes))
    np_inconclusive, np_ok, np_crashed = 0, 0, []
    np_retries = 0
    for mode, r in zip(modes, nres):
        bad, inc, key = judge_np(r)
        if inc and np_retries < 2:
            np_retries += 1
            r = run_np(ctx, mode)
            bad, inc, key = judge_np(r)
        if inc:
            np_inconclusive += 1
            ctx.note("Parallel/numpy sample (%s) inconclusive: %s" % (mode, inc))
            if inc.startswith("flags") and ("no-output" in inc or "workload-ended-early" in inc or "workers-not-seen" in inc):
                np_crashed.append((mode, inc))
        elif bad:
            ctx.violation("Parallel/numpy sample (%s): %s" % (mode, bad), {"kind": "parallel-numpy", "mode": mode, "left": r.get("left"),
                                                                           "stderr_tail": r.get("stderr_tail")}, True,
                          finding_key=key)
        else:
            np_ok += 1
            if mode == "kill-werror":
                ctx.note("end-to-end form of F18 (kill-werror) did not leave the folder behind this time")

    cs_diffs = check_callsites(ctx)
    if cs_diffs:
        # the binding of a real call site differs from what scenarios and model assume; the two-calls / terminate-pending
        # samples above are the search for a failing input
        if not any(v["found_input"] for v in ctx.violations):
            ctx.violation("call site of _clean_temporary_resources changed: " + "; ".join(cs_diffs),
                          {"kind": "correspondence", "correspondence": "regenerated call-site shapes vs EXPECTED_CALLSITES",
                           "diffs": cs_diffs}, found_input=False)
        else:
            ctx.note("call site of _clean_temporary_resources changed: " + "; ".join(cs_diffs))
    if len(np_crashed) >= 2:
        ctx.violation("Parallel with memmapped arguments could not be run in %d of %d sampled runs: %s"
                      % (len(np_crashed), len(modes), np_crashed[0][1][:300]),
                      {"kind": "parallel-numpy", "mode": np_crashed[0][0]}, True)

    lap('numpy')
    # known finding: the witness of C20_eof_refuted_werror must still fail on the implementation
    wr = run_impl_cases(ctx, [WERROR_WITNESS], workers=1)[0] if not hang else {"harness_error": "skipped"}
    wbad, wkey = judge_loop(WERROR_WITNESS, wr)
    if hang:
        pass
    elif wkey == KEY_WERROR:
        ctx.violation(wbad, {"kind": "oracle", "case": WERROR_WITNESS}, True, finding_key=KEY_WERROR)
    else:
        ctx.violation("witness of C20_eof_refuted_werror no longer fails on the implementation (%s): the model is stale"
                      % (wbad or "property holds"),
                      {"kind": "correspondence", "case": WERROR_WITNESS,
                       "correspondence": "cleanup_all (unprotected warnings.warn in _unlink_resources)"}, found_input=False)

    samples = [strip_case(cases[0]), strip_case(cases[len(cases) // 2]), scs[0]] + ([mg_sample] if mg_sample else [])
    ctx.finish({
        "evaluations": len(cases) + len(scs) + len(modes) + 1 + mg_stats["scenarios"],
        "distinct_nontrivial": len(nontrivial),
        "rule": "tracker-loop cases: 4-41 lines each over files f1 f2 d1/f3 a:b, folders d1 d2 (d2 holds an untracked file), "
                "semaphore name /jvc20s; 78% well-formed REGISTER/MAYBE_UNLINK/UNREGISTER (5% with a type that does not fit "
                "the path or a path that never exists; 12% with surrounding whitespace), 3% PROBE, 19% malformed (unknown "
                "command/type, missing fields, empty, non-ASCII, NUL, extra colons); 15% end with an unterminated line; "
                "resources are (re)created before 90% of the REGISTERs, so clean-up calls also hit missing paths. "
                "non-trivial = at least one reference count returned to zero inside the loop; distinct by canonical JSON. "
                "client scenarios: 1-3 forked clients, 6-14 operations, one SIGKILL each, optional early exits",
        "samples": samples,
        "traces_validated_against_impl": len(vals) + mg_stats["model_evaluations"],
        "model_evaluations": len(vals),
        "lines_sent": n_lines,
        "line_kinds_and_events": kinds,
        "werror_cases": n_werr,
        "known_finding_hits_in_generated_cases": known_hits,
        "disagreements": len(disagreements),
        "client_scenarios": len(scs),
        "client_sigkills": cl_kills,
        "client_inconclusive": cl_inconclusive,
        "client_side_is_sampled": True,
        "stage_seconds": stage_t,
        "callsite_shapes_match": cs_diffs == [],
        "manager_stage": mg_stats,
        "signal_stage": sg_stats,
        "loop_cases_with_signals": sum(1 for c in cases if any(st.get("sig") for st in c["steps"])),
        "loop_cases_started_with_pending_signal": sum(1 for c in cases if c.get("pending")),
        "parallel_numpy_runs": modes,
        "parallel_numpy_ok": np_ok,
        "parallel_numpy_inconclusive": np_inconclusive,
        "trusted_base": trusted,
        "exhaustive": False,
    }, assumptions=[
        "cf: whether a clean-up function raises is arbitrary (universally quantified); registry and deletions are proved "
        "independent of it",
        "w: C20_eof's last clause needs `warnings are not errors OR no clean-up call raises at EOF`; the other case is "
        "refuted (C20_eof_refuted_werror, known finding)",
        "posix: _CLEANUP_FUNCS keys are folder, file, semlock in this order (checked against the live module each run)",
        "the last client exiting or being killed closes the last write end of the pipe (OS; sampled)",
    ])


def replay(ctx, path):
    obj = json.load(open(path))
    rep = obj.get("replay", obj)
    if rep.get("kind") == "signal":
        sc = rep["scenario"]
        r = run_impl_cases(ctx, [sc], script="c20_signals.py", workers=1)[0]
        bad, inc = judge_signal(sc, r)
        print("replay (signal):", json.dumps(sc), "=>", bad or inc or "property holds")
        return 1 if bad else 0
    if rep.get("kind") == "manager":
        sc = rep["scenario"]
        r = run_impl_cases(ctx, [sc], script="c20_manager.py", workers=1)[0]
        bad, inc = judge_manager(sc, r)
        print("replay (TemporaryResourcesManager):", json.dumps(sc), "=>", bad or inc or "property holds")
        return 1 if (bad or inc) else 0
    if rep.get("kind") == "clients" or "scenario" in rep:
        sc = rep["scenario"]
        r = run_impl_cases(ctx, [sc], script="c20_clients.py", workers=1)[0]
        bad, inc = judge_clients(sc, r)
        print("replay (client sample):", json.dumps(sc), "=>", bad or inc or "property holds")
        return 1 if bad else 0
    if rep.get("kind") == "parallel-numpy":
        r = run_np(ctx, rep["mode"])
        bad, inc, key = judge_np(r)
        print("replay (Parallel/numpy sample, %s):" % rep["mode"], bad or inc or "property holds", ("[%s]" % key) if key else "")
        return 1 if bad else 0
    c = rep if "steps" in rep else (rep.get("case") or rep.get("input"))
    if not c:
        print("replay file names a broken proof/correspondence, nothing to execute:", rep.get("kind"))
        return 1
    r = run_impl_cases(ctx, [c], workers=1)[0]
    bad, key = judge_loop(c, r)
    print("replay:", json.dumps(c), "=>", bad or "property holds", ("[%s]" % key) if key else "")
    return 1 if bad else 0
