"""C10 -- a dying loky worker yields a prompt error, never a hang, and workers heal.  PARTIAL by design.

Proved (Coq, Props/C10.v): the failure-handling logic of the executor manager thread, of
get_reusable_executor and of the call layer that reacts to a failed future, for ALL event sequences.
Not proved (OS): that a dead process makes its sentinel readable, pipe semantics, latency.

The tie to the code is OUTCOME-LEVEL FAULT INJECTION against the real loky backend -- this is sampling
and is reported as such.  Every scenario runs in its own interpreter / process group / temp folder under
a watchdog; the instant of death is driven from inside the task (or from an object pickled with it), so
it does not depend on timing.  Each outcome is (a) judged by an independent oracle stating the property
and (b) compared with the model's prediction for the corresponding event sequence (Model/LokyDrive.v).
"""
import json
import os
import re
import signal
import subprocess
import sys
import time

sys.path.insert(0, os.path.dirname(os.path.dirname(os.path.abspath(__file__))))
import common  # noqa: E402

KEY_MIDSEND = "c10:worker-killed-mid-result-send:manager-blocked-in-recv"
DEATH_IN_TASK = ("dispatching", "stubborn", "respawn", "mgr_busy", "arg_unpickle", "task_start", "mid_task", "result_pickle", "mid_send", "after_send")
UNSERIALIZE = ("arg_unloadable", "result_garbage")
BETWEEN = ("idle_settled", "idle_unsettled", "startup_gen", "startup_reduce", "submit_window")
TRAP = {"dispatching": "TDie", "stubborn": "TDie", "respawn": "TDie", "mgr_busy": "TDieBusy", "arg_unpickle": "TDie", "task_start": "TDie", "mid_task": "TDie", "result_pickle": "TDie",
        "mid_send": "TMidSend", "after_send": "TAfterSend", "result_garbage": "TGarbage",
        "arg_unloadable": "TBadArgs"}


EXIT_STATUSES = ["exit:0", "exit:0", "exit:1", "exit:3", "exit:255"]
EXTRA_SIGNALS = EXIT_STATUSES + ["SIGRT+1", "SIGRT+5", "SIGRT+12", "SIGRT+29", "SIGABRT", "SIGBUS", "SIGUSR1", "SIGUSR2", "SIGHUP",
                 "SIGQUIT", "SIGFPE", "SIGILL", "SIGALRM", "SIGXCPU"]


# ------------------------------------------------------------------ scenarios
def sc(kind, how="SIGKILL", n_jobs=2, victims=(0,), managed=False, n_tasks=8, sleep=0.05, gen=False, big=0,
       watchdog=60, **extra):
    """extra: n_tasks1 (tasks of the fault call), sigchld, pre_dispatch, probe (lock-order probe),
    nested (the victim has started loky workers of its own before it dies)"""
    if kind == "mid_send":
        watchdog = 12          # the known finding F27 hangs: do not wait a minute for it
    if kind == "stubborn":
        watchdog = min(watchdog, 25)   # the SIGTERM-proof siblings sleep 600 s: a late error must hit the watchdog
    d = {"kind": kind, "how": how, "n_jobs": n_jobs, "victims": list(victims), "managed": managed,
         "n_tasks": n_tasks, "sleep": sleep, "gen": gen, "big": big, "watchdog": watchdog}
    d.update({k: v for k, v in extra.items() if v is not None})
    return d


def quick_scenarios(rng):
    S = [
        sc("arg_unpickle", "SIGKILL", 2, [1]),
        sc("arg_unpickle", "SIGSEGV", 3, [0], managed=True),
        sc("task_start", "exit", 3, [2]),
        sc("task_start", "SIGKILL", 2, [0, 1], managed=True),
        sc("mid_task", "SIGSEGV", 4, [3]),
        sc("mid_task", "SIGKILL", 3, [6], managed=True, n_tasks=9),
        sc("mid_task", "exit", 2, [0, 1, 2, 3]),
        sc("mid_task", "SIGKILL", 3, [4], n_tasks=12, big=300000),
        sc("result_pickle", "SIGKILL", 3, [1]),
        sc("result_pickle", "exit", 2, [4], managed=True),
        sc("result_pickle", "SIGSEGV", 2, [2], gen=True),
        sc("after_send", "SIGKILL", 2, [0], sleep=0.2),
        sc("after_send", "SIGKILL", 3, [0], managed=True, sleep=0.2),
        sc("mid_send", "SIGKILL", 2, [2]),
        sc("mid_send", "SIGKILL", 3, [0], managed=True),
        sc("idle_settled", "SIGKILL", 3, [0]),
        sc("idle_settled", "SIGSEGV", 2, [1], managed=True),
        sc("idle_settled", "SIGTERM", 3, [0, 1, 2]),
        sc("idle_settled", "SIGKILL", 3, [0, 1, 2], managed=True),
        sc("idle_unsettled", "SIGKILL", 3, [1]),
        sc("idle_unsettled", "SIGKILL", 2, [0], managed=True),
        sc("startup_gen", "SIGKILL", 3, [1]),
        sc("startup_gen", "SIGSEGV", 2, [0], managed=True),
        sc("startup_reduce", "SIGKILL", 3, [2]),
        sc("startup_reduce", "SIGTERM", 2, [0, 1], managed=True),
        sc("arg_unloadable", "SIGKILL", 2, [3]),
        sc("result_garbage", "SIGKILL", 3, [1], managed=True),
        sc("none", "SIGKILL", 2, []),
        sc("none", "SIGKILL", 3, [], managed=True),
        # the whole signal range: real-time signals that have NO name in signal.Signals (SIGRTMIN+k, 35.. on
        # Linux: the exit-code formatting of the TerminatedWorkerError message must cope), core-dumping and
        # user signals
        sc("mid_task", "SIGRT+1", 2, [1]),
        sc("mid_task", "SIGRT+5", 3, [2], managed=True),
        sc("idle_settled", "SIGRT+1", 3, [0], managed=True),
        sc("idle_settled", "SIGRT+5", 2, [1]),
        sc("mid_task", "SIGABRT", 2, [0]),
        sc("idle_settled", "SIGBUS", 3, [2]),
        sc("task_start", "SIGUSR1", 3, [1], managed=True),
        sc("startup_gen", "SIGRT+3", 2, [0]),
        # death while the manager thread is NOT in wait(): task 0 returns a result whose un-pickling keeps the
        # manager busy until the victim (task 1) is dead; nobody dies later
        sc("mgr_busy", "exit", 2, [1]),
        sc("mgr_busy", "SIGKILL", 3, [1], managed=True),
        sc("mgr_busy", "SIGSEGV", 2, [1], n_tasks=2),
        # idle worker killed inside the next call's ONLY submit, between the broken-flag check and the
        # registration of the work item (forced by wrapping process_executor._WorkItem from outside)
        sc("submit_window", "SIGKILL", 2, [0]),
        sc("submit_window", "SIGKILL", 3, [0, 1, 2], managed=True),
        sc("submit_window", "SIGTERM", 2, [1], managed=True),
        # workers respawned by the submit itself (all exited cleanly, as on idle time-out) while the manager thread
        # sleeps in wait(): single-task call whose worker dies (hung before fix F38: the manager watched the sentinel
        # list built before the spawn), and a many-task call
        # death while call items that do not fit in the call pipe (> 64 KiB each, more tasks than workers) are still
        # buffered in the queue feeder thread: terminate_broken / shutdown must not block on that thread
        sc("mid_task", "SIGKILL", 2, [0], n_tasks=6, sleep=0.6, big=2000000),
        sc("mid_task", "SIGTERM", 3, [1], managed=True, n_tasks=9, sleep=0.6, big=1000000),
        # the exit STATUS as a dimension of the fault: os._exit(k), k = 0 included (a worker that exits with status 0
        # while a task is pending is as dead as a killed one), at every kill instant
        sc("mid_task", "exit:0", 2, [1]),
        sc("task_start", "exit:0", 3, [0], managed=True),
        sc("arg_unpickle", "exit:0", 2, [2]),
        sc("result_pickle", "exit:0", 3, [1], managed=True),
        sc("after_send", "exit:0", 2, [0], sleep=0.2),
        sc("mgr_busy", "exit:0", 2, [1]),
        sc("idle_settled", "exit:0", 3, [0]),
        sc("idle_settled", "exit:0", 2, [0, 1], managed=True),
        sc("startup_gen", "exit:0", 2, [0], managed=True),
        sc("startup_reduce", "exit:0", 3, [1]),
        sc("submit_window", "exit:0", 2, [0]),
        sc("mid_task", "exit:255", 3, [2], managed=True),
        sc("idle_settled", "exit:1", 2, [1]),
        # how the parent treats SIGCHLD: the dead worker's exit status cannot be collected (auto-reaped children /
        # a thread that reaps every child) -- the manager must still fail the futures in bounded time
        sc("mid_task", "SIGKILL", 2, [1], sigchld="ign"),
        sc("mid_task", "exit:0", 3, [0], managed=True, sigchld="ign"),
        sc("idle_settled", "SIGKILL", 2, [0], managed=True, sigchld="ign"),
        sc("idle_settled", "exit:0", 3, [1], sigchld="ign"),
        sc("mid_task", "SIGKILL", 3, [2], managed=True, sigchld="reaper"),
        sc("mid_task", "exit:0", 2, [0], sigchld="reaper"),
        sc("idle_settled", "SIGKILL", 2, [1], sigchld="reaper"),
        # the siblings of the victim ignore SIGTERM/SIGINT and run for 600 s: kill_workers must really kill them
        # (error within the watchdog, siblings gone afterwards)
        sc("stubborn", "SIGKILL", 3, [0], n_tasks=3),
        sc("stubborn", "exit:0", 2, [1], managed=True, n_tasks=2),
        # the victim dies while the CALLER IS STILL DISPATCHING (pre_dispatch='all' / large, slow input generator): the
        # manager fails the futures (callbacks take Parallel._lock) while the caller holds Parallel._lock and submits
        sc("dispatching", "exit", 2, [0], n_tasks=10, pre_dispatch="all", probe=True),
        sc("dispatching", "SIGKILL", 3, [0], managed=True, n_tasks=10, pre_dispatch="all"),
        sc("dispatching", "exit:0", 2, [0], n_tasks=10, pre_dispatch="4*n_jobs"),
        # lock-order probe on ordinary instants: no completion callback may run in a thread holding shutdown_lock
        sc("mid_task", "SIGKILL", 2, [1], probe=True),
        sc("idle_settled", "SIGKILL", 2, [0], managed=True, probe=True),
        # the victim has started NESTED loky workers of its own (a nested Parallel in the task) before it dies: the orphans
        # must not keep the dead worker's sentinel open
        sc("mid_task", "SIGKILL", 2, [1], nested=True, sleep=0.2),
        sc("mid_task", "exit:0", 3, [0], managed=True, nested=True, sleep=0.2),
        sc("idle_settled", "SIGKILL", 2, [0], managed=True, nested=True),
        sc("idle_settled", "SIGKILL", 2, [1], nested=True),
        sc("respawn", "exit:0", 2, [0], n_tasks1=1),
        sc("respawn", "SIGKILL", 2, [0], n_tasks1=1),
        sc("respawn", "exit", 3, [0], managed=True, n_tasks1=1),
        sc("respawn", "SIGKILL", 2, [1]),
        sc("respawn", "SIGSEGV", 3, [2], managed=True),
    ]
    return S + random_scenarios(rng, 3)


def random_scenarios(rng, n, allow_midsend=False):
    out = []
    kinds = ["dispatching", "stubborn", "respawn", "mgr_busy", "submit_window", "arg_unpickle", "task_start", "mid_task", "result_pickle", "after_send",
             "idle_settled", "idle_unsettled", "startup_gen", "startup_reduce", "arg_unloadable", "result_garbage"]
    for _ in range(n):
        kind = rng.choice(kinds + (["mid_send"] if allow_midsend else []))
        n_jobs = rng.choice([2, 2, 3, 4])
        n_tasks = rng.choice([5, 8, 11])
        if kind in BETWEEN:
            victims = sorted(rng.sample(range(n_jobs), rng.randint(1, n_jobs)))
            how = rng.choice(["SIGKILL", "SIGSEGV", "SIGTERM"] + EXTRA_SIGNALS)
        elif kind == "after_send":
            victims, how = [0], rng.choice(["SIGKILL", "exit:0", "exit:3"])
        elif kind in ("dispatching", "stubborn"):
            victims, how = [0], rng.choice(["SIGKILL", "exit:0", "exit:3", "SIGSEGV"])
        elif kind == "respawn":
            victims, how = [0], rng.choice(["SIGKILL", "SIGSEGV", "exit"] + EXTRA_SIGNALS)
        elif kind == "mgr_busy":
            victims, how = [1], rng.choice(["SIGKILL", "SIGSEGV", "exit"] + EXTRA_SIGNALS)
        elif kind in UNSERIALIZE or kind == "mid_send":
            victims, how = [rng.randrange(n_tasks)], "SIGKILL"
        else:
            victims = sorted(rng.sample(range(n_tasks), rng.randint(1, min(n_jobs, 3))))
            how = rng.choice(["SIGKILL", "SIGSEGV", "exit"] + EXTRA_SIGNALS)
        if kind == "stubborn":
            n_tasks = n_jobs
        out.append(sc(kind, how, n_jobs, victims, managed=rng.random() < 0.5, n_tasks=n_tasks,
                      pre_dispatch=(rng.choice(["all", "4*n_jobs"]) if kind == "dispatching" else None),
                      probe=(True if rng.random() < 0.2 else None),
                      nested=(True if kind in ("mid_task", "idle_settled", "idle_unsettled", "startup_gen")
                              and rng.random() < 0.25 else None),
                      n_tasks1=(rng.choice([1, None]) if kind == "respawn" else None),
                      sigchld=(rng.choice(["ign", "reaper"]) if rng.random() < 0.12 else None),
                      sleep=0.2 if kind == "after_send" else rng.choice([0.0, 0.02, 0.05]),
                      gen=rng.random() < 0.15, big=rng.choice([0, 0, 0, 200000])))
    return out


# --------------------------------------------------------- implementation run
def run_scenario(ctx, idx, s, tag=""):
    d = os.path.join(ctx.tmp, "s%03d%s" % (idx, tag))
    os.makedirs(os.path.join(d, "jt"), exist_ok=True)
    with open(os.path.join(d, "sc.json"), "w") as f:
        json.dump(s, f)
    env = common.impl_env({"JOBLIB_TEMP_FOLDER": os.path.join(d, "jt"), "TMPDIR": os.path.join(d, "jt"),
                           "PYTHONPATH": common.REPO + os.pathsep + os.path.join(common.ROOT, "harness", "impl")})
    outp, dump = os.path.join(d, "out.jsonl"), os.path.join(d, "dump.txt")
    log = open(os.path.join(d, "log.txt"), "w")
    p = subprocess.Popen([common.PY, os.path.join(common.ROOT, "harness", "impl", "c10_impl.py"),
                          os.path.join(d, "sc.json"), outp, dump],
                         cwd=d, env=env, stdin=subprocess.DEVNULL, stdout=log, stderr=log, start_new_session=True)
    return {"proc": p, "dir": d, "out": outp, "dump": dump, "log": log, "t0": time.time(),
            "hard": 4 * s["watchdog"] + 40, "sc": s, "idx": idx}


def collect(h):
    p = h["proc"]
    hard_killed = False
    try:
        p.wait(timeout=max(1, h["hard"] - (time.time() - h["t0"])))
    except subprocess.TimeoutExpired:
        hard_killed = True
    try:
        os.killpg(p.pid, signal.SIGKILL)      # the scenario's own session: workers, trackers
    except (ProcessLookupError, PermissionError):
        pass
    p.wait()
    h["log"].close()
    lines = []
    if os.path.exists(h["out"]):
        for ln in open(h["out"]):
            try:
                lines.append(json.loads(ln))
            except ValueError:
                pass
    calls = {r["call"]: r for r in lines if "call" in r}
    started = [r["starting"] for r in lines if "starting" in r]
    done = any(r.get("done") for r in lines)
    dumptxt = open(h["dump"]).read() if os.path.exists(h["dump"]) else ""
    res = {"calls": [calls.get(k) for k in range(4)], "done": done, "hard_killed": hard_killed,
           "rc": p.returncode, "hung_call": None, "dump": dumptxt[-6000:],
           "victim_pids": next((r["victim_pids"] for r in lines if "victim_pids" in r), []),
           "noticed": next((r["noticed"] for r in lines if "noticed" in r), None),
           "probe": next((r["probe"] for r in lines if "probe" in r), None),
           "nested": next((r for r in lines if "nested_alive" in r), None),
           "stubborn_alive": next((r["stubborn_alive"] for r in lines if "stubborn_alive" in r), None),
           "wall": round(time.time() - h["t0"], 2)}
    if not done:
        pend = [k for k in started if k not in calls]
        if pend and ("Timeout (" in dumptxt or hard_killed):
            res["hung_call"] = pend[0]
        elif not pend or not dumptxt:
            res["crash"] = open(os.path.join(h["dir"], "log.txt")).read()[-1500:]
    return res


def run_all(ctx, scenarios, tag=""):
    """run the scenarios, at most NCPU//3 at a time (each uses up to 4 workers + trackers)"""
    width = max(2, min(6, common.NCPU // 3))
    results = [None] * len(scenarios)
    active, nxt, hung = [], 0, 0
    while nxt < len(scenarios) or active:
        while nxt < len(scenarios) and len(active) < width:
            s = scenarios[nxt]
            if hung >= 3 and s["kind"] != "mid_send":
                # several scenarios already hit the watchdog (each is re-run with the full bound before it
                # counts): do not spend a minute on each of the remaining ones
                s = dict(s, watchdog=min(s["watchdog"], 20))
            active.append(run_scenario(ctx, nxt, s, tag))
            nxt += 1
        still = []
        for h in active:
            if h["proc"].poll() is not None or time.time() - h["t0"] > h["hard"]:
                results[h["idx"]] = collect(h)
                if results[h["idx"]]["hung_call"] is not None and h["sc"]["kind"] != "mid_send":
                    hung += 1
            else:
                still.append(h)
        active = still
        time.sleep(0.02)
    return results


def klass(rec):
    """outcome class of one call, same numbering as LokyDrive.oclass; 9 = wrong list, 5 = other exception"""
    if rec is None:
        return None
    if rec["outcome"] == "ok":
        return 0
    if rec["outcome"] == "wrong":
        return 9
    mro = rec.get("mro", [])
    if "TerminatedWorkerError" in mro:
        return 1
    if "BrokenProcessPool" in mro:
        return 2
    if "ShutdownExecutorError" in mro or "has been shutdown" in rec.get("msg", ""):
        return 3
    return 5


# ------------------------------------------------------------------- oracle
def oracle(s, r):
    """Independent statement of the property on one scenario run.  Returns (list of failures, hang_info).
    Does not consult the model."""
    bad = []
    kind = s["kind"]
    if r.get("crash"):
        return ["harness: scenario process ended without a verdict: " + r["crash"][-300:]], None
    cl = [klass(c) for c in r["calls"]]
    hang = None
    if r["hung_call"] is not None:
        hang = {"call": r["hung_call"],
                "manager_in_wait": bool(re.search(r"in wait\n(?:.*\n){0,2}?.*in wait_result_broken_or_wakeup", r["dump"])),
                "manager_in_recv": bool(re.search(r"in _recv\n(?:.*\n){0,4}?.*in wait_result_broken_or_wakeup", r["dump"]))}
        return bad, hang
    if any(c is None for c in cl):
        return ["harness: missing call records " + str(cl)], None
    if cl[0] != 0:
        bad.append("the fault-free first call did not return the right results: " + json.dumps(r["calls"][0])[:300])
    for k, c in enumerate(cl):
        if c == 9:
            bad.append("call %d returned a wrong/partial result list: %s" % (k, json.dumps(r["calls"][k].get("got"))[:200]))
        if c in (3, 5):
            bad.append("call %d raised %s (%s): not a worker-termination error" % (
                k, r["calls"][k].get("exc"), r["calls"][k].get("msg", "")[:100]))
    if r.get("probe") and r["probe"]["cb_under_lock"]:
        bad.append("%d completion callback(s) ran in a thread that held the executor's shutdown_lock: lock-order inversion "
                   "with Parallel._lock (a dispatching caller holds Parallel._lock and takes shutdown_lock in submit): "
                   "deadlock when a worker dies while the caller is dispatching" % r["probe"]["cb_under_lock"])
    if r.get("stubborn_alive"):
        bad.append("workers %s of the broken executor are still alive after the call raised (they ignore SIGTERM): "
                   "kill_workers did not kill them" % r["stubborn_alive"])
    failing = [k for k in (1, 2, 3) if cl[k] != 0]
    if kind == "none":
        if failing:
            bad.append("a call failed although no fault was injected: %s" % cl)
        return bad, None
    if len(failing) > 1:
        bad.append("one fault made %d calls fail (classes %s): at most one call may fail per fault" % (len(failing), cl))
    if kind in DEATH_IN_TASK and kind != "after_send" and cl[1] == 0:
        bad.append("call 1 returned a result list although the worker running task(s) %s died before "
                   "delivering a result" % s["victims"])
    if kind in UNSERIALIZE and cl[1] == 0:
        bad.append("call 1 returned a result list although task %s could not be (un)serialised" % s["victims"])
    if kind in DEATH_IN_TASK + BETWEEN:
        for k in failing:
            if cl[k] != 1:
                bad.append("call %d failed with %s, expected TerminatedWorkerError" % (k, r["calls"][k].get("exc")))
    if kind == "idle_settled" and r.get("noticed") and not s["managed"] and failing:
        bad.append("idle death already detected, still the next call failed (class %s)" % cl)
    # healing: the call after the failing one (at the latest call 2 and 3) runs on healthy, fresh workers
    first_fail = failing[0] if failing else None
    vp = set(r.get("victim_pids") or [])
    for k in (2, 3):
        if cl[k] == 0 and vp & set(r["calls"][k].get("pids", [])):
            bad.append("call %d ran tasks in a killed worker pid %s" % (k, sorted(vp & set(r["calls"][k]["pids"]))))
    if first_fail is not None and first_fail < 3 and cl[first_fail + 1] == 0:
        before = set(r["calls"][first_fail]["before"]["pids"])
        after = set(r["calls"][first_fail + 1].get("pids", []))
        if before & after:
            bad.append("after the failed call %d the next call reused worker pids %s of the broken executor" % (
                first_fail, sorted(before & after)))
    return bad, None


# -------------------------------------------------------------------- model
REQ = """From Coq Require Import ZArith List Bool.
Require Import JV.Model.LokyExec JV.Model.LokyDrive.
Import ListNotations."""


RACY = ("after_send", "idle_unsettled", "startup_gen", "startup_reduce", "submit_window")
MASKS = ["mask1", "mask2", "mask3", "mask4"]


def variants_for(s, r):
    """schedules of the model that the real run may have followed.  Kinds whose outcome is decided by a
    genuine race (result pipe / next call's start-up vs the manager thread noticing the sentinel) get every
    schedule in which the death is noticed: at once, during the call, after call 1, while call 2 starts,
    after call 2, not within the scenario.  All of them satisfy C10 (at most one failing call, of the
    worker-termination class); the deterministic model cannot choose between them, the OS scheduler does."""
    kind = s["kind"]
    if kind == "after_send":
        return ["plain", "seen"] + MASKS
    if kind == "idle_unsettled" or (kind == "idle_settled" and not r.get("noticed")):
        return ["plain", "unsettled", "late"] + MASKS
    if kind in ("startup_gen", "startup_reduce", "submit_window"):
        return ["plain", "late"] + MASKS
    return ["plain"]


def macros(s, variant):
    n, nj = s["n_tasks"], s["n_jobs"]
    burst = min(n, 2 * nj)
    R = n + 8
    ok_call = ["MCall %d %d []" % (n, burst), "MRounds %d" % R]
    kills = ["MKillIdle %d" % j for j in s["victims"]]
    kind = s["kind"]
    m = (["MWithEnter"] if s["managed"] else []) + ok_call
    if variant == "late":
        # the death is only handled after call 1 returned: same as an idle death after call 1
        call1 = ["MCall 1 1 []", "MRounds %d" % R] if kind == "submit_window" else ok_call
        return "show (drive %d %d [%s])" % (nj, 2 * common.NCPU + 1, "; ".join(m + call1 + kills + ["MMgr 3"] + ok_call + ok_call))
    if variant in MASKS:
        m += ["MMask true"]
    if kind in TRAP:
        trap = "TAfterSendSeen" if variant == "seen" else TRAP[kind]
        tr = "; ".join("(%d, %s)" % (v, trap) for v in s["victims"])
        n1 = s.get("n_tasks1") or n
        if kind == "respawn":
            m += ["MRetireAll"]
        b1 = 2 if kind == "dispatching" else min(n1, burst)     # the death happens after the first two submits
        m += ["MCall %d %d [%s]" % (n1, b1, tr), "MRounds %d" % R]
    elif kind in ("idle_settled", "idle_unsettled"):
        m += kills + (["MMgr 3"] if variant == "plain" else []) + ok_call
    elif kind == "startup_gen":
        m += ["MCall %d 0 []" % n] + kills + ["MDispatch %d" % burst, "MRounds %d" % R]
    elif kind == "submit_window":
        m += ["MCall 1 0 []"] + kills + ["MDispatch 1", "MRounds %d" % R]
    elif kind == "startup_reduce":
        m += ["MCall %d %d []" % (n, burst)] + kills + ["MRounds %d" % R]
    else:
        m += ok_call
    un = ["MMask false", "MMgr 3"]
    if variant == "mask1":
        m += un + ok_call + ok_call
    elif variant == "mask2":
        m += ["MCall %d %d []" % (n, burst), "MMask false", "MRounds %d" % R] + ok_call
    elif variant == "mask3":
        m += ok_call + un + ok_call
    else:
        m += ok_call + ok_call
    return "show (drive %d %d [%s])" % (nj, 2 * common.NCPU + 1, "; ".join(m))


def parse_show(v):
    v = v.replace("%Z", "")
    pairs = [(int(a), int(b)) for a, b in re.findall(r"\((\d+),\s*(\d+)\)", v.split("],")[0] + "]")]
    flags = re.findall(r"\b(true|false)\b", v)
    return {"classes": [a for a, _ in pairs], "lens": [b for _, b in pairs],
            "blocked": flags[-3] == "true", "stuck": flags[-2] == "true", "fresh": flags[-1] == "true"}


def model_predictions(ctx, scenarios, results):
    """for every scenario the set of admissible model outcomes (one, or several when the real run leaves a
    genuine race open: idle death not awaited; death at start-up masked by results that keep arriving)"""
    exprs, owner = [], []
    for i, (s, r) in enumerate(zip(scenarios, results)):
        variants = variants_for(s, r)
        for v in variants:
            exprs.append(macros(s, v))
            owner.append(i)
    vals = ctx.coq_eval_lines(REQ, "", exprs, name="c10_model", shard=12)
    preds = [[] for _ in scenarios]
    for i, v, e in zip(owner, vals, exprs):
        p = parse_show(v)
        p["expr"] = e
        preds[i].append(p)
    return preds


def agrees(s, r, p):
    """model prediction p vs real run r (outcome classes per call, hang, fresh workers)"""
    cl = [klass(c) for c in r["calls"]]
    if p["blocked"]:
        k = len(p["classes"])
        return r["hung_call"] == k and cl[:k] == p["classes"]
    if r["hung_call"] is not None or any(c is None for c in cl):
        return False
    if cl != p["classes"]:
        return False
    n1 = s.get("n_tasks1") or (1 if s["kind"] == "submit_window" else s["n_tasks"])
    want = [n1 if k == 1 else s["n_tasks"] for k in range(len(p["classes"]))]
    if any(c == 0 and ln != w for c, ln, w in zip(p["classes"], p["lens"], want)):
        return False
    if s["kind"] != "none":
        failing = [k for k in (1, 2, 3) if cl[k] != 0]
        if failing and failing[0] < 3:
            before = set(r["calls"][failing[0]]["before"]["pids"])
            after = set(r["calls"][failing[0] + 1].get("pids", []))
            if p["fresh"] != (not (before & after)):
                return False
    return True


# ---------------------------------------------------------------------- run
def judge(ctx, scenarios, results, stats):
    """oracle on every run; returns (violations, hangs, known) lists of (what, replay)"""
    viol, hangs, known = [], [], []
    for i, (s, r) in enumerate(zip(scenarios, results)):
        bad, hang = oracle(s, r)
        stats["kinds"][s["kind"]] = stats["kinds"].get(s["kind"], 0) + 1
        key = "%s/%s" % (s["kind"], "managed" if s["managed"] else "plain")
        stats["classes"].setdefault(key, []).append([klass(c) for c in r["calls"]] + (["hang@%d" % hang["call"]] if hang else []))
        if hang:
            hangs.append((i, s, r, hang))
        for b in bad:
            viol.append((b, {"kind": "oracle", "scenario": s, "calls": r["calls"], "victim_pids": r["victim_pids"]}))
    return viol, hangs, known


def search_failing(ctx):
    sc_ = [s for s in quick_scenarios(ctx.rng) if s["kind"] != "mid_send"][:16]
    res = run_all(ctx, sc_, tag="srch")
    for s, r in zip(sc_, res):
        bad, hang = oracle(s, r)
        if hang:
            return "call %d never returned after a %s fault" % (hang["call"], s["kind"]), {"scenario": s}
        if bad:
            return bad[0], {"scenario": s}
    return None


def run(ctx):
    quick = ctx.tier == "quick"
    trusted = [
        "Coq 8.16.1 kernel (coqc); vm_compute in the Examples, the refutation witness and the model predictions",
        "hand-written model coq/Model/LokyExec.v of process_executor.py / reusable_executor.py / LokyBackend / the "
        "error path of Parallel (modelled, not verified; tied by outcome-level fault injection only: SAMPLING)",
        "OS behaviour is outside the model: a dead process makes its sentinel readable; multiprocessing.connection.wait "
        "returns; pipes deliver whole messages unless the writer dies; pids are not reused within a scenario; latency",
        "fairness: the executor manager thread and the caller thread keep being scheduled",
        "harness: harness/impl/c10_tasks.py (kill instants), the scenario driver Model/LokyDrive.v, the oracle in props/c10.py; "
        "mid-send death is SIMULATED by writing header+half payload to the result pipe and SIGKILL (same OS-visible state)",
    ]
    proofs_ok = ctx.standard_proof_stage("C10", extra_targets=["Model/LokyDrive.vo"], search=lambda: search_failing(ctx))
    scenarios = quick_scenarios(ctx.rng) if quick else (
        quick_scenarios(ctx.rng) + random_scenarios(ctx.rng, 90, allow_midsend=False))
    corpus_path = os.path.join(common.ROOT, "corpus", "c10.jsonl")
    if os.path.exists(corpus_path):
        scenarios = [json.loads(l) for l in open(corpus_path) if l.strip()] + scenarios
    t0 = time.time()
    results = run_all(ctx, scenarios)
    stats = {"kinds": {}, "classes": {}}
    viol, hangs, _ = judge(ctx, scenarios, results, stats)
    # hangs: the known one is classified by its key; any other hang is re-run once (the scenario is
    # deterministic by construction = scripted reproduction); confirmed => VIOLATION, else inconclusive
    inconclusive = 0
    midsend_hangs = 0
    for i, s, r, hang in hangs:
        if s["kind"] == "mid_send" and hang["call"] == 1 and hang["manager_in_recv"]:
            midsend_hangs += 1
            ctx.violation("worker killed in the middle of sending its result: the executor manager thread blocks forever "
                          "in result_reader.recv() and Parallel.__call__ never returns (watchdog %ds)" % s["watchdog"],
                          {"kind": "known-hang", "scenario": s}, finding_key=KEY_MIDSEND)
            continue
        if len([v for v in viol if v[1].get("kind") == "hang"]) >= 3:
            continue
        r2 = run_all(ctx, [s], tag="re%d" % i)[0]
        _, hang2 = oracle(s, r2)
        if hang2:
            viol.append(("call %d never returned after a %s/%s fault (watchdog %d s, reproduced twice); "
                         "manager thread blocked in recv: %s, in wait(): %s" % (
                             hang2["call"], s["kind"], s["how"], s["watchdog"], hang2["manager_in_recv"],
                             hang2["manager_in_wait"]),
                         {"kind": "hang", "scenario": s, "thread_dump": r2["dump"][-2500:]}))
        else:
            inconclusive += 1
            ctx.note("scenario %d (%s) hit the watchdog once and passed on retry: inconclusive" % (i, s["kind"]))
            results[i] = r2
    # model correspondence
    disagreements = []
    n_model = 0
    try:
        preds = model_predictions(ctx, scenarios, results)
        for i, (s, r, ps) in enumerate(zip(scenarios, results, preds)):
            n_model += len(ps)
            if not any(agrees(s, r, p) for p in ps):
                disagreements.append({"scenario": s, "model": [{k: p[k] for k in ("classes", "blocked", "stuck", "fresh")} for p in ps],
                                      "impl": {"classes": [klass(c) for c in r["calls"]], "hung_call": r["hung_call"],
                                               "noticed": r.get("noticed")}, "model_expr": ps[0]["expr"]})
    except RuntimeError as e:
        ctx.note("model evaluation failed: %s" % str(e)[-300:])
        disagreements.append({"scenario": None, "error": str(e)[-500:]})
    # known finding must still reproduce, otherwise the model (which predicts the hang) is stale
    n_midsend = sum(1 for s in scenarios if s["kind"] == "mid_send")
    if n_midsend and midsend_hangs == 0 and not any(d.get("scenario", {}) and d["scenario"].get("kind") == "mid_send" for d in disagreements):
        disagreements.append({"scenario": "mid_send", "error": "the mid-send witness no longer hangs: model stale"})
    for what, rep in viol[:4]:
        ctx.violation(what, rep, True)
    if disagreements and not viol:
        d0 = disagreements[0]
        ctx.violation("model and implementation disagree on %d scenario(s); first: model %s vs real %s" % (
            len(disagreements), json.dumps(d0.get("model"))[:200], json.dumps(d0.get("impl"))[:200]),
            {"kind": "correspondence", "first_disagreement": d0,
             "correspondence": "Model/LokyDrive.drive (pool model) vs outcome classes of the real loky backend"},
            found_input=False)
    nontrivial = set()
    for s, r in zip(scenarios, results):
        cl = [klass(c) for c in r["calls"]]
        if any(c not in (0, None) for c in cl) or r["hung_call"] is not None or (s["kind"] in BETWEEN and r.get("victim_pids")):
            nontrivial.add(json.dumps(s, sort_keys=True))
    ctx.finish({
        "evaluations": len(scenarios),
        "distinct_nontrivial": len(nontrivial),
        "rule": "fault-injection scenarios = (kill instant, signal, victims by task/worker index, n_jobs, with/without "
                "`with Parallel`, list/generator output, small/large arguments); each = 4 consecutive calls in a fresh "
                "interpreter: warm-up, fault call, two follow-up calls. non-trivial = a call raised / hung or a worker was "
                "killed between calls; distinct by canonical JSON of the scenario. THIS IS SAMPLING of the real backend.",
        "samples": [scenarios[0], scenarios[len(scenarios) // 2], scenarios[-1]],
        "traces_validated_against_impl": n_model,
        "model_evaluations": n_model,
        "scenario_kinds": stats["kinds"],
        "outcome_classes_per_kind": {k: [json.dumps(x) for x in v][:6] for k, v in stats["classes"].items()},
        "class_legend": "0 ok list, 1 TerminatedWorkerError, 2 BrokenProcessPool, 3 shutdown error, 5 other exception, 9 wrong list",
        "nested_scenarios": sum(1 for s_ in scenarios if s_.get("nested")),
        "nested_orphans_left_alive_observed": sum(len((r_.get("nested") or {}).get("nested_alive", [])) for r_ in results),
        "nested_orphans_note": "nested loky workers of a killed worker are orphans that nobody kills (kill_process_tree only sees the "
                               "descendants of live workers); they leave on their own idle time-out. Observation, not part of C10; "
                               "the harness kills the whole session of every scenario",
        "hangs_seen": len(hangs), "hangs_known_midsend": midsend_hangs, "inconclusive_timeouts": inconclusive,
        "disagreements": len(disagreements),
        "injection_wall_s": round(time.time() - t0, 1),
        "max_call_latency_s": max([c["secs"] for r in results for c in r["calls"] if c] or [0]),
        "trusted_base": trusted,
        "exhaustive": False,
        "partial": "OS process/pipe semantics and latency are not modelled; the step-level tie is outcome-level only",
    }, assumptions=[
        "OS: a terminated worker makes its sentinel ready in multiprocessing.connection.wait (not modelled)",
        "OS: a message in the result pipe is complete unless its writer died while writing (then: finding F27)",
        "fairness of the manager thread / caller thread scheduling (needed for the bounded-iterations progress theorem)",
        "joblib never cancels a loky future; max_workers constant across the calls (no _resize)",
        "pids are not reused by the OS while a scenario runs",
    ])


def replay(ctx, path):
    obj = json.load(open(path))
    rep = obj.get("replay", obj)
    s = rep.get("scenario") or (rep.get("input") or {}).get("scenario") or (rep.get("first_disagreement") or {}).get("scenario")
    if not isinstance(s, dict):
        print("replay file names a broken proof/correspondence, nothing to execute:", rep.get("kind"))
        return 1
    r = run_all(ctx, [s], tag="replay")[0]
    bad, hang = oracle(s, r)
    cl = [klass(c) for c in r["calls"]]
    print("replay:", json.dumps(s), "-> classes", cl, "hang" if hang else "", "=>",
          ("call %d never returned" % hang["call"]) if hang else (bad[0] if bad else "property holds"))
    return 1 if (bad or hang) else 0
