"""Stage "composed key" of ./check C02 and ./check C06: the key obtained by COMPOSING the models M2 and M3
(coq/Model/MemoryKey.v: key = md5 (stream (filter_args ...))), with md5 instantiated by the executable RFC 1321
implementation Base/C08_MD5.v, is evaluated by Coq (vm_compute) on calls sampled from the scenarios that were just
run on the real joblib.Memory, and compared with the real MemorizedFunc._get_args_id of the same call
(equality of the 32 hex digits; both None when filter_args raises)."""
import os
import struct
import sys

sys.path.insert(0, os.path.dirname(os.path.dirname(os.path.abspath(__file__))))
import common  # noqa: E402

REQ = """From Coq Require Import ZArith List Bool.
Require Import JV.Base.PyPrelude JV.Base.C08_MD5 JV.Model.MemoryKey.
Require JV.Model.FilterArgs JV.Model.HashEnc.
Import ListNotations.
Local Open Scope Z_scope."""
DEFS = """Definition tbl {A} (l : list A) (d : A) (z : Z) : A := nth (Z.to_nat z) l d."""

KIND = {"po": "FA.PosOnly", "pk": "FA.PosOrKw", "va": "FA.VarPos", "ko": "FA.KwOnly", "vk": "FA.VarKw"}


def zl(bs):
    return "[" + "; ".join(str(b) for b in bs) + "]"


def tree(v):
    """my JSON value -> HashEnc.value term; None when outside M3's tree universe"""
    (t, x), = v.items()
    if t == "i":
        return "(HE.VInt (%d))" % int(x)
    if t == "f":
        return "(HE.VFloat %d)" % struct.unpack(">Q", struct.pack(">d", float(x)))[0]
    if t == "b":
        return "(HE.VBool %s)" % ("true" if x else "false")
    if t == "n":
        return "HE.VNone"
    if t == "s":
        return "(HE.VStr %s)" % zl(str(x).encode("utf-8"))
    if t == "y":
        return "(HE.VBytes %s)" % zl(x.encode("latin1"))
    if t in ("t", "l", "S", "F"):
        sub = [tree(e) for e in x]
        if any(s is None for s in sub):
            return None
        return "(HE.%s [%s])" % ({"t": "VTuple", "l": "VList", "S": "VSet", "F": "VFrozenSet"}[t], "; ".join(sub))
    if t == "d":
        items = [(tree(k), tree(w)) for k, w in x]
        if any(a is None or b is None for a, b in items):
            return None
        return "(HE.VDict [%s])" % "; ".join("(%s, %s)" % it for it in items)
    return None


def build(sc, ev):
    """Gallina term `key md5_hex vmap nmap s ign c` for one call event, or None"""
    params = sc["versions"][str(ev[1])].get("params", sc["params"])
    cs = ev[2]
    names = sorted({p[0] for p in params} | {n for n, _ in cs["kw"]})      # integer order = string order
    nid = {n: i for i, n in enumerate(names)}
    vals = []

    def vid(v):
        t = tree(v)
        if t is None:
            raise KeyError
        if t not in vals:
            vals.append(t)
        return vals.index(t)
    try:
        ps = ["(FA.mkParam %s %d %s)" % (KIND[k], nid[n], "None" if d is None else "(Some %d)" % vid(d))
              for n, k, d in params]
        pos = [str(vid(v)) for v in cs["pos"]]
        kw = ["(%d, %d)" % (nid[n], vid(v)) for n, v in cs["kw"]]
    except KeyError:
        return None
    ign = []
    for item in sc["ignore"]:
        ign.append("FA.KStar" if item == "*" else "FA.KStarStar" if item == "**" else "(FA.KName %d)" % nid[item])
    return ("key md5_hex (tbl [%s] HE.VNone) (tbl [%s] []) [%s] [%s] (FA.mkCall [%s] [%s])" % (
        "; ".join(vals), "; ".join(zl(n.encode("utf-8")) for n in names), "; ".join(ps), "; ".join(ign),
        "; ".join(pos), "; ".join(kw)))


def stage(ctx, scs, ress, limit=70):
    picked = []
    for sc, res in zip(scs, ress):
        if sc.get("type") != "sig" or sc.get("py") == "np" or "harness_error" in res:
            continue
        if any(v.get("kind", "def") not in ("def", "nested", "lambda", "async") for v in sc["versions"].values()):
            continue
        if any(e[0] == "recache" or (e[0] in ("call", "shelve", "check") and e[2].get("via")) for e in sc["events"]):
            continue      # the ignore list changes along the history: the term is built from sc["ignore"]      # bound methods hash `self` as an object: outside M3's tree universe
        for ev, r in zip(sc["events"], res["events"]):
            if ev[0] != "call" or "args_id" not in r:
                continue
            if any(len(n) != 1 and n not in ("args", "kw") for n, _ in ev[2]["kw"]):
                pass
            term = build(sc, ev)
            if term is not None:
                picked.append((sc, ev, r, term))
    # a deterministic spread over the scenarios, signatures with known shapes and raising calls included
    step = max(1, len(picked) // limit)
    picked = picked[::step][:limit]
    if not picked:
        return {"composed_key_cases": 0}
    vals = ctx.coq_eval_lines(REQ, DEFS, [p[3] for p in picked], name="composed_key", shard=6, timeout=900)
    bad = []
    n_none = 0
    for (sc, ev, r, term), v in zip(picked, vals):
        if v.strip().startswith("None"):
            model = None
            n_none += 1
        else:
            import re
            model = "".join(chr(int(x)) for x in re.findall(r"\d+", v.replace("%Z", "")))
        if model != r["args_id"]:
            bad.append({"scenario_id": sc["id"], "call": ev[2], "params": sc["params"], "ignore": sc["ignore"],
                        "model_key": model, "real_args_id": r["args_id"]})
    if bad:
        ctx.violation("the composed key (M2 o M3 o md5) differs from the real _get_args_id on %d of %d sampled calls "
                      "(first: model %s, real %s)" % (len(bad), len(picked), bad[0]["model_key"],
                                                      bad[0]["real_args_id"]),
                      {"kind": "correspondence-composed-key", "first": bad[0]}, found_input=False)
    return {"composed_key_cases": len(picked), "composed_key_agree": len(picked) - len(bad),
            "composed_key_raising": n_none}
