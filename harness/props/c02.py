"""C02 -- a Memory-cached function never returns a value belonging to other arguments.

1. build Props/C02.vo (C02_sound over ALL histories under key_sound; necessity of key_sound; F1/F2 witnesses)
   + Print Assumptions;
2. correspondence: generated histories (signature enumeration x call forms x near-colliding values x
   compress settings x shelved references x clears/evictions x fresh processes) run on the real joblib.Memory
   and on the Coq model (Model/MemoryCore.v instantiated by Model/MemoryTab.v with the OBSERVED key classes);
3. independent oracle: every returned value (incl. MemorizedResult.get()) equals what the undecorated twin
   returns for the same call;
4. known findings F1 / F2 replayed; any other wrong value is a VIOLATION.
"""
import os
import sys

sys.path.insert(0, os.path.dirname(os.path.abspath(__file__)))
sys.path.insert(0, os.path.dirname(os.path.dirname(os.path.abspath(__file__))))
import c02_mem_shared as M  # noqa: E402

ASSUMPTIONS = [
    "key_sound: equal digests => equal bindings outside the ignore list (filter_args + hashing.hash; C07/C08). "
    "Refuted on the unchanged tree for signatures with positional-only parameters (F1) and for the default-index "
    "bug shape (F2): listed as known findings",
    "f_respects: the user function is pure and does not depend on ignored parameters",
    "uniform: the source text of the function does not change (changes are C12)",
    "the equality tests of the configuration decide equality (md5/sha1 collision-freeness is part of key_sound)",
]


def run(ctx):
    cov = M.run_property(ctx, "C02")
    ctx.finish(cov, assumptions=ASSUMPTIONS)


def replay(ctx, path):
    return M.replay_property(ctx, "C02", path)
