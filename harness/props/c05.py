"""C05 -- killing the process at any instant never corrupts the Memory cache.

1. build Props/C05.vo (theorems about model M5, coq/Model/FsModel.v) + Print Assumptions;
2. trace correspondence: every workload is run on the real joblib under the file-system shim
   (harness/impl/c05_shim.py, loaded before joblib) and its operation list, outcomes and final
   directory are compared with the model's for the same workload (vm_compute);
3. crash correspondence: for EVERY mutating operation index of every workload trace (and torn
   prefixes of every write) the child is killed there (os._exit(137)), a FRESH interpreter
   calls the function for every key, and crashed directory / outcomes / final directory are
   compared with the model's crash_run + run;
4. every crash run is judged by the independent oracle (plain function value, no exception,
   every final-named output.pkl loads, every final-named metadata.json parses);
5. known findings F23, F24 are replayed.
"""
import concurrent.futures as cf
import json
import os
import re
import shutil
import subprocess
import sys

sys.path.insert(0, os.path.dirname(os.path.dirname(os.path.abspath(__file__))))
import common  # noqa: E402
import gen_c05  # noqa: E402
import translate  # noqa: E402

CHILD = os.path.join(common.ROOT, "harness", "impl", "c05_child.py")
KEY_F23 = "c05:crash-inside-func-dir-rmtree-after-func_code-unlink:stale-entries-served-after-source-change"
KEY_F24 = "c05:torn-func_code-inside-multibyte-utf8-char:UnicodeDecodeError-on-every-later-call"
OPC = {"stat": 0, "mkdir": 1, "creat": 2, "write": 3, "read": 4, "rename": 5, "unlink": 6, "rmdir": 7, "listdir": 8}
ERR = {"ok": 0, "ENOENT": 2, "EEXIST": 17, "ENOTEMPTY": 39, "ENOTDIR": 20}
EXC = {"FileNotFoundError": 1, "KeyError": 2, "ValueError": 3, "UnicodeDecodeError": 3, "OSError": 4,
       "FileExistsError": 5, "NotADirectoryError": 6, "EOFError": 7}
HEADER = "# first line: 3\n"


# ------------------------------------------------------------------ sources
def source(v):
    if v >= 100:
        return "def f(x):\n    CALLS.append(x)\n    return [%d, x]  # café\n" % v
    return "def f(x):\n    CALLS.append(x)\n    return [%d, x]\n" % v


VERSIONS = (1, 2, 3, 100)


def write_mods(base):
    srcs = {v: source(v) for v in VERSIONS}
    for v in VERSIONS:
        d = os.path.join(base, "v%d" % v)
        os.makedirs(d, exist_ok=True)
        with open(os.path.join(d, "vmod.py"), "w", encoding="utf-8") as f:
            f.write("from vhelp import CALLS\nSOURCES = %r\n%s" % (srcs, srcs[v]))
        with open(os.path.join(d, "vhelp.py"), "w") as f:
            f.write("import threading\n\n\nclass _Calls(list):\n    def append(self, x):\n"
                    "        list.append(self, (threading.get_ident(), x))\n\n\nCALLS = _Calls()\n")
    return base


# -------------------------------------------------------------- impl side
def run_child(spec, timeout=120):
    env = common.impl_env()
    p = subprocess.Popen([common.PY, CHILD, json.dumps(spec)], stdout=subprocess.PIPE, stderr=subprocess.PIPE,
                         text=True, env=env, pass_fds=[x for x in (spec.get("rfd"), spec.get("wfd")) if x is not None])
    try:
        out, err = p.communicate(timeout=timeout)
    except subprocess.TimeoutExpired:
        p.kill()
        out, err = p.communicate()
        return {"timeout": True, "pid": p.pid, "stderr": err[-500:]}
    if p.returncode == 137:
        return {"crashed": True, "pid": p.pid}
    line = out.strip().splitlines()[-1] if out.strip() else ""
    try:
        r = json.loads(line)
    except ValueError:
        return {"harness_error": "child rc=%s: %s" % (p.returncode, err[-800:]), "pid": p.pid}
    return r


def child_spec(mods, loc, sess, mode="trace", **kw):
    spec = {"loc": loc, "moddir": os.path.join(mods, "v%d" % sess["v"]), "version": sess["v"], "mode": mode,
            "journal": loc + ".journal", "compress": sess.get("compress", False), "cb": sess.get("cb"),
            "actions": sess["acts"], "state": True, "nkeys": 6, "verbose": sess.get("verbose", 0)}
    spec.update(kw)
    return spec


# ------------------------------------------------------------ canonical forms
P_RE = [
    (re.compile(r"^\.$"), lambda m: (0, 0, 0)),
    (re.compile(r"^\.gitignore$"), lambda m: (1, 0, 0)),
    (re.compile(r"^joblib$"), lambda m: (2, 0, 0)),
    (re.compile(r"^joblib/vmod$"), lambda m: (3, 0, 0)),
    (re.compile(r"^joblib/vmod/f$"), lambda m: (4, 0, 0)),
    (re.compile(r"^joblib/vmod/f/func_code\.py$"), lambda m: (5, 0, 0)),
    (re.compile(r"^joblib/vmod/f/K(\d+)$"), lambda m: (6, int(m.group(1)), 0)),
    (re.compile(r"^joblib/vmod/f/K(\d+)/output\.pkl$"), lambda m: (7, int(m.group(1)), 0)),
    (re.compile(r"^joblib/vmod/f/K(\d+)/metadata\.json$"), lambda m: (8, int(m.group(1)), 0)),
    (re.compile(r"^joblib/vmod/f/K(\d+)/output\.pkl\.T(\d+_\d+)$"), lambda m: (9, int(m.group(1)), m.group(2))),
    (re.compile(r"^joblib/vmod/f/K(\d+)/metadata\.json\.T(\d+_\d+)$"), lambda m: (10, int(m.group(1)), m.group(2))),
]


def pcode(p, pidmap):
    for rx, fn in P_RE:
        m = rx.match(p)
        if m:
            c = fn(m)
            if isinstance(c[2], str):  # "<pid>_<thread id>": translate to the model's writer id
                pid = int(c[2].split("_")[0])
                return (c[0], c[1], pidmap.get(c[2], pidmap.get(pid, 900000 + pid)))
            return c
    return (99, 0, 0)


def canon_log(log, pidmap):
    out = []
    for e in log:
        r = e.get("r")
        names = []
        if isinstance(r, list):
            names = [pcode(x, pidmap) for x in r]
            rc = 0
        else:
            rc = ERR.get(r, 99)
        d = pcode(e["d"], pidmap) if "d" in e else (0, 0, 0)
        out.append((OPC.get(e["op"], 99), pcode(e["p"], pidmap), d, rc, names))
    return out


def canon_outs(results):
    out = []
    for r in results:
        if "raise" in r:
            out.append((2, EXC.get(r["raise"], 9), 0))
        elif r.get("ok") is None:
            out.append((0, 0, 0))
        else:
            v, k = r["ok"]
            out.append((1, v * 1000 + k, 1 if r.get("computed") else 0))
    return out


def canon_state(state, pidmap):
    out = []
    for p, cl in state:
        if cl[0] == "dir":
            c = (0, 0)
        elif cl[0] == "val":
            try:
                c = (1, cl[1][0] * 1000 + cl[1][1])
            except Exception:
                c = (2, 0)
        elif cl[0] == "meta":
            c = (3, 0)
        elif cl[0] == "code":
            c = (4, cl[1])
        elif cl[0] == "git":
            c = (5, 0)
        else:
            c = (2, 0)
        pc = pcode(p, pidmap)
        if pc[0] in (9, 10):
            c = (9, 0)      # the content of a temporary is not compared (a zlib stream minus its checksum byte still loads)
        out.append((pc, c))
    return sorted(out)


# -------------------------------------------------------------- model side
REQ = """From Coq Require Import ZArith List Bool.
Require Import JV.Base.PyPrelude JV.Model.FsModel JV.Model.FsShow.
Import ListNotations. Open Scope Z_scope."""


def coq_acts(acts):
    out = []
    for a in acts:
        if a["a"] == "call":
            out.append("ACall %d" % a["k"])
        elif a["a"] == "shelve":
            out.append("AShelve %d" % a["k"])
        elif a["a"] == "clear":
            out.append("AClear")
        elif a["a"] == "fclear":
            out.append("AFClear")
        elif a["a"] == "reduce":
            out.append("AReduce %s" % common.coq_list("%d" % k for k in a["evicts"]))
        elif a["a"] == "atime":
            continue
        else:
            raise ValueError(a)
    return common.coq_list(out)


def coq_sess(sess, tid):
    cb = {None: "None", "valid": "(Some true)", "invalid": "(Some false)"}[sess.get("cb")]
    return "(Toy.session %d %d %s %s)" % (sess["v"], tid, cb, coq_acts(sess["acts"]))


def parse_coq(s):
    s = s.replace("%Z", "").replace(";", ",")
    return eval(s, {"__builtins__": {}}, {})  # numbers, tuples, lists only (printed by coqc)


def fs_entries(l):
    """Coq prints ((a, b, c), (d, e)) as (a, b, c, (d, e)) (pairs nest to the left)"""
    return sorted(((x[0], x[1], x[2]), (9, 0) if x[0] in (9, 10) else tuple(x[3])) for x in l)


# ---------------------------------------------------------------- workloads
def C(k):
    return {"a": "call", "k": k}


def S(v, acts, **kw):
    d = {"v": v, "acts": acts}
    d.update(kw)
    return d


THOROUGH = [False]


def workloads():
    """name -> (prelude sessions, the workload session, current version, recovery callback)"""
    w = {}
    if THOROUGH[0]:
        sh = lambda k: {"a": "shelve", "k": k}  # noqa: E731
        w["cold_three_keys"] = ([], S(1, [C(1), C(2), C(3), C(2)]), 1)
        w["source_change_three_keys"] = ([S(1, [C(1), C(2), C(3)])], S(2, [C(2), C(1)]), 2)
        w["source_change_twice"] = ([S(1, [C(1), C(2)]), S(2, [C(1)])], S(3, [C(2)]), 3)
        w["source_change_compress"] = ([S(1, [C(1), C(2)], compress=True)], S(2, [C(1)], compress=True), 2)
        w["expires_invalid_compress"] = ([S(1, [C(1), C(2)], cb="valid", compress=True)],
                                         S(1, [C(1), C(2)], cb="invalid", compress=True), 1)
        w["shelve_cold"] = ([], S(1, [sh(1), sh(1), sh(2)]), 1)
        w["shelve_after_source_change"] = ([S(1, [C(1), C(2)])], S(2, [sh(1), sh(2)]), 2)
        w["clear_then_source_change"] = ([S(1, [C(1), C(2)])], S(2, [{"a": "clear"}, C(1), C(2)]), 2)
        w["func_clear_then_calls"] = ([S(1, [C(1), C(2)])], S(1, [{"a": "fclear"}, C(1), C(2), C(1)]), 1)
        w["reduce_one_of_three"] = ([S(1, [C(1), C(2), C(3)])],
                                    S(1, [{"a": "atime", "k": 1, "t": 3000}, {"a": "atime", "k": 2, "t": 1000},
                                          {"a": "atime", "k": 3, "t": 2000},
                                          {"a": "reduce", "items_limit": 2, "evicts": [2]}, C(2)]), 1)
    w["cold"] = ([], S(1, [C(1)]), 1)
    w["warm_same_process"] = ([], S(1, [C(1), C(1), C(2)]), 1)
    w["warm_fresh_process"] = ([S(1, [C(1)])], S(1, [C(1), C(2)]), 1)
    w["source_change"] = ([S(1, [C(1), C(2)])], S(2, [C(1)]), 2)
    w["expires_invalid"] = ([S(1, [C(1), C(2)], cb="valid")], S(1, [C(1)], cb="invalid"), 1)
    w["expires_valid"] = ([S(1, [C(1)], cb="valid")], S(1, [C(1), C(2)], cb="valid"), 1)
    w["shelve"] = ([S(1, [C(1)])], S(1, [{"a": "shelve", "k": 1}, {"a": "shelve", "k": 2}]), 1)
    w["compress"] = ([S(1, [C(1)], compress=True)], S(1, [C(1), C(2)], compress=True), 1)
    w["reduce_size"] = ([S(1, [C(1), C(2), C(3)])],
                        S(1, [{"a": "atime", "k": 1, "t": 1000}, {"a": "atime", "k": 2, "t": 2000},
                              {"a": "atime", "k": 3, "t": 3000},
                              {"a": "reduce", "items_limit": 1, "evicts": [1, 2]}]), 1)
    w["memory_clear"] = ([S(1, [C(1), C(2)])], S(1, [{"a": "clear"}, C(1)]), 1)
    w["memory_clear_same_process"] = ([], S(1, [C(1), {"a": "clear"}, C(1)]), 1)
    # reduce_size with every combination of limits on an EMPTY store (fresh, and emptied by Memory.clear)
    w["reduce_empty"] = ([], S(1, reduce_combos() + [C(1)]), 1)
    w["reduce_after_clear"] = ([S(1, [C(1), C(2)])], S(1, [{"a": "clear"}] + reduce_combos()[3:] + [C(1)]), 1)
    w["func_clear"] = ([S(1, [C(1), C(2)])], S(1, [{"a": "fclear"}, C(2)]), 1)
    return w


def RED(**kw):
    d = {"a": "reduce", "evicts": [], "items_limit": None, "bytes_limit": None, "age_s": None}
    d.update(kw)
    return d


def reduce_combos():
    """every non-empty combination of the three limits (generous: nothing has to be evicted)"""
    return [RED(bytes_limit="1G" if m & 1 else None, items_limit=1000 if m & 2 else None,
                age_s=10 ** 9 if m & 4 else None) for m in range(1, 8)]


RECOVER_KEYS = [1, 2, 3]


class Env:
    def __init__(self, ctx):
        self.ctx = ctx
        self.mods = write_mods(os.path.join(ctx.tmp, "mods"))
        self.n = 0

    def fresh(self, tag):
        self.n += 1
        loc = os.path.join(self.ctx.tmp, "d%s_%d" % (tag, self.n))
        return loc


def copy_dir(src, dst):
    if os.path.isdir(src):
        shutil.copytree(src, dst)
    if os.path.exists(src + ".journal"):
        shutil.copy(src + ".journal", dst + ".journal")


def torn_points(path, n, v):
    """torn prefixes (bytes that still reach the file) for a write of n bytes"""
    pts = {1, -1}                       # negative: counted from the end (lengths of json/pickles vary)
    if path.endswith("func_code.py"):
        pts |= {-(n // 2), len("# first line:"), len("# first line: "), len(HEADER), len(HEADER) + 7}
    if THOROUGH[0]:
        pts |= {2, 3, -2, -3, -(n // 2), -(n // 3), -(2 * n // 3)}
        if path.endswith("func_code.py"):
            pts |= set(range(1, len(HEADER) + 12)) | {-4, -5}
    return sorted(p for p in pts if p < n and p != 0 and -p < n)


def prepare_workload(env, name, wl):
    """run the prelude once (traced), return the snapshot directory, the pid->tid map and the
    traced full run of the workload itself"""
    prelude, sess, cur = wl
    base = env.fresh("base_" + name)
    pidmap = {}
    tid = 0
    pre_runs = []
    for ps in prelude:
        tid += 1
        r = run_child(child_spec(env.mods, base, ps))
        if "results" not in r:
            raise RuntimeError("prelude of %s failed: %s" % (name, r))
        pidmap[r["pid"]] = tid
        pre_runs.append((ps, tid, r))
    full = env.fresh("full_" + name)
    copy_dir(base, full)
    tid += 1
    r = run_child(child_spec(env.mods, full, sess))
    if "results" not in r:
        raise RuntimeError("workload %s failed: %s" % (name, r))
    pm = dict(pidmap)
    pm[r["pid"]] = tid
    return {"name": name, "base": base, "pidmap": pidmap, "pre": pre_runs, "sess": sess, "cur": cur,
            "tid": tid, "full": r, "full_pidmap": pm}


def crash_points(prep):
    pts = []
    k = 0
    for e in prep["full"]["log"]:
        if e["op"] in ("mkdir", "creat", "write", "rename", "unlink", "rmdir"):
            pts.append((k, None, e))
            if e["op"] == "write":
                for j in torn_points(e["p"], e["n"], prep["sess"]["v"]):
                    pts.append((k, j, e))
            k += 1
    pts.append((k, None, {"op": "end", "p": ""}))  # after the last mutation: nothing is lost
    return pts


def run_crash(env, prep, point, recover_cb):
    k, torn, ent = point
    loc = env.fresh("cr_" + prep["name"])
    copy_dir(prep["base"], loc)
    spec = child_spec(env.mods, loc, prep["sess"], mode="crash", crash_at=k, torn=torn, state=False)
    r1 = run_child(spec)
    pidmap = dict(prep["pidmap"])
    pidmap[r1.get("pid", -1)] = prep["tid"]
    comp = prep["sess"].get("compress", False)
    rec = S(prep["cur"], [C(x) for x in RECOVER_KEYS], cb=recover_cb, compress=comp)
    # the crashed directory is read back through every public read path: one interpreter imports joblib,
    # then forks once per path; each fork starts from the restored crashed directory
    snap = loc + ".snap"
    copy_dir(loc, snap)
    variants = [{"tag": "main", "actions": rec["acts"], "cb": recover_cb, "verbose": 0, "compress": comp}]
    sessions = {"main": rec}
    for tag, acts, cb, verb in extra_recoveries():
        variants.append({"tag": tag, "actions": acts, "cb": cb, "verbose": verb, "compress": comp})
        sessions[tag] = S(prep["cur"], acts, cb=cb, compress=comp, verbose=verb)
    rm = run_child(child_spec(env.mods, loc, rec, mode="trace", pre_state=True, variants=variants, snapshot=snap), timeout=300)
    res = rm.get("variants", {})
    r2 = res.get("main", rm)
    pidmap[r2.get("pid", -2)] = prep["tid"] + 1
    xs = []
    for tag, acts, cb, verb in extra_recoveries():
        rx = res.get(tag, rm)
        pm = dict(pidmap)
        pm.pop(r2.get("pid", -2), None)
        pm[rx.get("pid", -3)] = prep["tid"] + 1
        xs.append({"tag": tag, "sess": sessions[tag], "r": rx, "pidmap": pm})
    for d in (loc, snap):
        shutil.rmtree(d, ignore_errors=True)
        if os.path.exists(d + ".journal"):
            os.unlink(d + ".journal")
    return {"point": [k, torn, ent["op"], ent["p"]], "crashed": bool(r1.get("crashed")), "r1": r1, "r2": r2,
            "pidmap": pidmap, "recover": rec, "extras": xs}


def extra_recoveries():
    """(tag, actions, callback, Memory verbosity); 'shelve*' are also compared with the model (AShelve).
    The verbosity levels 0 (main read-back), 1, 3, 11 switch on the printing branches of load_item,
    _cached_call, _call and dump_item."""
    ks = RECOVER_KEYS
    return [
        ("shelve", [{"a": "shelve", "k": k} for k in ks], None, 3),
        ("shelve_cb", [{"a": "shelve", "k": k} for k in ks], "valid", 11),
        ("probe", [x for k in ks for x in ({"a": "check", "k": k}, {"a": "mr", "k": k}, C(k))], None, 11),
        ("probe_cb", [x for k in ks for x in ({"a": "check", "k": k}, {"a": "mr", "k": k}, C(k))], "valid", 3),
        ("shelve_clear", [{"a": "shelve_clear_call", "k": k} for k in ks], None, 1),
        # reduce_size on whatever the crash left (often an empty store), every combination of limits, then calls
        ("reduce", reduce_combos() + [C(k) for k in ks], None, 0),
    ]


MODELLED_EXTRAS = ("shelve", "shelve_cb")


def judge_crash(prep, res):
    """independent oracle: list of (description, is_f23_signature)"""
    bad = []
    r2 = res["r2"]
    if "results" not in r2:
        return [("harness: recovery process failed: %s" % r2, False)]
    cur = prep["cur"]
    pre = {p: c for p, c in r2.get("pre_state", [])}
    for p, c in pre.items():
        if p.endswith("/output.pkl") and c[0] != "val":
            bad.append(("after the crash %s is visible under its final name but does not load" % p, False))
        if p.endswith("/metadata.json") and c[0] != "meta":
            bad.append(("after the crash %s is visible under its final name but is incomplete" % p, False))
    stale_guard_lost = ("joblib/vmod/f/func_code.py" not in pre and
                        any(p.endswith("/output.pkl") and c[0] == "val" and c[1][0] != cur for p, c in pre.items()))
    for k, r in zip(RECOVER_KEYS, r2["results"]):
        if "raise" in r:
            bad.append(("call f(%d) in a fresh process after the crash raised %s: %s" % (k, r["raise"], r.get("msg", "")), False))
        elif r.get("ok") != [cur, k]:
            sig = ("source_change" in prep["name"] and stale_guard_lost and isinstance(r.get("ok"), list)
                   and r["ok"][1] == k and r["ok"][0] != cur)
            bad.append(("call f(%d) in a fresh process after the crash returned %s, the function gives %s"
                        % (k, r.get("ok"), [cur, k]), sig))
    return bad


def judge_extras(prep, res):
    """oracle on the other read paths; same (description, is_f23_signature) convention"""
    bad = []
    cur = prep["cur"]
    for x in res.get("extras", []):
        r = x["r"]
        if "results" not in r:
            bad.append(("harness: read-back process %s failed: %s" % (x["tag"], r), False))
            continue
        pre = {p: c for p, c in r.get("pre_state", [])}
        stale_guard_lost = ("joblib/vmod/f/func_code.py" not in pre and
                            any(p.endswith("/output.pkl") and c[0] == "val" and c[1][0] != cur for p, c in pre.items()))
        acts = x["sess"]["acts"]
        if len(r["results"]) != len(acts):
            bad.append(("read-back %s: the cached function could not be built: %s" % (x["tag"], r["results"]), False))
            continue
        for a, o in zip(acts, r["results"]):
            k = a.get("k", -1)
            what = "%s(%s) [%s, callback=%s] in a fresh process after the crash" % (
                a["a"], k if k >= 0 else "bytes=%s items=%s age=%s" % (a.get("bytes_limit"), a.get("items_limit"), a.get("age_s")),
                x["tag"], x["sess"].get("cb"))
            if "raise" in o:
                bad.append(("%s raised %s: %s" % (what, o["raise"], o.get("msg", "")), False))
            elif a["a"] == "reduce":
                pass                      # returned without raising
            elif a["a"] == "check":
                if not isinstance(o.get("check"), bool):
                    bad.append(("%s did not return a bool: %s" % (what, o), False))
            elif a["a"] == "mr":
                v = o.get("ok")
                if o.get("mr") != "KeyError" and not (isinstance(v, list) and len(v) == 2 and v[1] == k):
                    bad.append(("%s returned %s, not a value of f(%d)" % (what, v, k), False))
            elif o.get("ok") != [cur, k]:
                sig = ("source_change" in prep["name"] and stale_guard_lost and isinstance(o.get("ok"), list)
                       and o["ok"][1] == k and o["ok"][0] != cur)
                bad.append(("%s returned %s, the function gives %s" % (what, o.get("ok"), [cur, k]), sig))
            elif a["a"] == "shelve_clear_call" and o.get("first") != [cur, k]:
                sig = ("source_change" in prep["name"] and stale_guard_lost)
                bad.append(("%s: the shelved reference gave %s, the function gives %s" % (what, o.get("first"), [cur, k]), sig))
    return bad


def model_exprs_for(prep, crash_results, recover_cb):
    """Coq definitions + expressions for one workload: the traced full run and every crash run."""
    name = prep["name"]
    defs = []
    s = "[]"
    tid = 0
    for i, (ps, t, r) in enumerate(prep["pre"]):
        tid = t
        defs.append("Definition %s_p%d : fs := snd (run %s (%s))." % (name, i, coq_sess(ps, t), s))
        s = "%s_p%d" % (name, i)
    defs.append("Definition %s_base : fs := %s." % (name, s))
    w = coq_sess(prep["sess"], prep["tid"])
    defs.append("Definition %s_w := %s." % (name, w))
    exprs = ["(showouts (fst (run %s_w %s_base)), showtrace (trace %s_w %s_base), showfs (snd (run %s_w %s_base)))"
             % ((name,) * 6)]
    rec = coq_sess(S(prep["cur"], [C(x) for x in RECOVER_KEYS], cb=recover_cb), prep["tid"] + 1)
    defs.append("Definition %s_rec := %s." % (name, rec))
    for cr in crash_results:
        k, torn = cr["point"][0], cr["point"][1]
        t = "None" if torn is None else "(Some 1%nat)"
        cdef = "(crash_run %s_w %d %s %s_base)" % (name, k, t, name)
        c = "c"
        sh = []
        for tag, cbv in (("shelve", None), ("shelve_cb", "valid")):
            sh.append("showouts (fst (run %s_%s %s)), showfs (snd (run %s_%s %s))" % (name, tag, c, name, tag, c))
        exprs.append("(let c := %s in (showfs %s, showouts (fst (run %s_rec %s)), showfs (snd (run %s_rec %s)), %s))"
                     % (cdef, c, name, c, name, c, ", ".join(sh)))
    for tag, cbv in (("shelve", None), ("shelve_cb", "valid")):
        defs.append("Definition %s_%s := %s." % (name, tag, coq_sess(
            S(prep["cur"], [{"a": "shelve", "k": x} for x in RECOVER_KEYS], cb=cbv), prep["tid"] + 1)))
    return defs, exprs


def compare_full(prep, m):
    """model (outs, trace, fs) vs the traced implementation run; returns list of mismatch strings"""
    mouts, mtrace, mfs = m
    pm = prep["full_pidmap"]
    r = prep["full"]
    bad = []
    iouts = canon_outs([x for x, a in zip(r["results"], prep["sess"]["acts"]) if a["a"] != "atime"])
    if [tuple(x) for x in mouts] != iouts:
        bad.append("outcomes differ: model %s, implementation %s" % (mouts, iouts))
    itrace = canon_log(r["log"], pm)
    mtrace = [(a, tuple(b), tuple(c), d, [tuple(x) for x in e]) for (a, b, c, d, e) in mtrace]
    if mtrace != itrace:
        n = min(len(mtrace), len(itrace))
        i = next((j for j in range(n) if mtrace[j] != itrace[j]), n)
        bad.append("operation traces differ at index %d of %d/%d: model %s, implementation %s"
                   % (i, len(mtrace), len(itrace), mtrace[i] if i < len(mtrace) else None,
                      itrace[i] if i < len(itrace) else None))
    ifs = canon_state(r["state"], pm)
    mfs = fs_entries(mfs)
    if mfs != ifs:
        bad.append("final directories differ: model-only %s, implementation-only %s"
                   % (sorted(set(mfs) - set(ifs)), sorted(set(ifs) - set(mfs))))
    return bad


def compare_crash(prep, cr, m):
    mpre, mouts, mpost = m[0], m[1], m[2]
    r2 = cr["r2"]
    if "results" not in r2:
        return ["recovery process failed: %s" % r2]
    pm = cr["pidmap"]
    bad = []
    ipre = canon_state(r2["pre_state"], pm)
    mpre = fs_entries(mpre)
    if ipre != mpre:
        bad.append("crashed directories differ: model-only %s, implementation-only %s"
                   % (sorted(set(mpre) - set(ipre)), sorted(set(ipre) - set(mpre))))
    iouts = canon_outs(r2["results"])
    if [tuple(x) for x in mouts] != iouts:
        bad.append("recovery outcomes differ: model %s, implementation %s" % (mouts, iouts))
    ipost = canon_state(r2["state"], pm)
    mpost = fs_entries(mpost)
    if ipost != mpost:
        bad.append("directories after recovery differ: model-only %s, implementation-only %s"
                   % (sorted(set(mpost) - set(ipost)), sorted(set(ipost) - set(mpost))))
    for j, tag in enumerate(MODELLED_EXTRAS):
        x = next((e for e in cr.get("extras", []) if e["tag"] == tag), None)
        if x is None or "results" not in x["r"]:
            bad.append("read-back %s did not run: %s" % (tag, x and x["r"]))
            continue
        xo, xs = m[3 + 2 * j], fs_entries(m[4 + 2 * j])
        io = canon_outs(x["r"]["results"])
        if [tuple(y) for y in xo] != io:
            bad.append("%s outcomes differ: model %s, implementation %s" % (tag, xo, io))
        ist = canon_state(x["r"]["state"], x["pidmap"])
        if ist != xs:
            bad.append("directories after %s differ: model-only %s, implementation-only %s"
                       % (tag, sorted(set(xs) - set(ist)), sorted(set(ist) - set(xs))))
    return bad


DAMAGE_KINDS = ["empty", "zeros", "hole", "garbage", "ff", "half", "minus1", "one", "binget", "longbinget", "proto9", "text",
                "zlibhdr", "zlibcut"]


def damage_probes(env):
    """the safety net "a result that cannot be loaded is recomputed": a final output.pkl / metadata.json with damaged content
    (beyond the crash model: such a file needs a failing disk) must never make a call raise or return a wrong value"""
    base = env.fresh("damage_base")
    r = run_child(child_spec(env.mods, base, S(1, [C(1), C(2)], cb="valid")))
    jobs = []
    for kind in DAMAGE_KINDS:
        for fname in ("output.pkl", "metadata.json"):
            # (call_and_shelve(...).get() on a damaged item raises by design: a reference is not a cached call)
            for cb, verb, how in ((None, 0, "call"), ("valid", 3, "call"), (None, 11, "call")):
                if fname == "metadata.json" and kind not in ("empty", "zeros", "garbage", "half"):
                    continue
                acts = [{"a": "damage", "k": 1, "kind": kind, "file": fname}, {"a": how, "k": 1}, {"a": how, "k": 2}, C(1)]
                jobs.append((kind, fname, S(1, acts, cb=cb, verbose=verb)))

    def one(job):
        kind, fname, sess = job
        d = env.fresh("damage")
        copy_dir(base, d)
        out = run_child(child_spec(env.mods, d, sess))
        shutil.rmtree(d, ignore_errors=True)
        return job, out
    with cf.ThreadPoolExecutor(max(2, common.NCPU // 2)) as ex:
        res = list(ex.map(one, jobs))
    bad = []
    for (kind, fname, sess), out in res:
        rs = out.get("results")
        if not rs or len(rs) != len(sess["acts"]):
            bad.append(("damage probe %s/%s: the session failed: %s" % (kind, fname, out), {"kind": "damage", "session": sess}))
            continue
        for a, o in zip(sess["acts"], rs):
            if a["a"] == "damage":
                continue
            if "raise" in o or o.get("ok") != [1, a["k"]]:
                bad.append(("%s of %s damaged as %r: %s(%d) [callback=%s, verbose=%s] %s instead of recomputing"
                            % (fname, "entry 1", kind, a["a"], a["k"], sess.get("cb"), sess.get("verbose"),
                               ("raised %s: %s" % (o.get("raise"), o.get("msg", "")[:100])) if "raise" in o else "returned %s" % o.get("ok")),
                            {"kind": "damage", "session": sess}))
    return len(jobs), bad


def f24_replay(env):
    """cold call of a function whose source has a 2-byte utf-8 character, func_code.py torn inside it"""
    loc = env.fresh("f24")
    sess = S(100, [C(1)])
    data = (HEADER + source(100)).encode("utf-8")
    j = data.index(b"\xc3") + 1
    tr = run_child(child_spec(env.mods, loc + "_t", sess))
    k = 0
    idx = None
    for e in tr.get("log", []):
        if e["op"] in ("mkdir", "creat", "write", "rename", "unlink", "rmdir"):
            if e["op"] == "write" and e["p"].endswith("func_code.py"):
                idx = k
            k += 1
    r1 = run_child(child_spec(env.mods, loc, sess, mode="crash", crash_at=idx, torn=j, state=False))
    r2 = run_child(child_spec(env.mods, loc, sess, mode="trace", pre_state=True))
    return {"crash_at": idx, "torn": j, "r1": r1, "r2": r2}


def run_one_workload(env, name, wl, quick):
    prep = prepare_workload(env, name, wl)
    rcb = "valid" if "expires" in name else None
    pts = crash_points(prep)
    with cf.ThreadPoolExecutor(max(2, common.NCPU // 3)) as ex:
        crs = list(ex.map(lambda p: run_crash(env, prep, p, rcb), pts))
    return prep, crs, rcb


def source_order_tie(ctx):
    """regenerate coq/Gen/T_store_ops.v from the live source and check it against the lists the model interprets.
    Returns 'ok' | 'translator rejected ...' | 'order differs ...'; the behavioural tie decides in the last two cases."""
    try:
        gen_c05.generate()
    except (translate.TranslateError, SyntaxError, OSError) as e:
        ctx.note("gen_c05: translator rejected _store_backends.py (%s); source-order tie unavailable, behavioural tie only" % e)
        return "translator rejected the source: %s" % e
    ok, log = ctx.coq_build(["Proofs/FsModelGen.vo"])
    if not ok:
        ctx.note("the order of store primitives regenerated from the source differs from the model's statement lists "
                 "(Proofs/FsModelGen.v no longer checks); the behavioural tie decides")
        return "order differs from the model"
    return "ok"


def run(ctx):
    quick = ctx.tier == "quick"
    env = Env(ctx)
    trusted = [
        "Coq 8.16.1 kernel (coqc, full .vo build); vm_compute in the _refuted witnesses, the Examples and the model evaluation",
        "the hand-written model coq/Model/FsModel.v (paths of fixed shape, POSIX-like exec, Memory workloads as programs); "
        "tied to the code by operation-trace equality and by the crash sweep, not by translation",
        "POSIX semantics assumed: rename atomic, unlink/rmdir/mkdir errors as modelled; process death with a surviving kernel "
        "(no power loss, no fsync reasoning); a write reaches the file as a prefix of its bytes",
        "harness/impl/c05_shim.py: wraps open/os.* in the child before joblib is imported, coalesces the writes of one handle "
        "into one write at close, returns directory listings in creation order (side journal) and switches shutil.rmtree to its "
        "path-based stdlib branch; harness/impl/c05_child.py; canonicalisation of paths/outcomes in harness/props/c05.py",
        "writer ids (thread id, pid) of different processes differ; sources are ASCII except in the F24 witness",
    ]
    THOROUGH[0] = not quick
    gen_tie = source_order_tie(ctx)
    proofs_ok = ctx.standard_proof_stage("C05", extra_targets=["Model/FsShow.vo"])
    wls = workloads()
    names = list(wls)
    # each workload: prelude, traced run, every crash point (parallel inside and across workloads)
    with cf.ThreadPoolExecutor(4) as ex:
        done = list(ex.map(lambda n: run_one_workload(env, n, wls[n], quick), names))
    # model
    all_defs, all_exprs, owners = [], [], []
    for prep, crs, rcb in done:
        defs, exprs = model_exprs_for(prep, crs, rcb)
        all_defs += defs
        for i, e in enumerate(exprs):
            all_exprs.append(e)
            owners.append((prep, crs, i))
    vals = ctx.coq_eval_lines(REQ, "\n".join(all_defs), all_exprs, name="c05", shard=24)
    disagreements, oracle_fail, known = [], [], []
    n_crash = n_torn = 0
    dist = {}
    nontrivial = set()
    for (prep, crs, i), v in zip(owners, vals):
        m = parse_coq(v)
        if i == 0:
            for b in compare_full(prep, m):
                disagreements.append({"workload": prep["name"], "stage": "trace", "what": b})
            continue
        cr = crs[i - 1]
        n_crash += 1
        n_torn += cr["point"][1] is not None
        dist[prep["name"]] = dist.get(prep["name"], 0) + 1
        if cr["crashed"]:
            nontrivial.add((prep["name"], cr["point"][0], cr["point"][1]))
        for b in compare_crash(prep, cr, m):
            disagreements.append({"workload": prep["name"], "stage": "crash", "point": cr["point"], "what": b})
        for what, sig in judge_crash(prep, cr) + judge_extras(prep, cr):
            rep = {"kind": "crash", "workload": prep["name"], "prelude": wls[prep["name"]][0], "session": prep["sess"],
                   "crash_at": cr["point"][0], "torn": cr["point"][1], "op": cr["point"][2:], "recover": cr["recover"]}
            if sig:
                known.append((what, rep))
            else:
                oracle_fail.append((what, rep))
    # damaged final files: the load-failure safety net
    n_damage, dbad = damage_probes(env)
    for what, rep in dbad[:3]:
        oracle_fail.append((what, rep))
    # F24 witness
    f24 = f24_replay(env)
    r2 = f24["r2"].get("results", [{}])
    if r2 and r2[0].get("raise") == "UnicodeDecodeError":
        ctx.violation("func_code.py torn inside a 2-byte utf-8 character: the next call raises UnicodeDecodeError",
                      {"kind": "f24", "crash_at": f24["crash_at"], "torn": f24["torn"]}, True, finding_key=KEY_F24)
    else:
        disagreements.append({"workload": "f24", "stage": "witness",
                              "what": "the C05_recover_nonascii_refuted witness no longer fails on the implementation: %s" % r2})
    if known:
        ctx.violation("%d crash points of the source-change workload leave stale entries without func_code.py; e.g. %s"
                      % (len(known), known[0][0]), known[0][1], True, finding_key=KEY_F23)
    else:
        disagreements.append({"workload": "source_change", "stage": "witness",
                              "what": "the C05_recover_source_change_refuted witness no longer fails on the implementation"})
    for what, rep in oracle_fail[:3]:
        ctx.violation(what, rep, True)
    if disagreements and not oracle_fail:
        ctx.violation("model and implementation disagree (%d cases), first: %s" % (len(disagreements), disagreements[0]["what"]),
                      {"kind": "correspondence", "first_disagreement": disagreements[0],
                       "correspondence": "FsModel.session / crash_run vs joblib.Memory under the file-system shim",
                       "n": len(disagreements), "all": disagreements[:12]}, found_input=False)
    sample = done[0][1][1] if len(done[0][1]) > 1 else None
    ctx.finish({
        "evaluations": n_crash + len(done),
        "distinct_nontrivial": len(nontrivial),
        "tier_depth": "thorough: 10 more workloads (3 keys, two source changes, compress x source change / invalidation, shelving "
                      "cold and after a source change, clear followed by a source change, partial eviction) and torn prefixes at every "
                      "byte of the func_code.py header + 2,3,n-2,n-3,n/3,2n/3 of every write" if not quick else "quick",
        "rule": "12 workloads (cold, warm same/fresh process, source change, expires_after invalid/valid, call_and_shelve, "
                "compress=True, reduce_size, Memory.clear in a fresh and in the writing process, MemorizedFunc.clear); the child is killed before EVERY mutating "
                "operation index of the workload trace, plus torn prefixes {1, n/2, n-1, header boundaries of func_code.py} of every "
                "write, plus after the last operation; read-back = 6 fresh interpreters per crash point, each on its own copy of "
                "the crashed directory, for keys 1,2,3: f(k); call_and_shelve(k).get() without / with expires_after (these three are "
                "also compared with the model); check_call_in_cache(k) + MemorizedResult built from the store + f(k), without / "
                "with callback; call_and_shelve(k).get(), .clear(), f(k). non-trivial = the child really died at that point; "
                "distinct by (workload, index, torn prefix)",
        "samples": [{"workload": done[0][0]["name"], "point": sample["point"] if sample else None,
                     "recovery": sample["r2"].get("results") if sample else None}],
        "traces_validated_against_impl": len(done),
        "damage_probes": n_damage,
        "crash_runs": n_crash, "torn_runs": n_torn, "read_back_processes": n_crash * 6, "crash_runs_per_workload": dist,
        "model_evaluations": len(vals),
        "disagreements": len(disagreements),
        "source_order_tie": gen_tie,
        "trusted_base": trusted,
        "exhaustive": "every operation index of every listed workload trace",
    }, assumptions=[
        "unpickle (pickle v) = Some v for the pickler/compressor in use",
        "every prefix of the function's source decodes as utf-8 (ASCII source) -- otherwise finding F24",
        "all sessions in a history use the same source version -- otherwise finding F23 (stale entries after a crash inside "
        "the source-change clear); C05_atomic_visible holds for any mix of versions",
        "writer ids (thread id, pid) of different processes differ",
        "process death only: the kernel survives, rename is atomic, a torn write leaves a prefix",
        "the initial directory satisfies the invariant (e.g. is empty or was produced by joblib)",
    ])


def replay(ctx, path):
    obj = json.load(open(path))
    rep = obj.get("replay", obj)
    env = Env(ctx)
    if rep.get("kind") == "f24":
        f24 = f24_replay(env)
        r = f24["r2"].get("results")
        print("replay f24:", r)
        return 1 if r and "raise" in r[0] else 0
    if rep.get("kind") == "damage":
        d = env.fresh("replay_damage")
        run_child(child_spec(env.mods, d, S(1, [C(1), C(2)], cb="valid")))
        out = run_child(child_spec(env.mods, d, rep["session"]))
        bad = [o for a, o in zip(rep["session"]["acts"], out.get("results", []))
               if a["a"] != "damage" and ("raise" in o or o.get("ok") != [1, a["k"]])]
        print("replay damage:", out.get("results"), "=>", bad or "property holds")
        return 1 if bad or "results" not in out else 0
    if rep.get("kind") != "crash":
        print("replay file names a broken proof/correspondence, nothing to execute:", rep.get("kind"))
        return 1
    base_dir = env.fresh("replay_base")
    pidmap, tid = {}, 0
    for ps in rep["prelude"]:
        tid += 1
        r = run_child(child_spec(env.mods, base_dir, ps))
        pidmap[r.get("pid", -tid)] = tid
    prep = {"name": rep["workload"], "base": base_dir, "pidmap": pidmap, "sess": rep["session"],
            "cur": rep["recover"]["v"], "tid": tid + 1}
    cr = run_crash(env, prep, (rep["crash_at"], rep["torn"], {"op": rep["op"][0], "p": rep["op"][1]}), rep["recover"].get("cb"))
    bad = judge_crash(prep, cr) + judge_extras(prep, cr)
    print("replay:", json.dumps(rep)[:300], "->", cr["r2"].get("results"), "=>", [b[0] for b in bad] or "property holds")
    return 1 if bad else 0
