"""C12 -- a cached function never returns a value computed by different source code; a still-referenced older
definition keeps returning its own values; unchanged code keeps its cache across sessions.

1. build Props/C12.vo (C12_sound_refuted: F10; C12_sound_refuted_same_file; C12_sound_partial over all
   admissible histories; C12_unchanged_kept) + Print Assumptions;
2. correspondence: histories of Define / Wrap / Call / Check / ClearMem / NewProcess over 2-3 versions of a
   same-named function (module-level def, nested def, lambda, __main__; one file or one file per version;
   versions that share their text) executed by a driver that writes real module files, executes them, keeps
   the old function objects alive and spawns fresh interpreters -- against the Coq model, event by event, and
   [admissible] against its Python twin;
3. independent oracle: every value carries the tag of the code that computed it: a call of version k must
   return k's own tag; a repeated call with no different text in between must not execute the function;
4. known findings: F10 and the rewritten-source-file history, recognised by the admissibility clause that
   the history breaks; a wrong version in an admissible history is a VIOLATION.
"""
import os
import sys

sys.path.insert(0, os.path.dirname(os.path.abspath(__file__)))
sys.path.insert(0, os.path.dirname(os.path.dirname(os.path.abspath(__file__))))
import c02_mem_shared as M  # noqa: E402

ASSUMPTIONS = [
    "admissible history (C12_sound_partial, C12_unchanged_kept): within one process a function object is not used "
    "after its source file was overwritten by different text, nor after an object of different text was used since "
    "its own last use. Outside this fragment the property is refuted (F10, rewritten source file): known findings",
    "key_sound / key_complete / f_respects for the argument key (trivial here: one int argument)",
    "versions sharing a source file start at the same line; func.__code__ is not swapped",
]


def run(ctx):
    import c12_codecheck
    cov = M.run_property(ctx, "C12")
    # unit-level stage: _check_previous_func_code (slow path) vs the Coq decision procedure [decide]
    cov.update(c12_codecheck.stage(ctx))
    cov["evaluations"] += cov.get("codecheck_cases", 0)
    cov["traces_validated_against_impl"] += cov.get("codecheck_model_evaluations", 0)
    ctx.finish(cov, assumptions=ASSUMPTIONS)


def replay(ctx, path):
    import json
    import c12_codecheck
    rep = json.load(open(path)).get("replay", {})
    if "codecheck_case" in rep:
        return c12_codecheck.replay_case(rep["codecheck_case"])
    return M.replay_property(ctx, "C12", path)
