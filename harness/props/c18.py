"""C18 -- reduce_size evicts the minimal LRU prefix.

1. regenerate coq/Gen/T_items_to_delete.v from the live source (translator, fail-closed);
2. build Props/C18.vo (theorems are about the regenerated function) + Print Assumptions;
3. correspondence: real StoreBackendMixin._get_items_to_delete (stub store) and real
   Memory.reduce_size (real directory) vs the Coq functions (translated AND hand model),
   on generated stores; every case is also judged by an independent Python oracle
   (shortest stable-LRU prefix meeting all limits) which is what decides a violation.
"""
import json
import re
import os
import sys

sys.path.insert(0, os.path.dirname(os.path.dirname(os.path.abspath(__file__))))
import common  # noqa: E402
import gen_c18  # noqa: E402
import translate  # noqa: E402

UNITS = {"K": 1024, "M": 1024 ** 2, "G": 1024 ** 3}


# ------------------------------------------------------------------ oracle
def oracle(items, bl, il, al, now):
    """Independent statement of the property: shortest prefix of the stably sorted store
    whose complement meets all limits.  items: [path,size,atime]."""
    if isinstance(bl, str):
        if bl[-1] not in UNITS:
            return {"raise": "ValueError"}
        try:
            bl = int(UNITS[bl[-1]] * float(bl[:-1]))
        except ValueError:
            return {"raise": "ValueError"}
    if not items:
        return {"ok": []}
    if al is not None and al < 0:
        return {"raise": "ValueError"}
    s = sorted(items, key=lambda it: it[2])  # stable

    def ok(rest):
        return ((bl is None or sum(r[1] for r in rest) <= bl) and (il is None or len(rest) <= il)
                and (al is None or all(now - al < r[2] for r in rest)))
    for k in range(len(s) + 1):
        if ok(s[k:]):
            return {"ok": [it[0] for it in s[:k]]}
    return {"ok": [it[0] for it in s]}


# --------------------------------------------------------------- generator
def gen_unit(rng, n_cases):
    cases = []
    for _ in range(n_cases):
        n = rng.choice([0, 1, 2, 3, 3, 4, 5, 6, 8])
        tmax = rng.choice([2, 4, 10])
        items = [[i + 1, rng.choice([0, 0, 1, 5, 10, 1000, 1024, 2048]), rng.randint(0, tmax)] for i in range(n)]
        total = sum(i[1] for i in items)
        now = tmax + rng.randint(0, 3)
        blc = [None, None, 0, total, total - 1, total + 1, rng.randint(0, max(total, 1)),
               rng.randint(0, max(total, 1)), "1K", "2K", "0K", "1M"]
        if rng.random() < 0.03:
            blc = ["3X", "K1", -5]
        bl = rng.choice(blc)
        il = rng.choice([None, None, 0, 1, n - 1 if n else 0, n, n + 1, rng.randint(0, n + 1)])
        al = rng.choice([None, None, 0, 1, now - rng.randint(0, tmax), now - rng.randint(0, tmax) + 1, now + 5,
                         -1 if rng.random() < 0.2 else 2])
        cases.append({"mode": "unit", "items": items, "bl": bl, "il": il, "al": al, "now": now})
    # size strings with a fractional mantissa ('1.7K' = 1740.8 bytes is the limit 1740) and stores within two bytes of it
    for _ in range(max(30, n_cases // 12)):
        mant = rng.choice(["0.5", "0.7", "1.7", "1.5", "2.25", "0.999", "1.001", "3.9", "0.1", "1.4", "2.6"])
        unit = rng.choice(["K", "K", "K", "M"])
        limit = int(UNITS[unit] * float(mant))
        n = rng.choice([1, 2, 3, 4, 5])
        total = max(0, limit + rng.choice([-2, -1, 0, 1, 1, 2, 7]))
        cuts = sorted(rng.randint(0, total) for _ in range(n - 1))
        sizes = [b - a for a, b in zip([0] + cuts, cuts + [total])]
        tmax = rng.choice([2, 4, 10])
        items = [[i + 1, sz, rng.randint(0, tmax)] for i, sz in enumerate(sizes)]
        cases.append({"mode": "unit", "items": items, "bl": mant + unit, "il": rng.choice([None, None, n, n - 1]),
                      "al": None, "now": tmax + 1})
    return cases


def gen_e2e(rng, n_cases):
    cases = []
    for _ in range(n_cases):
        n = rng.choice([1, 2, 3, 4, 5, 6])
        tmax = rng.choice([3, 6])
        entries = [[i + 1, rng.choice([0, 1, 50, 500, 3000]), rng.randint(0, tmax) * 1000] for i in range(n)]
        now = tmax * 1000 + rng.randint(0, 2) * 1000
        bl = rng.choice([None, 0, 200, 400, 700, 1500, 4000, "1K", "3K"])
        il = rng.choice([None, 0, 1, 2, n - 1, n, n + 1])
        al = rng.choice([None, None, 0, 1000, 2500, now, now + 1000])
        if bl is None and il is None and al is None:
            il = n - 1
        orphans = []
        if rng.random() < 0.5:
            orphans = [[rng.choice(["empty", "meta"]), rng.randint(0, tmax) * 1000 + 500] for _ in range(rng.choice([1, 1, 2, 3]))]
        stale = []
        if rng.random() < 0.4:
            for _ in range(rng.choice([1, 1, 2])):
                stale.append([rng.randrange(n), rng.choice([1, 300, 2000]),
                              rng.choice(["output.pkl.thread-139872-pid-4242", "metadata.json.thread-139872-pid-4242",
                                          "output.pkl.thread-1-pid-7", "extra.bin"])])
        nested = []
        if rng.random() < 0.3:
            nested = [[100 + j, rng.choice([0, 50, 500]), rng.randint(0, tmax) * 1000] for j in range(rng.choice([1, 2]))]
        vanish = rng.choice([None, None, 0, 1, 2])     # the k-th deletion finds a stale folder: deleted, then OSError(ESTALE)
        cases.append({"mode": "e2e", "entries": entries, "orphans": orphans, "bl": bl, "il": il, "al": al, "now": now,
                      "vanish": vanish, "stale": stale, "nested": nested, "symlink": rng.random() < 0.25, "loc": rng.choice(["abs", "abs", "hex", "rel", "relsub"]),
                      "base": rng.choice(["2020", "2020", "epoch"]), "verbose": rng.choice([0, 0, 0, 1, 11, 60])})
    return cases


# fixed end-to-end witnesses (run first): the least recently used entry was last read at the EPOCH itself (access time
# exactly 0.0: a cache restored from an archive with zeroed timestamps) and one entry has to go; the same store with the
# chattiest verbosity (every deletion is reported on the way); a store where everything has to go
FIXED_E2E = [
    {"mode": "e2e", "entries": [[1, 50, 2000], [2, 50, 0], [3, 50, 1000], [4, 50, 3000]], "orphans": [], "bl": None, "il": 3,
     "al": None, "now": 4000, "vanish": None, "stale": [], "nested": [], "symlink": False, "loc": "abs", "base": "epoch", "verbose": 0},
    {"mode": "e2e", "entries": [[1, 50, 2000], [2, 50, 0], [3, 50, 1000], [4, 50, 3000]], "orphans": [], "bl": None, "il": 2,
     "al": None, "now": 4000, "vanish": None, "stale": [], "nested": [], "symlink": False, "loc": "abs", "base": "2020", "verbose": 60},
    {"mode": "e2e", "entries": [[1, 500, 1000], [2, 0, 0]], "orphans": [["meta", 500]], "bl": 0, "il": None,
     "al": None, "now": 2000, "vanish": None, "stale": [], "nested": [], "symlink": False, "loc": "rel", "base": "epoch", "verbose": 11},
]


# ------------------------------------------------------------------- model
def opt(v):
    return "None" if v is None else "(Some %s)" % common.zlit(v)


def model_expr(fn, items, bl, il, al, now):
    its = common.coq_list("{| ipath := %s; isize := %s; iatime := %s |}" % tuple(map(common.zlit, it)) for it in items)
    if isinstance(bl, str):
        try:
            mant = int(bl[:-1])
        except ValueError:
            m = re.fullmatch(r"(\d+)\.(\d{1,3})", bl[:-1])
            if not m:
                return None  # not a plain decimal: outside the model (float parsing)
            num, den = int(m.group(1) + m.group(2)), 10 ** len(m.group(2))
            return ("show (bind (memstr_to_bytes_dec %d %d %d) (fun b => %s %s %s (Some b) %s %s))"
                    % (num, den, ord(bl[-1]), fn, common.zlit(now), its, opt(il), opt(al)))
        return ("show (bind (memstr_to_bytes_int %s %d) (fun b => %s %s %s (Some b) %s %s))"
                % (common.zlit(mant), ord(bl[-1]), fn, common.zlit(now), its, opt(il), opt(al)))
    return "show (%s %s %s %s %s %s)" % (fn, common.zlit(now), its, opt(bl), opt(il), opt(al))


REQ = """From Coq Require Import ZArith List Bool.
Require Import JV.Base.PyPrelude JV.Model.ReduceSize%s.
Import ListNotations. Open Scope Z_scope."""
DEFS = """Definition show (r : result (list item)) : Z * list Z :=
  match r with Ok l => (0, map ipath l) | Raise ValueError => (1, []) | Raise _ => (2, []) end."""


def parse_model(s):
    s = s.replace("%Z", "")
    tag = int(s[1:s.index(",")].strip().strip("()"))
    if tag == 1:
        return {"raise": "ValueError"}
    if tag == 2:
        return {"raise": "other"}
    body = s[s.index("[") + 1:s.rindex("]")].strip()
    return {"ok": [int(x.strip().strip("()")) for x in body.split(";")] if body else []}


TZS = [None, "Etc/GMT-6", "Etc/GMT+5", "Asia/Kolkata"]


def run_impl_cases(cases, timeout=1800):
    """the cases are dealt round-robin to child interpreters running under different time zones (the TZ variable,
    recorded in the case as "tz"): access times and 'now' are local times of the same clock, so the zone must not
    matter"""
    lines = [None] * len(cases)
    for i, c in enumerate(cases):
        c.setdefault("tz", TZS[i % len(TZS)])
    for tz in TZS:
        idx = [i for i, c in enumerate(cases) if c["tz"] == tz]
        if not idx:
            continue
        env = common.impl_env()
        if tz is None:
            env.pop("TZ", None)
        else:
            env["TZ"] = tz
        rc, out, err = common.run_impl("c18_impl.py", input_text="\n".join(json.dumps(cases[i]) for i in idx) + "\n",
                                       timeout=timeout, env=env)
        got = [json.loads(l) for l in out.splitlines() if l.strip()]
        if len(got) != len(idx):
            raise RuntimeError("c18_impl produced %d results for %d cases: %s" % (len(got), len(idx), err[-2000:]))
        for i, g in zip(idx, got):
            lines[i] = g
    return lines


def judge_unit(c, r):
    """property oracle on one implementation result; returns a description or None"""
    exp = oracle(c["items"], c["bl"], c["il"], c["al"], c["now"])
    if "harness_error" in r:
        return "harness error " + r["harness_error"]
    if exp != r:
        return "real _get_items_to_delete returned %s, the minimal LRU prefix is %s" % (r, exp)
    return None


def judge_e2e(c, r):
    if "harness_error" in r:
        return "harness error " + r["harness_error"]
    if "fs_items" in r and sorted(r["fs_items"]) != sorted(r["items"]):
        return "get_items() does not list the store: it reports %s, the directory tree holds %s ([id,size,atime]; negative id = " \
               "entry directory without output.pkl)" % (sorted(r["items"]), sorted(r["fs_items"]))
    exp = oracle(r.get("fs_items", r["items"]), c["bl"], c["il"], c["al"], c["now"])
    if "raise" in exp or "raise" in r:
        return None if exp.get("raise") == r.get("raise") else "expected %s got %s" % (exp, r)
    evicted = set(exp["ok"])
    should_survive = sorted(a for a, _, _ in c["entries"] if a not in evicted)
    all_ids = [a for a, _, _ in c["entries"]] + [-(i + 1) for i in range(len(c.get("orphans", [])))] + \
        [g for g, _, _ in c.get("nested", [])]
    dirs_should = sorted(a for a in all_ids if a not in evicted)
    if r["dirs_left"] != dirs_should or r["survivors"] != should_survive:
        return "after reduce_size survivors=%s dirs=%s, expected survivors %s dirs %s (store: %s)" % (
            r["survivors"], r["dirs_left"], should_survive, dirs_should, r.get("fs_items", r["items"]))
    at = {i: t for i, _, t in r.get("fs_items", [])}
    times = [at.get(i) for i in r.get("deleted_order", []) if i in at]
    if times != sorted(times):
        return "reduce_size removed the entries in the order %s (access times %s): not oldest first -- an interrupted run would " \
               "have kept older entries than it removed" % (r["deleted_order"], times)
    if not r["values_ok"]:
        return "a cached call returned a wrong value after reduce_size"
    if r["recomputed"] != sorted(a for a in evicted if 0 < a < 100):
        return "recomputed %s but evicted %s" % (r["recomputed"], sorted(evicted))
    return None


def search_failing(ctx, n=4000):
    cases = gen_unit(ctx.rng, n)
    res = run_impl_cases(cases)
    for c, r in zip(cases, res):
        bad = judge_unit(c, r)
        if bad:
            return bad, c
    return None


def run(ctx):
    quick = ctx.tier == "quick"
    trusted = [
        "Coq 8.16.1 kernel (coqc); vm_compute used in the Example and in the cases evaluation; no native_compute",
        "harness/translate.py (fail-closed Python-ast -> Gallina translator) and its per-function table in gen_c18.py: "
        "time is integer ticks, timedelta.total_seconds() is the identity, datetime.now() is the parameter `now`, "
        "`items = self.get_items()` is a parameter, the str branch of bytes_limit is modelled by memstr_to_bytes_int",
        "Base/PyPrelude.sort_by models list.sort(key=...) (stable); item sizes are assumed non-negative",
        "modelled, not verified: os.walk/getatime/getsize in get_items, rmtree in clear_location (exercised end to end)",
    ]
    # 1. regenerate
    translator_ok = True
    try:
        _, changed, skipped = gen_c18.generate()
        if changed:
            ctx.note("Gen/T_items_to_delete.v changed: the source of _get_items_to_delete differs from the last run")
    except translate.TranslateError as e:
        translator_ok = False
        ctx.note("translator rejected the source (%s); falling back to the hand model tie" % e)
    # 2. proofs
    proofs_ok = ctx.standard_proof_stage("C18", search=lambda: search_failing(ctx))
    # 3. correspondence
    n_unit = 1500 if quick else 20000
    n_e2e = 40 if quick else 400
    unit = gen_unit(ctx.rng, n_unit)
    e2e = FIXED_E2E + gen_e2e(ctx.rng, n_e2e)
    # corpus first
    corpus_path = os.path.join(common.ROOT, "corpus", "c18.jsonl")
    if os.path.exists(corpus_path):
        unit = [json.loads(l) for l in open(corpus_path) if l.strip()] + unit
    res_u = run_impl_cases(unit)
    res_e = []
    # e2e in parallel chunks
    import concurrent.futures as cf
    chunks = [e2e[i::8] for i in range(8)]
    with cf.ThreadPoolExecutor(8) as ex:
        outs = list(ex.map(lambda ch: run_impl_cases(ch) if ch else [], chunks))
    res_e = [None] * len(e2e)
    for k, ch in enumerate(chunks):
        for j, r in enumerate(outs[k]):
            res_e[k + 8 * j] = r
    disagreements = []
    oracle_fail = []
    kinds = {}
    nontrivial = set()
    for c, r in zip(unit, res_u):
        bad = judge_unit(c, r)
        k = "raise" if "raise" in r else ("empty" if not r.get("ok") else ("all" if len(r["ok"]) == len(c["items"]) else "partial"))
        kinds[k] = kinds.get(k, 0) + 1
        if k in ("partial", "all"):
            nontrivial.add(json.dumps(c, sort_keys=True))
        if bad:
            oracle_fail.append((bad, c, r))
    for c, r in zip(e2e, res_e):
        bad = judge_e2e(c, r)
        if bad:
            oracle_fail.append((bad, c, r))
        elif r.get("recomputed"):
            nontrivial.add(json.dumps(c, sort_keys=True))
    # model side (both the translated function and the hand model)
    model_cases = [(i, c) for i, c in enumerate(unit)]
    fns = ["items_to_delete_model"] + (["get_items_to_delete"] if os.path.exists(
        os.path.join(common.COQ, "Gen", "T_items_to_delete.vo")) else [])
    n_model = 0
    for fn in fns:
        exprs, idx = [], []
        for i, c in model_cases:
            e = model_expr(fn, c["items"], c["bl"], c["il"], c["al"], c["now"])
            if e is not None:
                exprs.append(e)
                idx.append(i)
        req = REQ % (" JV.Gen.T_items_to_delete" if fn == "get_items_to_delete" else "")
        vals = ctx.coq_eval_lines(req, DEFS, exprs, name="c18_" + fn)
        n_model += len(vals)
        for i, v in zip(idx, vals):
            m = parse_model(v)
            if m != res_u[i]:
                disagreements.append({"function": fn, "case": unit[i], "model": m, "impl": res_u[i]})
    # e2e: model on the store as the implementation saw it
    exprs = [model_expr("items_to_delete_model", r["items"], c["bl"], c["il"], c["al"], c["now"])
             for c, r in zip(e2e, res_e) if "items" in r]
    vals = ctx.coq_eval_lines(REQ % "", DEFS, exprs, name="c18_e2e")
    n_model += len(vals)
    j = 0
    for c, r in zip(e2e, res_e):
        if "items" not in r:
            continue
        m = parse_model(vals[j])
        j += 1
        if "raise" in m or "raise" in r:
            if m.get("raise") != r.get("raise"):
                disagreements.append({"function": "reduce_size", "case": c, "model": m, "impl": r})
            continue
        all_ids = [a for a, _, _ in c["entries"]] + [-(i + 1) for i in range(len(c.get("orphans", [])))] + \
            [g for g, _, _ in c.get("nested", [])]
        exp = sorted(a for a in all_ids if a not in set(m["ok"]))
        if exp != r["dirs_left"]:
            disagreements.append({"function": "reduce_size", "case": c, "model": m, "impl": r})
    # decide
    for bad, c, r in oracle_fail[:3]:
        ctx.violation(bad, {"kind": "oracle", "case": c, "impl": r}, True)
    if disagreements and not oracle_fail:
        hit = search_failing(ctx, 20000 if not quick else 6000)
        if hit:
            ctx.violation(hit[0], {"kind": "model-disagreement+failing-input", "case": hit[1],
                                   "first_disagreement": disagreements[0]}, True)
        else:
            ctx.violation("model and implementation disagree (%d cases)" % len(disagreements),
                          {"kind": "correspondence", "first_disagreement": disagreements[0],
                           "correspondence": "items_to_delete_model / get_items_to_delete vs _get_items_to_delete"},
                          found_input=False)
    if not translator_ok and not disagreements and not oracle_fail and proofs_ok:
        ctx.note("translator tie lost, hand-model tie intact on %d cases" % len(unit))
    ctx.finish({
        "evaluations": len(unit) + len(e2e),
        "distinct_nontrivial": len(nontrivial),
        "rule": "unit stores of 0-8 items (sizes {0,1,5,10,1000,1024,2048}, access times with ties) x limit "
                "combinations around the boundaries incl. 'K'/'M' strings and invalid ones; end-to-end runs on a real "
                "Memory directory with os.utime-set access times. non-trivial = at least one item evicted; distinct by "
                "canonical JSON of the case",
        "samples": [unit[0], unit[len(unit) // 2], e2e[0]],
        "traces_validated_against_impl": n_model,
        "model_evaluations": n_model,
        "outcome_distribution": kinds,
        "disagreements": len(disagreements),
        "translator_ok": translator_ok,
        "trusted_base": trusted,
        "exhaustive": False,
    }, assumptions=["item sizes are non-negative", "POSIX atime semantics as set by os.utime",
                    "no concurrent writer during reduce_size (as the property states)"])


def replay(ctx, path):
    obj = json.load(open(path))
    rep = obj.get("replay", obj)
    c = rep.get("case") or rep.get("input")
    if not c:
        print("replay file names a broken proof/correspondence, nothing to execute:", rep.get("kind"))
        return 1
    r = run_impl_cases([c])[0]
    bad = judge_unit(c, r) if c["mode"] == "unit" else judge_e2e(c, r)
    print("replay:", json.dumps(c), "->", json.dumps(r), "=>", bad or "property holds")
    return 1 if bad else 0
