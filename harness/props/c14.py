"""C14 -- truncated or over-long files make load fail cleanly: never hang, never lie.

1. build Props/C14.vo (termination of every history on every file, prefix / exact-payload
   theorems, _read_bytes, refutation of the pre-fix loop) + Print Assumptions;
2. file-object layer (the part that is joblib's own code and is modelled, M6): every truncation
   length of small zlib/gzip streams, boundary-biased ones of a multi-block stream, trailers
   {1 byte, 9 bytes, a second stream, 8192 bytes}: real BinaryZlibFile/BinaryGzipFile vs the Coq
   model on the recorded decompressor script (return values + internal state), the recorded script
   of every cut file is checked to be a `truncation_of` the original script (the hypothesis the
   prefix theorem uses), and the PRE-FIX model is run on the trailer files to show it spins;
3. load layer, all compressors available (raw, zlib, gzip, bz2, lzma, xz): joblib.load of every
   truncation (all lengths for files < 4 KiB, boundary-biased otherwise) and of the trailers under
   a watchdog; outcomes {equal, raises, different-object (VIOLATION), hang (VIOLATION)}; for
   zlib/gzip/raw the outcome is also compared with the model's prediction (equal iff the whole
   payload is delivered);
4. _read_bytes on file objects with short reads vs the model and an oracle;
5. Memory: output.pkl of a real cache entry is truncated / extended; the cached call must return
   the right value (recomputing when the entry is damaged) and leave a usable entry behind.
"""
import json
import os
import re
import select
import subprocess
import sys
import threading
import time

sys.path.insert(0, os.path.dirname(os.path.dirname(os.path.abspath(__file__))))
sys.path.insert(0, os.path.dirname(os.path.abspath(__file__)))
sys.path.insert(0, os.path.join(os.path.dirname(os.path.dirname(os.path.abspath(__file__))), "impl"))
import common  # noqa: E402
import gen_c13  # noqa: E402
import c13  # noqa: E402
import c13_shared as sh  # noqa: E402

NPROC = min(14, common.NCPU)


# ------------------------------------------------------------------ watchdog runner
def run_watchdog(cases, deadline=240, py=None, extra_env=None, nproc=NPROC):
    """Run c14_impl.py over the cases in several child processes.  A case without a result line
    within `deadline` seconds is reported as {"watchdog": ...}; the child is killed and a fresh one
    continues with the remaining cases."""
    results = [None] * len(cases)
    script = os.path.join(common.ROOT, "harness", "impl", "c14_impl.py")

    def worker(idxs):
        todo = list(idxs)
        while todo:
            p = subprocess.Popen([py or common.PY, script], stdin=subprocess.PIPE, stdout=subprocess.PIPE,
                                 stderr=subprocess.DEVNULL, env=common.impl_env(extra_env), bufsize=0)
            blob = ("\n".join(json.dumps(cases[i]) for i in todo) + "\n").encode()

            def feed():
                try:
                    p.stdin.write(blob)
                    p.stdin.close()
                except OSError:
                    pass
            th = threading.Thread(target=feed, daemon=True)
            th.start()
            buf = b""
            done = 0
            fd = p.stdout.fileno()
            t_case = time.time()
            while done < len(todo):
                nl = buf.find(b"\n")
                if nl >= 0:
                    line, buf = buf[:nl], buf[nl + 1:]
                    if line.strip():
                        results[todo[done]] = json.loads(line)
                        done += 1
                        t_case = time.time()
                    continue
                left = deadline - (time.time() - t_case)
                r = select.select([fd], [], [], max(0.0, left))[0] if left > 0 else []
                if not r:
                    results[todo[done]] = {"watchdog": "no result within %d s" % deadline}
                    done += 1
                    break
                chunk = os.read(fd, 1 << 16)
                if not chunk:
                    results[todo[done]] = {"harness_error": "implementation runner exited (rc %s)" % p.poll()}
                    done += 1
                    break
                buf += chunk
            p.kill()
            p.wait()
            todo = todo[done:]
    shards = [list(range(k, len(cases), nproc)) for k in range(nproc)]
    ths = [threading.Thread(target=worker, args=(s,)) for s in shards if s]
    for t in ths:
        t.start()
    for t in ths:
        t.join()
    return results


# ------------------------------------------------------------------ case generators
COMPRESSORS = [0, ["zlib", 3], ["gzip", 3], ["bz2", 3], ["lzma", 3], ["xz", 3]]
TRAILERS = [{"kind": "bytes", "n": 1}, {"kind": "bytes", "n": 9}, {"kind": "stream"}]


def gen_load(rng, quick, numpy):
    cases = []
    if numpy:
        objs = [({"kind": "np", "n": 12, "dtype": "float64"}, "all"),
                ({"kind": "np", "n": 24, "dtype": "int32", "shape": [4, 6], "wrap": True}, "all"),
                ({"kind": "np", "n": 3000, "dtype": "float64", "wrap": True}, {"auto": 60 if quick else 3000})]
    else:
        objs = [({"kind": "small", "n": 30}, "all"),
                ({"kind": "nested", "n": 5, "seed": rng.randrange(1000)}, "all"),
                ({"kind": "strs", "n": 60, "seed": rng.randrange(1000)}, "all"),
                ({"kind": "ints", "n": 150, "seed": rng.randrange(1000)}, "all" if not quick else {"auto": 150}),
                ({"kind": "bytes", "n": 20000, "seed": rng.randrange(1000)}, {"auto": 90 if quick else 4000}),
                ({"kind": "repbytes", "n": 70000}, {"auto": 90 if quick else 4000})]
        if not quick:
            objs += [({"kind": "nested", "n": 12, "seed": rng.randrange(1000)}, "all"),
                     ({"kind": "bytes", "n": 70000, "seed": 5}, {"auto": 4000})]
    if not numpy:
        # non-ASCII text under every pickle protocol: a cut inside a UTF-8 character of a str that is read outside a
        # pickle frame (protocol 3: any str; protocol 4/5: a str >= 64 KiB) raises UnicodeDecodeError inside _unpickle
        uobjs = [{"kind": "utext", "n": 40, "dense": True, "seed": rng.randrange(1000)},
                 {"kind": "udict", "n": 25, "dense": True, "seed": rng.randrange(1000)},
                 {"kind": "ulist", "n": 30, "seed": rng.randrange(1000)},
                 {"kind": "umix", "n": 20, "dense": True, "seed": rng.randrange(1000)},
                 {"kind": "utext", "n": 50000, "period": 37, "seed": rng.randrange(1000)},       # ~80 KiB encoded
                 {"kind": "udict", "n": 26000, "dense": True, "period": 41, "seed": rng.randrange(1000)}]
        if not quick:
            uobjs += [{"kind": "utext", "n": 24000, "dense": True, "seed": 7},                    # incompressible-ish
                      {"kind": "umix", "n": 40000, "period": 1000, "seed": 8},
                      {"kind": "ulist", "n": 70000, "period": 53, "seed": 9}]
        for obj in uobjs:
            for proto in range(6):
                for comp in COMPRESSORS:
                    if quick and proto in (0, 1, 2) and comp not in (0, ["zlib", 3]):
                        continue
                    if quick and obj["n"] > 1000 and proto == 5 and comp != 0:
                        continue
                    cases.append({"kind": "load", "obj": obj, "compress": comp, "protocol": proto,
                                  "trunc": {"unicode": 60 if quick else 1500}, "trailers": TRAILERS[:2],
                                  "via": "path" if rng.random() < 0.1 else "bytesio"})
    for obj, trunc in objs:
        comps = list(COMPRESSORS)
        if not numpy:
            comps += [["zlib", 1], ["zlib", 9], ["gzip", 9]] if obj["kind"] in ("strs", "bytes") else []
        for comp in comps:
            cases.append({"kind": "load", "obj": obj, "compress": comp, "trunc": trunc, "trailers": TRAILERS,
                          "via": "path" if rng.random() < 0.25 else "bytesio"})
    return cases


def gen_readbytes(rng, count):
    cases = []
    for _ in range(count):
        n = rng.choice([0, 1, 5, 40, 100, 1000])
        size = rng.choice([0, 1, n, max(0, n - 1), n + 1, n + 10, rng.randint(0, n + 5)])
        caps = [rng.choice([0, 1, 2, 3, 7, 50, 10 ** 6]) for _ in range(rng.choice([0, 1, 2, 3, 6, 12]))]
        cases.append({"kind": "readbytes", "n": n, "size": size, "caps": caps})
    return cases


def gen_memory(rng, quick):
    """output.pkl of a real entry is cut at EVERY length for small entries (a cut inside a fixed-width pickle
    field -- FRAME length, BINFLOAT, BININT, length prefixes -- raises struct.error, not EOFError), boundary-biased
    for large ones, and extended by 1 / 9 bytes / itself."""
    ext = [["extend", 1], ["extend", 9], ["double"]]
    small = [{"kind": "small", "n": 30}, {"kind": "nested", "n": 4, "seed": rng.randrange(1000)},
             {"kind": "ints", "n": 12, "seed": rng.randrange(1000)}]
    large = [{"kind": "bytes", "n": 9000, "seed": 1}]
    if not quick:
        small.append({"kind": "strs", "n": 30, "seed": 2})
        large.append({"kind": "nested", "n": 40, "seed": 3})
    cases = []
    for comp in [False, True, ["gzip", 3]] + ([] if quick else [["bz2", 3], ["lzma", 3], 9]):
        for obj in small:
            cases.append({"kind": "memory", "obj": obj, "compress": comp, "damage": [["trunc_all"]] + ext})
        for obj in large:
            cases.append({"kind": "memory", "obj": obj, "compress": comp,
                          "damage": [["trunc_auto", 80 if quick else 600]] + ext})
        # a result holding >= 64 KiB of non-ASCII text (read outside a pickle frame with Memory's default protocol)
        cases.append({"kind": "memory", "obj": {"kind": "utext", "n": 50000, "period": 37, "seed": 11},
                      "compress": comp, "damage": [["trunc_u", 40, 160] if quick else ["trunc_u", 600, 2048]] + ext})
        cases.append({"kind": "memory", "obj": {"kind": "udict", "n": 10, "dense": True, "seed": 12},
                      "compress": comp, "damage": [["trunc_all"]] + ext})
    # entries that cannot be deleted (symlinked entry directory: rmtree refuses symlinks; a registered store backend
    # whose clear_item does nothing) and warnings turned into errors (python -W error): recovery must still be
    # "recompute and return the value" -- no retry loop, no UserWarning escaping
    few = [["trunc", 0], ["trunc", 3], ["frac", 1, 2], ["trunc", 10 ** 9], ["extend", 1], ["double"]]
    for comp in [False, True] + ([] if quick else [["gzip", 3], ["lzma", 3]]):
        for und in ("symlink", "noclear"):
            for werror in (False, True):
                cases.append({"kind": "memory", "obj": small[0], "compress": comp, "undeletable": und, "werror": werror,
                              "damage": few if quick else [["trunc_all"]] + ext})
        cases.append({"kind": "memory", "obj": small[1], "compress": comp, "werror": True,
                      "damage": [["trunc_all"]] + ext})
        cases.append({"kind": "memory", "obj": large[0], "compress": comp, "werror": True,
                      "damage": [["trunc_auto", 30 if quick else 300]] + ext})
    # cached functions whose parameter names collide with the parameter names of joblib's internal helpers
    # (format_signature(func, *args, **kwargs), filter_args(func, ignore_lst, args, kwargs), Logger.warn(msg), ...)
    sigs = [["func"], ["func", "x"], ["args", "kwargs"], ["self", "x"], ["x", "ignore_lst"], ["cls", "name"],
            ["msg", "location", "verbose"], ["func", "args", "kwargs", "self"]]
    for i, sig in enumerate(sigs):
        for style in ("pos", "kw"):
            if style == "kw" and "self" in sig:
                continue    # f(self=...) cannot even be passed through MemorizedFunc.__call__(self, *args, **kwargs)
            if quick and (i + (style == "kw")) % 2 and sig != ["func", "x"]:
                continue
            cases.append({"kind": "memory", "obj": small[0], "compress": bool(i % 2), "sig": sig, "callstyle": style,
                          "werror": bool(i % 3 == 0), "damage": few if quick else [["trunc_all"]] + ext})
    # a stale temporary file of a writer killed in mid-dump (output.pkl.thread-*-pid-*) in the entry directory:
    # next to a valid output.pkl (damage "none") and next to every damaged one
    for comp in [False, True]:
        cases.append({"kind": "memory", "obj": small[0], "compress": comp, "stale_tmp": True,
                      "damage": [["none"]] + (few if quick else [["trunc_all"]] + ext)})
        cases.append({"kind": "memory", "obj": large[0], "compress": comp, "stale_tmp": True, "werror": True,
                      "damage": [["none"], ["trunc_auto", 12 if quick else 200]] + ext})
    return cases


def gen_memmeta(rng, quick):
    dmg = [["trunc_all"], ["extend_ascii", 1], ["extend_ascii", 9], ["extend_bin", 1], ["extend_bin", 9], ["garbage", 40],
           ["garbage", 0], ["double"], ["missing"]]
    cases = []
    for comp in [False, True] + ([] if quick else [["gzip", 3], ["lzma", 3]]):
        for obj in [{"kind": "small", "n": 30}] + ([] if quick else [{"kind": "udict", "n": 10, "dense": True, "seed": 5}]):
            for werror in (False, True):
                cases.append({"kind": "memmeta", "obj": obj, "compress": comp, "werror": werror, "damage": dmg})
    return cases


def judge_memmeta(c, r):
    viol, hang = [], []
    for x in r["results"]:
        for name, code in x["out"].items():
            what = "Memory(compress=%s%s): metadata.json %s (%d -> %d bytes, output.pkl intact): %s" % (
                c["compress"], ", warnings as errors" if c.get("werror") else "", x["damage"], x["orig_len"], x["len"],
                {"call": "f(x)", "shelve": "call_and_shelve(x).get()", "check": "check_call_in_cache(x)"}[name])
            if code.startswith("H"):
                hang.append(what + " never returned (%s)" % code[2:])
            elif code != "E":
                viol.append(what + " gave %s instead of the value" % code)
    return viol, hang


def gen_zfile(rng, quick):
    """BinaryZlibFile-level truncations / trailers (cases for c13_impl.run_read)"""
    cases = []
    ops = [["read", -1], ["read", 5], ["tell"], ["seek", 0, 0], ["read", 7], ["seek", -3, 2], ["read", -1]]
    small = [("zlib", {"gen": "text", "n": 150, "seed": 2}, 6, None), ("gzip", {"gen": "lcg", "n": 60, "seed": 3}, 9, None),
             ("zlib", {"gen": "lcg", "n": 40, "seed": 4}, 1, 16)]
    for fmt, pl, level, bs in small:
        base = {"kind": "read", "fmt": fmt, "level": level, "payload": pl, "bufsize": bs, "trailer": None,
                "trunc": None, "via": "bytesio", "ops": ops}
        flen = len(sh.build_file(base)[0])
        for n in range(flen + 1):
            c = dict(base)
            c["trunc"] = n if n < flen else None
            cases.append(c)
        for tr in TRAILERS + [{"kind": "bytes", "n": 8192}]:
            c = dict(base)
            c["trailer"] = tr
            cases.append(c)
    big = {"kind": "read", "fmt": "zlib", "level": 3, "payload": {"gen": "lcg", "n": 30000, "seed": 7}, "bufsize": None,
           "trailer": None, "trunc": None, "via": "bytesio", "ops": [["read", 10000], ["read", -1], ["tell"], ["seek", -1, 2],
                                                                      ["read", 2]]}
    flen = len(sh.build_file(big)[0])
    pts = {0, 1, 2, flen - 1, flen - 2, flen - 4, flen - 5, flen // 2}
    for b in range(8192, flen, 8192):
        pts |= {b - 1, b, b + 1}
    while len(pts) < (40 if quick else 200):
        pts.add(rng.randrange(flen))
    for n in sorted(pts):
        c = dict(big)
        c["trunc"] = n
        cases.append(c)
    for tr in TRAILERS + [{"kind": "bytes", "n": 8192}, {"kind": "bytes", "n": 20000}]:
        c = dict(big)
        c["trailer"] = tr
        cases.append(c)
        c = dict(big)
        c["trailer"] = tr
        c["fmt"] = "gzip"
        cases.append(c)
    return cases


# ------------------------------------------------------------------ judging
def is_truncation_of(orig_outs, cut_outs):
    """Python statement of Model.truncation_of on lists of output blocks"""
    k = len(cut_outs)
    if k == 0:
        return True
    if k > len(orig_outs):
        # the cut may add one block boundary only when the original's last block was cut: impossible
        return False
    if cut_outs[:k - 1] != orig_outs[:k - 1]:
        return False
    return orig_outs[k - 1].startswith(cut_outs[k - 1])


def judge_load(c, r):
    """property oracle + model prediction.  Returns (violations, disagreements, hang_suspects)"""
    viol, dis, hang = [], [], []
    if r["base"] != "E":
        viol.append("the undamaged file does not load back (%s)" % r["base"])
    codes = r["codes"]
    for i, n in enumerate(r["points"]):
        code = codes[i]
        if code == "D":
            what = next((d[2] for d in r["details"] if d[0] == n), "?")
            viol.append("load of the file cut to %d of %d bytes (compress=%s, protocol=%s) returned %s instead of raising"
                        % (n, r["len"], c["compress"], c.get("protocol"), what))
        elif code == "H":
            hang.append("load of the file cut to %d of %d bytes never returned" % (n, r["len"]))
    for t, code, info in r["trailers"]:
        if code == "D":
            viol.append("load of the file + trailer %s returned a different object %s" % (t, info))
        elif code == "H":
            hang.append("load of the file + trailer %s never returned (%s)" % (t, info))
    # model prediction
    comp = c["compress"]
    numpy_obj = c["obj"]["kind"] == "np"
    if not viol and not hang and not numpy_obj:
        if comp == 0:
            exp = "R" * len(codes)
        elif comp[0] in ("zlib", "gzip"):
            exp = "".join("E" if m == r["full_payload"] else "R" for m in r["payload_lens"])
        else:
            exp = None
        if exp is not None and exp != codes:
            i = next(j for j in range(len(codes)) if exp[j] != codes[j])
            dis.append("cut at %d of %d: outcome %s, the model predicts %s (payload delivered %s of %s)" % (
                r["points"][i], r["len"], codes[i], exp[i],
                r["payload_lens"][i] if r["payload_lens"] else "-", r["full_payload"]))
        if comp == 0 or comp[0] in ("zlib", "gzip"):
            for t, code, info in r["trailers"]:
                if code != "E":
                    dis.append("trailer %s: outcome %s %s, the model predicts the original object" % (t, code, info))
    return viol, dis, hang


def judge_memory(c, r):
    viol, hang = [], []
    for x in r["results"]:
        what = "Memory(compress=%s%s%s%s%s): output.pkl %s (%d -> %d bytes)" % (
            c["compress"], ", entry not deletable (%s)" % c["undeletable"] if c.get("undeletable") else "",
            ", warnings as errors" if c.get("werror") else "",
            ", cached function f(%s) called by %s" % (", ".join(c["sig"]), c.get("callstyle")) if c.get("sig") else "",
            ", stale temporary file of a dead writer in the entry" if c.get("stale_tmp") else "",
            x["damage"], x["orig_len"], x["len"])
        if x["code"].startswith("H"):
            hang.append(what + ": the cached call never returned (%s)" % x["code"][2:])
        elif x["code"] != "E":
            viol.append(what + ": the cached call gave %s instead of the value" % x["code"])
        elif x["after"] != "E":
            viol.append(what + ": the following call gave %s" % x["after"])
        elif x["after_recomputed"]:
            viol.append(what + ": the entry is still unusable after the call that hit the damage (recomputed twice)")
    return viol, hang


def readbytes_oracle(c, r):
    n, size = c["n"], c["size"]
    if r["res"] == "hang":
        return "_read_bytes(fp, %d) over a %d-byte file with short reads %s never returned" % (size, n, c["caps"])
    if r["res"] == "ok":
        if r["len"] != size or not r["is_prefix"]:
            return "_read_bytes returned %d bytes (prefix of the data: %s) for size %d" % (r["len"], r["is_prefix"], size)
        return None
    # raises: legitimate only if the data ran out or a read returned nothing before `size` was reached
    if r["type"] != "ValueError":
        return "_read_bytes raised %s" % r["type"]
    if n >= size and all(cap > 0 for cap in c["caps"]):
        return ("_read_bytes raised ValueError although the file holds %d >= %d bytes and every read made progress "
                "(caps %s)" % (n, size, c["caps"]))
    return None


DEFS14 = c13.DEFS + """
Definition show_rb (x : option (result bytes * (bytes * list Z))) :=
  match x with
  | None => (9, 0, 0, 0)
  | Some (Ok d, (rest, _)) => let '(s, n) := summ d in (0, s, n, len rest)
  | Some (Raise _, (rest, _)) => (1, 0, 0, len rest)
  end."""


def readbytes_expr(c):
    return "show_rb (read_bytes _ short_read %d %s (zrange 0 %d, %s))" % (
        c["size"] + 2, common.zlit(c["size"]), c["n"], c13.zl(c["caps"]))


def run(ctx):
    quick = ctx.tier == "quick"
    trusted = [
        "Coq 8.16.1 kernel (coqc, full .vo build); vm_compute for the model runs; no native_compute",
        "zlib.decompressobj as a recorded script (see C13); additionally: cutting the file cuts the script "
        "(truncation_of) -- checked on every truncated zlib/gzip stream of the run",
        "CPython pickle: a strict prefix of a pickle stream does not unpickle (used only for the model's outcome "
        "prediction raises/equal; the oracle different-object/hang does not need it)",
        "bz2 / lzma (xz) readers are CPython's: outcomes sampled under the watchdog, not modelled",
        "watchdog: SIGALRM in the child, deterministic spin detector in the zlib proxy, per-case deadline in the parent",
        "Memory half: sampled on real cache entries, not modelled here (M4/M5 belong to C02/C05)",
    ]
    c13.regenerate(ctx)   # Gen/C13_Constants.v (Proofs/ZlibFileOps.v depends on it)
    proofs_ok = ctx.standard_proof_stage("C14", search=lambda: search_failing(ctx))
    viol, dis, hang = [], [], []
    stats = {"loads": 0, "outcomes": {}, "exc_types": {}, "memory_damages": 0, "recomputed": 0, "zfile_cases": 0,
             "truncation_of_checked": 0, "old_model_spins": 0, "readbytes": {}, "junk": {}}
    nontrivial = set()

    # ---- 2. file-object layer vs model
    zcases = gen_zfile(ctx.rng, quick)
    stats["zfile_cases"] = len(zcases)
    zstats = {"ops_judged": 0, "model_evals": 0, "blocks": {}, "scripts_with_empty_block": 0, "with_trailer": 0,
              "truncated": 0, "nontrivial": set()}
    o_fail, z_dis, s_fail = c13.evaluate(ctx, zcases, "c14_zfile", zstats)
    for bad, c, r in o_fail:
        (hang if "never returned" in bad else viol).append((bad, c))
    dis += [(d, c) for d, c, r in z_dis + s_fail]
    # truncation_of: scripts of the cut files vs the script of the whole file
    by_base = {}
    for c in zcases:
        key = json.dumps([c["fmt"], c["level"], c["payload"], c["bufsize"]])
        by_base.setdefault(key, []).append(c)
    for key, group in by_base.items():
        whole = dict(group[0])
        whole["trunc"], whole["trailer"] = None, None
        raw, _ = sh.build_file(whole)
        bs = whole["bufsize"] or 8192
        _, outs0, _ = sh.script_of(raw, whole["fmt"], bs)
        for c in group:
            if c["trunc"] is None:
                continue
            sc, outs, _ = sh.script_of(raw[:c["trunc"]], c["fmt"], bs)
            stats["truncation_of_checked"] += 1
            if sc["complete"] or not is_truncation_of(outs0, outs):
                dis.append(("the script of the file cut at %d is not a truncation_of the original script" % c["trunc"], c))
    # the pre-fix model on the trailer files: must run out of fuel where the current code returns
    tr_cases = [c for c in zcases if c["trailer"] is not None and c["trailer"].get("n", 0) <= 9][:12]
    tr_res = c13.run_impl_cases(tr_cases)
    exprs = []
    for c, r in zip(tr_cases, tr_res):
        e, _ = c13.read_expr({"ops": [["read", -1]]}, r["script"], [None], fill="fill_buffer_old")
        exprs.append(e.replace("(fuel_for file)", "(fuel_for file + 4)%nat"))
    for c, v in zip(tr_cases, ctx.coq_eval_lines(c13.REQ, c13.DEFS, exprs, name="c14_old")):
        tr = c13.parse_trace(v)
        if tr and tr[0][0][0] == 9:
            stats["old_model_spins"] += 1
        else:
            dis.append(("the pre-fix model does not spin on trailer %s" % c["trailer"], c))

    # ---- 3. load layer
    lcases = gen_load(ctx.rng, quick, False)
    t0 = time.time()
    lres = run_watchdog(lcases)
    np_cases, np_res = [], []
    have_np = subprocess.run([common.PYNP, "-c", "import numpy"], env=common.impl_env(), stdout=subprocess.DEVNULL,
                             stderr=subprocess.DEVNULL).returncode == 0
    if have_np:
        np_cases = gen_load(ctx.rng, quick, True)
        np_res = run_watchdog(np_cases, py=common.PYNP)
    else:
        ctx.note("interpreter with numpy (%s) not usable: numpy objects skipped" % common.PYNP)
    stats["load_wall_s"] = round(time.time() - t0, 1)
    for c, r in list(zip(lcases, lres)) + list(zip(np_cases, np_res)):
        if "watchdog" in r:
            hang.append(("joblib.load case got no result: " + r["watchdog"], c))
            continue
        if "harness_error" in r:
            viol.append(("harness error: " + r["harness_error"][:300], c))
            continue
        v, d, h = judge_load(c, r)
        viol += [(x, c) for x in v]
        dis += [(x, c) for x in d]
        hang += [(x, c) for x in h]
        stats["loads"] += len(r["codes"]) + len(r["trailers"]) + 1
        for ch in r["codes"] + "".join(t[1] for t in r["trailers"]):
            stats["outcomes"][ch] = stats["outcomes"].get(ch, 0) + 1
        for k, n in r["exc_types"].items():
            stats["exc_types"][k] = stats["exc_types"].get(k, 0) + n
        for n, ch in zip(r["points"], r["codes"]):
            nontrivial.add(json.dumps([c["obj"], c["compress"], c.get("protocol"), n]))
    # ---- 3b. files that only look compressed (magic prefix + junk): must return or raise, never hang
    jcases = [{"kind": "junk", "seed": ctx.rng.randrange(10 ** 6), "lens": [0, 1, 7, 100, 9000]} for _ in range(2 if quick else 8)]
    for c, r in zip(jcases, run_watchdog(jcases, nproc=4)):
        if "watchdog" in r:
            hang.append(("load of a magic prefix + junk file got no result: " + r["watchdog"], c))
            continue
        if "harness_error" in r:
            viol.append(("harness error: " + r["harness_error"][:300], c))
            continue
        for name, n, kind, code, info in r["results"]:
            stats["junk"][code] = stats["junk"].get(code, 0) + 1
            if code == "H":
                hang.append(("load of %s magic + %d bytes of %s never returned (%s)" % (name, n, kind, info), c))
    # ---- 4. _read_bytes
    rb_cases = gen_readbytes(ctx.rng, 400 if quick else 3000)
    rb_res = run_watchdog(rb_cases, nproc=4)
    rb_vals = ctx.coq_eval_lines(c13.REQ, DEFS14, [readbytes_expr(c) for c in rb_cases], name="c14_rb", shard=100)
    for c, r, v in zip(rb_cases, rb_res, rb_vals):
        if "watchdog" in r or "harness_error" in r:
            hang.append(("_read_bytes case got no result: %s" % r, c))
            continue
        bad = readbytes_oracle(c, r)
        if bad:
            (hang if r["res"] == "hang" else viol).append((bad, c))
            continue
        tag, s, n, rest = [int(x) for x in re.findall(r"-?\d+", v.replace("%Z", ""))]
        mres = {0: "ok", 1: "raises", 9: "fuel"}[tag]
        stats["readbytes"][r["res"]] = stats["readbytes"].get(r["res"], 0) + 1
        if mres != r["res"] or (mres == "ok" and (s != 0 or n != r["len"])) or rest != c["n"] - r["pos"]:
            dis.append(("_read_bytes: implementation %s, model %s" % (r, v), c))
        elif c["caps"]:
            nontrivial.add(json.dumps(c))
    # ---- 5. Memory
    mcases = gen_memory(ctx.rng, quick)
    mres = run_watchdog(mcases, nproc=NPROC)
    for c, r in zip(mcases, mres):
        if "watchdog" in r:
            hang.append(("Memory case got no result: " + r["watchdog"], c))
            continue
        if "harness_error" in r:
            viol.append(("harness error: " + r["harness_error"][:300], c))
            continue
        v, h = judge_memory(c, r)
        viol += [(x, c) for x in v]
        hang += [(x, c) for x in h]
        stats["memory_damages"] += len(r["results"])
        stats["recomputed"] += sum(1 for x in r["results"] if x["recomputed"])
        for x in r["results"]:
            nontrivial.add(json.dumps([c["obj"], c["compress"], x["damage"]]))
    # ---- 5b. Memory: metadata.json damaged, output.pkl intact
    mmcases = gen_memmeta(ctx.rng, quick)
    stats["metadata_damages"] = 0
    for c, r in zip(mmcases, run_watchdog(mmcases, nproc=NPROC)):
        if "watchdog" in r:
            hang.append(("Memory metadata case got no result: " + r["watchdog"], c))
            continue
        if "harness_error" in r:
            viol.append(("harness error: " + r["harness_error"][:300], c))
            continue
        v, h = judge_memmeta(c, r)
        viol += [(x, c) for x in v]
        hang += [(x, c) for x in h]
        stats["metadata_damages"] += len(r["results"])
        for x in r["results"]:
            nontrivial.add(json.dumps(["meta", c["obj"], c["compress"], c.get("werror"), x["damage"]]))
    # ---- hangs: deterministic ones (spin detector) stand; timer-based ones are retried once
    confirmed = []
    retried = 0
    for what, c in hang:
        if "spin" in what or "times" in what or c.get("kind") == "read":
            confirmed.append((what, c))
            continue
        if retried >= 2:
            if confirmed:
                ctx.note("not re-run (same symptom as a confirmed hang): " + what)
            else:
                ctx.note("inconclusive, not re-run: " + what)
            continue
        retried += 1
        r2 = run_watchdog([c], deadline=600, extra_env={"VERIF_C14_ALARM": "30"}, nproc=1,
                          py=common.PYNP if c.get("obj", {}).get("kind") == "np" else None)[0]
        again = "watchdog" in r2 or (c["kind"] == "load" and ("H" in r2.get("codes", "") or any(
            t[1] == "H" for t in r2.get("trailers", [])))) or (c["kind"] == "memory" and any(
                x["code"].startswith("H") for x in r2.get("results", []))) or (c["kind"] == "memmeta" and any(
                    v.startswith("H") for x in r2.get("results", []) for v in x["out"].values())) or (
                    c["kind"] == "readbytes" and r2.get("res") == "hang")
        if again:
            confirmed.append((what + " (confirmed with a 30 s limit)", c))
        else:
            ctx.note("inconclusive: %s -- returned when retried with a 30 s limit" % what)
    for what, c in confirmed[:3]:
        ctx.violation("hang: " + what, {"kind": "oracle", "case": c}, True)
    for what, c in viol[:3]:
        ctx.violation(what, {"kind": "oracle", "case": c}, True)
    if dis and not viol and not confirmed:
        hit = search_failing(ctx)
        if hit:
            ctx.violation(hit[0], {"kind": "model-disagreement+failing-input", "case": hit[1],
                                   "first_disagreement": {"what": dis[0][0], "case": dis[0][1]}}, True)
        else:
            ctx.violation("model and implementation disagree (%d cases): %s" % (len(dis), dis[0][0]),
                          {"kind": "correspondence", "first_disagreement": {"what": dis[0][0], "case": dis[0][1]},
                           "correspondence": "Model/ZlibFile.v (reader, truncation_of, read_bytes) vs BinaryZlibFile, "
                                             "joblib.load outcomes and numpy_pickle_utils._read_bytes"},
                          found_input=False)
    ctx.finish({
        "evaluations": stats["loads"] + len(zcases) + len(rb_cases) + stats["memory_damages"],
        "distinct_nontrivial": len(nontrivial) + len(zstats["nontrivial"]),
        "rule": "load layer: objects {small dict, nested with instances, 60 strings, 150 ints, 20000 random bytes, 70000 "
                "periodic bytes%s} x compressors {raw, zlib 1/3/9, gzip 3/9, bz2, lzma, xz}: every truncation length for "
                "files < 4 KiB, first/last 24 bytes + 8192-boundaries +-1 + random points otherwise; trailers {1 byte, 9 "
                "bytes, a second valid file}; BytesIO and real paths. file-object layer: every truncation length of three "
                "small zlib/gzip streams (one with _BUFFER_SIZE 16) and boundary-biased cuts of a 30000-byte 4-block stream, "
                "trailers incl. 8192/20000 bytes. _read_bytes: data 0..1000 bytes, sizes around the data length, 0-12 capped "
                "reads incl. 0-byte reads. Memory: compress {False, True, gzip%s} x entries {small dict with float/ints, nested, "
                "12 ints: output.pkl cut at EVERY length; 9000 random bytes: boundary-biased cuts} + extended by 1, 9 bytes, "
                "itself. non-trivial = a damaged input (distinct by object/compressor/cut)"
                % (", numpy arrays" if have_np else "", "" if quick else ", bz2, lzma, 9"),
        "samples": [lcases[0], zcases[5], rb_cases[0], mcases[0]],
        "traces_validated_against_impl": zstats["model_evals"] + len(rb_cases) + len(lcases),
        "joblib_load_calls": stats["loads"],
        "load_outcomes": stats["outcomes"],
        "exception_types_on_damage": stats["exc_types"],
        "zfile_cases": stats["zfile_cases"],
        "zfile_ops_judged_by_oracle": zstats["ops_judged"],
        "truncated_scripts_checked_against_truncation_of": stats["truncation_of_checked"],
        "pre_fix_model_spins_on_trailers": stats["old_model_spins"],
        "read_bytes_outcomes": stats["readbytes"],
        "magic_plus_junk_outcomes(R raises, V value)": stats["junk"],
        "memory_damages": stats["memory_damages"],
        "metadata_json_damages(x3 operations)": stats["metadata_damages"],
        "memory_recomputations": stats["recomputed"],
        "numpy_cases": len(np_cases),
        "disagreements": len(dis),
        "hangs": len(confirmed),
        "trusted_base": trusted,
        "exhaustive": "truncation lengths of every file < 4 KiB in the run",
    }, assumptions=[
        "zlib.decompressobj is deterministic and streaming (script); a cut file yields a cut script (truncation_of)",
        "the file object under _read_bytes never returns more bytes than asked (C14_read_bytes)",
        "CPython's unpickler raises on a strict prefix of a pickle stream (outcome prediction only)",
        "bz2/lzma/xz: CPython's readers, correspondence only",
    ])


def search_failing(ctx):
    cases = gen_load(ctx.rng, True, False)
    for c, r in zip(cases, run_watchdog(cases)):
        if "watchdog" in r:
            return "joblib.load never returned", c
        if "harness_error" in r:
            continue
        v, d, h = judge_load(c, r)
        if v or h:
            return (v + h)[0], c
    return None


def replay(ctx, path):
    obj = json.load(open(path))
    rep = obj.get("replay", obj)
    c = rep.get("case") or rep.get("input")
    if not c:
        print("replay file names a broken proof/correspondence, nothing to execute:", rep.get("kind"))
        return 1
    if c["kind"] == "read":
        return c13.replay(ctx, path)
    r = run_watchdog([c], nproc=1, py=common.PYNP if c.get("obj", {}).get("kind") == "np" else None)[0]
    if "watchdog" in r:
        bad = ["no result: " + r["watchdog"]]
    elif "harness_error" in r:
        bad = ["harness error " + r["harness_error"][:200]]
    elif c["kind"] == "load":
        v, d, h = judge_load(c, r)
        bad = v + h
    elif c["kind"] == "memory":
        v, h = judge_memory(c, r)
        bad = v + h
    elif c["kind"] == "memmeta":
        v, h = judge_memmeta(c, r)
        bad = v + h
    else:
        b = readbytes_oracle(c, r)
        bad = [b] if b else []
    print("replay:", json.dumps(c)[:500], "=>", bad[0] if bad else "property holds")
    return 1 if bad else 0
