"""Shared machinery of the C02 / C06 / C12 checks (model M4, coq/Model/MemoryCore.v).

 * generators: signature scenarios (all 5 parameter kinds, defaults, ignore lists, call forms, dict/set
   arguments rebuilt in another order, near-colliding values, compress settings, shelving, checks, clears,
   evictions, fresh processes) and version scenarios (C12: several versions of a same-named function in one
   or several files, old objects kept alive, fresh processes);
 * execution on the real joblib.Memory (harness/impl/c02_impl.py, one interpreter per process segment);
 * the independent oracles (undecorated twin, inspect.signature.bind, own-version tag);
 * the model run: Coq evaluates [outcomes (tab_cfg ...) history] on the observed key classes and binding
   classes (Model/MemoryTab.v) and [admissible]; compared event by event with the implementation.
"""
import concurrent.futures as cf
import json
import os
import re
import shutil
import subprocess
import sys
import tempfile

sys.path.insert(0, os.path.dirname(os.path.dirname(os.path.abspath(__file__))))
import common  # noqa: E402

K_POSONLY = "filter-args:positional-only-parameter-dropped"
K_DEFAULT = "filter-args:default-looked-up-by-position-in-merged-defaults"
K_VARARGS = "filter-args:varargs-with-keyword-only-parameter"
K_F10 = "function-hashes-fast-path:older-live-version-after-newer-called"
K_SAMEFILE = "func-code-info:source-file-rewritten-before-wrapper-read-it"

# ------------------------------------------------------------------------------- values
NEAR = [{"i": 0}, {"i": 1}, {"f": "1.0"}, {"b": True}, {"f": "0.0"}, {"b": False}, {"i": -1}, {"i": 2},
        {"s": "a"}, {"y": "a"}, {"s": ""}, {"n": 0}, {"t": []}, {"l": []}, {"i": 2 ** 31}, {"f": "-0.0"},
        {"t": [{"i": 1}, {"i": 2}]}, {"l": [{"i": 1}, {"i": 2}]}, {"i": 3}, {"i": 4}, {"i": 5}]


MIXED_KEYS = [{"i": 1}, {"s": "k"}, {"y": "k"}, {"t": [{"i": 1}, {"s": "a"}]}, {"n": 0}, {"i": 7}, {"s": "zz"}]


CALLABLE_ARGS = ["Json.Codec.encode", "Tsv.Codec.encode", "a.Codec.encode", "b.Codec.encode", "a.conv", "b.conv", "len",
                 "abs", "str.upper", "str.lower", "[].append", "[1].append", "math.sqrt", "math.floor",
                 "partial(a.conv,1)", "partial(b.conv,1)", "partial(a.conv,y=2)"]


def gen_value(rng, depth=0):
    r = rng.random()
    if depth == 0 and r > 0.94:
        # a CALLABLE passed as an argument (the generated function returns its description)
        return {"c": rng.choice(CALLABLE_ARGS)}
    if depth == 0 and r > 0.91:
        # one of joblib's OWN objects as an argument: a Memory, a MemorizedFunc, an object holding a Memory
        return {"j": rng.choice(["memory", "memfunc", "holder"])}
    if depth == 0 and r < 0.12:
        # dict / set with keys of mixed kinds (int, str, bytes, tuple, None): the hasher cannot sort them and falls
        # back to ordering by the joblib digest of each key, which must not depend on PYTHONHASHSEED
        keys = rng.sample(MIXED_KEYS, rng.randint(2, 5))
        if not any("s" in k or "y" in k for k in keys):
            keys.append({"s": "k"})
        if rng.random() < 0.7:
            return {"d": [[k, rng.choice(NEAR[:8])] for k in keys]}
        return {"S": keys}
    if r < 0.7 or depth > 1:
        return rng.choice(NEAR)
    if r < 0.85:
        keys = rng.sample([{"s": "k1"}, {"s": "k2"}, {"s": "k3"}, {"s": "dd"}], rng.randint(0, 3))
        return {"d": [[k, gen_value(rng, depth + 1)] for k in keys]}
    if r < 0.95:
        return {"S": rng.sample([{"i": 1}, {"i": 2}, {"i": 8}, {"i": 0}, {"i": 16}], rng.randint(0, 4))}
    return {"t": [gen_value(rng, depth + 1) for _ in range(rng.randint(1, 2))]}


TWINS = [[{"i": 1}, {"f": "1.0"}, {"b": True}], [{"i": 0}, {"f": "0.0"}, {"b": False}, {"f": "-0.0"}]]


def type_twin(rng, v):
    """a value that is EQUAL under == (and has the same builtin hash) but of another type somewhere inside:
    1 / 1.0 / True, 0 / 0.0 / False, also nested in tuples, lists, frozensets, sets and as dict keys / values"""
    (t, x), = v.items()
    for grp in TWINS:
        if v in grp:
            return rng.choice([w for w in grp if w != v])
    if t in ("t", "l", "S", "F") and x:
        i = rng.randrange(len(x))
        return {t: [type_twin(rng, e) if j == i else e for j, e in enumerate(x)]}
    if t == "d" and x:
        i = rng.randrange(len(x))
        return {"d": [[type_twin(rng, k), w] if j == i and rng.random() < 0.5 else
                      ([k, type_twin(rng, w)] if j == i else [k, w]) for j, (k, w) in enumerate(x)]}
    return v


def gen_twin_value(rng):
    """values that have type twins: scalars, tuples, frozensets, dicts keyed by them (also with a str key next to
    them, so that the hasher's mixed-kind fallback is taken)"""
    base = rng.choice([{"i": 1}, {"i": 0}, {"f": "1.0"}, {"b": True}])
    r = rng.random()
    if r < 0.2:
        return base
    if r < 0.4:
        return {"t": [base, {"s": "a"}]}
    if r < 0.55:
        return {"F": [base]}
    if r < 0.7:
        return {"d": [[base, {"i": 5}]]}
    if r < 0.9:
        return {"d": [[base, {"i": 5}], [{"s": "k"}, {"i": 6}]]}
    return {"t": [{"F": [base, {"s": "a"}]}, {"d": [[base, base]]}]}


def reorder(rng, v):
    """the same value built in another order (dict / set), recursively"""
    (t, x), = v.items()
    if t == "d":
        items = [[k, reorder(rng, w)] for k, w in x]
        rng.shuffle(items)
        return {"d": items}
    if t in ("S", "F"):
        items = list(x)
        rng.shuffle(items)
        return {t: items}
    if t in ("t", "l"):
        return {t: [reorder(rng, e) for e in x]}
    return v


# --------------------------------------------------------------------------- signatures
def enum_signatures(max_params=4):
    """every well-formed signature over the 5 kinds x default/no default with <= max_params parameters"""
    order = {"po": 0, "pk": 1, "va": 2, "ko": 3, "vk": 4}
    out = []

    def rec(prefix):
        out.append(list(prefix))
        if len(prefix) == max_params:
            return
        last = order[prefix[-1][0]] if prefix else 0
        for kind in ("po", "pk", "va", "ko", "vk"):
            if order[kind] < last:
                continue
            if kind in ("va", "vk"):
                if any(p[0] == kind for p in prefix):
                    continue
                rec(prefix + [(kind, False)])
                continue
            for has_def in (False, True):
                if kind in ("po", "pk") and not has_def and any(p[0] in ("po", "pk") and p[1] for p in prefix):
                    continue  # non-default positional after a defaulted one
                if prefix and prefix[-1][0] == "vk":
                    continue
                rec(prefix + [(kind, has_def)])
    rec([])
    names = "abcde"
    sigs = []
    for s in out:
        if not s:
            continue
        params = []
        for i, (kind, has_def) in enumerate(s):
            name = {"va": "args", "vk": "kw"}.get(kind, names[i])
            params.append([name, kind, {"i": 10 + i} if has_def else None])
        sigs.append(params)
    return sigs


def shape_keys(params):
    """which known filter_args defects the signature can trigger"""
    keys = set()
    if any(p[1] == "po" for p in params):
        keys.add(K_POSONLY)
    if any(p[1] == "va" for p in params) and any(p[1] == "ko" for p in params):
        keys.add(K_VARARGS)
    names = [p for p in params if p[1] in ("pk", "ko")]
    defaults = [p for p in params if p[2] is not None]
    for i, p in enumerate(names):
        if p[2] is None:
            continue
        j = i - len(names) + len(defaults)
        if j < 0 or j >= len(defaults) or defaults[j] is not p:
            keys.add(K_DEFAULT)
    return keys


# parameter names that joblib's own wrappers / helpers use (fixed finding F53: `f(self=1)` was rejected by every wrapper
# method, `Memory.eval(g, func=3)` likewise)
COLLIDING_NAMES = ["self", "func", "args", "kwargs", "cls", "ignore_lst", "call_id", "shelving"]


def collide_params(rng, params):
    """the same signature with one to all of its parameters renamed to names joblib uses itself"""
    used = {p[0] for p in params}
    free = [n for n in COLLIDING_NAMES if n not in used]
    rng.shuffle(free)
    out = []
    first = True
    for name, kind, default in params:
        if kind == "vk" and rng.random() < 0.5:
            name = "kwargs" if "kwargs" in free else name
            if name == "kwargs":
                free.remove("kwargs")
        elif kind not in ("va", "vk") and free and (first or rng.random() < 0.5):
            name = free.pop()
            first = False
        out.append([name, kind, default])
    return out


def gen_call(rng, params, base=None):
    """a valid call and its binding; with [base] (a binding) the same binding in another call form"""
    has_va = any(p[1] == "va" for p in params)
    has_vk = any(p[1] == "vk" for p in params)
    values = {}
    for name, kind, default in params:
        if kind in ("va", "vk"):
            continue
        if base is not None:
            values[name] = base[name]
        elif default is not None and rng.random() < 0.35:
            values[name] = default
        elif rng.random() < 0.15:
            values[name] = gen_twin_value(rng)
        else:
            values[name] = gen_value(rng)
    if base is not None:
        extra_pos = list(base.get("*", []))
        extra_kw = [list(x) for x in base.get("**", [])]
    else:
        extra_pos = [gen_value(rng) for _ in range(rng.choice([0, 0, 1, 2]))] if has_va else []
        pool = ["x", "y", "z"]
        if has_vk and any(p[0] in COLLIDING_NAMES[:2] + COLLIDING_NAMES[3:] for p in params):
            # surplus keywords named like joblib's own parameters (they land in the ** dictionary)
            pool = pool + [n for n in COLLIDING_NAMES if n not in {p[0] for p in params}]
        extra_kw = [[n, gen_value(rng)] for n in rng.sample(pool, rng.choice([0, 0, 1, 2]))] if has_vk else []
    P = [p for p in params if p[1] in ("po", "pk")]
    if extra_pos:
        npos = len(P)
    else:
        lo = 0
        for i, (name, kind, default) in enumerate(P):
            if kind == "po" and (default is None or values[name] != default):
                lo = i + 1
        npos = rng.randint(lo, len(P))
    pos, kw = [], []
    for i, (name, kind, default) in enumerate(P):
        if i < npos:
            pos.append(values[name])
        elif kind == "pk":
            if default is not None and values[name] == default and rng.random() < 0.5:
                continue      # default left implicit
            kw.append([name, values[name]])
    for name, kind, default in params:
        if kind != "ko":
            continue
        if default is not None and values[name] == default and rng.random() < 0.5:
            continue
        kw.append([name, values[name]])
    pos += extra_pos
    kw += extra_kw
    rng.shuffle(kw)
    binding = dict(values)
    if has_va:
        binding["*"] = list(extra_pos)
    if has_vk:
        binding["**"] = [list(x) for x in extra_kw]
    return {"pos": pos, "kw": kw}, binding


def equivalent_form(rng, params, binding, ignore):
    """another call form of the same binding: other positional/keyword split, defaults spelled out or omitted,
    dict/set arguments rebuilt in another order, other values for the ignored parameters"""
    b2 = {}
    for k, v in binding.items():
        if k == "*":
            b2[k] = [reorder(rng, e) for e in v]
        elif k == "**":
            b2[k] = [[n, reorder(rng, e)] for n, e in v]
        elif k in ignore:
            b2[k] = gen_value(rng)
        else:
            b2[k] = reorder(rng, v)
    cs, _ = gen_call(rng, params, base=b2)
    return cs


ODD_DEFAULTS = [{"o": "eqall"}, {"o": "eqnone"}, {"o": "raises"}, {"o": "elementwise"}]


def gen_sig_scenario(rng, params, sid, quick=True, collide=None):
    collide = rng.random() < 0.2 if collide is None else collide
    if collide:
        params = collide_params(rng, params)
    if rng.random() < 0.2 and any(p[2] is not None for p in params):
        # defaults whose ==/!= is non-standard (always equal like unittest.mock.ANY, never equal, raising, without a
        # truth value): joblib must only ever test them by identity
        params = [[n, k, (rng.choice(ODD_DEFAULTS) if d is not None and rng.random() < 0.6 else d)]
                  for n, k, d in params]
    named = [p[0] for p in params if p[1] in ("pk", "ko") or (p[1] == "po" and rng.random() < 0.05)]
    ignore = []
    if named and rng.random() < 0.45:
        ignore = rng.sample(named, rng.randint(1, min(2, len(named))))
    compress = rng.choice([False, False, 3, ["gzip", 1]])
    kind = rng.choice(["def", "def", "method", "method", "nested", "lambda", "async", "async"])
    if kind == "method" and any(p[0] == "self" for p in params):
        kind = "def"       # (a method has its own self)
    sc = {"id": sid, "type": "sig", "params": params, "ignore": ignore, "compress": compress,
          "verbose": rng.choice([0, 0, 1, 2, 11, 60]), "mmap_mode": rng.choice([None, None, None, None, "r", "c"]),
          "picklable": kind in ("def", "method") and rng.random() < 0.6,
          # half of the scenarios use wrappers WITHOUT a validation callback (then nothing ever looks at the metadata)
          "callback": rng.random() < 0.5,
          "versions": {"0": {"tag": "v0", "path": "verifmod.py", "pad": rng.choice([0, 0, 2]), "kind": kind}}}
    events = [["define", 0], ["wrap", 0]]
    bindings = []
    n_refs = 0
    n_calls = rng.randint(2, 12)
    multi = rng.random() < 0.4
    for _ in range(n_calls):
        r = rng.random()
        if bindings and r < 0.55:
            cs = equivalent_form(rng, params, rng.choice(bindings), ignore)
        elif bindings and r < 0.7:
            # near miss: one non-ignored value changed
            b = dict(rng.choice(bindings))
            cand = [k for k in b if k not in ("*", "**") and k not in ignore]
            r2 = rng.random()
            if cand and rng.random() < 0.35:
                # same call but one value replaced by its ==-equal twin of another type (1 / 1.0 / True ...)
                k = rng.choice(cand)
                tw = type_twin(rng, b[k])
                b[k] = tw if tw != b[k] else gen_twin_value(rng)
            elif "*" in b and r2 < 0.4:
                # same named arguments, other surplus positionals (one more, one fewer, one changed)
                ex = list(b["*"])
                op = rng.choice(["add", "drop", "change"]) if ex else "add"
                if op == "add":
                    ex.append(gen_value(rng))
                elif op == "drop":
                    ex.pop()
                else:
                    ex[rng.randrange(len(ex))] = gen_value(rng)
                b["*"] = ex
            elif "**" in b and r2 < 0.6:
                ex = [list(x) for x in b["**"]]
                if ex and rng.random() < 0.5:
                    ex[rng.randrange(len(ex))][1] = gen_value(rng)
                else:
                    free = [n for n in ("x", "y", "z") if n not in [e[0] for e in ex]]
                    if free:
                        ex.append([rng.choice(free), gen_value(rng)])
                b["**"] = ex
            elif cand:
                k = rng.choice(cand)
                b[k] = gen_value(rng)
            cs, b = gen_call(rng, params, base=b)
            bindings.append(b)
        else:
            cs, b = gen_call(rng, params)
            bindings.append(b)
        vld = rng.random() > 0.12 or not sc["callback"]
        if vld or rng.random() < 0.5:     # an invalidating check would already delete the entry
            events.append(["check", 0, cs, vld])
        if rng.random() < 0.27:
            events.append(["shelve", 0, cs, vld])
            n_refs += 1
            if rng.random() < 0.8:
                events.append(["get", n_refs - 1])
        elif collide and vld and rng.random() < 0.3:
            # the other call routes: MemorizedFunc.call (forced execution), Memory.eval (a decoration without options,
            # hence only where nothing is ignored), a wrapper of Memory(None)
            route = rng.choice(["call", "eval", "nullmem"] if not ignore else ["call", "nullmem"])
            if route == "nullmem":
                events += [["nullmem", 0, cs], ["call", 0, cs, vld]]
            else:
                events.append(["call", 0, dict(cs, via=route), vld])
        else:
            events.append(["call", 0, cs, vld])
        r = rng.random()
        if r < 0.05:
            events.append(["clearfunc", 0])
        elif r < 0.08:
            events.append(["clearmem"])
        elif r < 0.12 and n_refs:
            events.append(["clearref", rng.randrange(n_refs)])
        elif r < 0.20:
            # an entry disappears by some public route (or behind joblib's back), here or in a second process
            route = rng.choice(["items", "items", "bytes", "age", "rmentry", "clearfunc2", "clearfunc2"])
            sidep = ["side"] if rng.random() < 0.35 and kind != "main" else []
            if route == "items":
                events.append(["evict", rng.randint(0, 3)] + sidep)
            elif route == "bytes":
                events.append(["evict", {"bytes": rng.choice([0, 200, "1K"])}] + sidep)
            elif route == "age":
                events.append(["evict", {"age": 0}] + sidep)
            elif route == "rmentry":
                events.append(["rmentry"])
            elif kind in ("def", "nested", "lambda") or not sidep:
                opts = {"ignore": rng.choice([None, list(ignore)]), "mmap_mode": rng.choice([None, "r"])}
                events.append(["clearfunc2", 0, opts] + (sidep if kind == "def" else []))
        elif r < 0.22 and n_refs:
            events.append(["get", rng.randrange(n_refs)])
        elif multi and r < 0.40:
            if sc["picklable"] and rng.random() < 0.5:
                # the cached function is sent to another process through pickle
                events += [["rewrap", 0, "dump"], ["newprocess"], ["define", 0], ["wrap", 0], ["rewrap", 0, "load"]]
            else:
                events += [["newprocess"], ["define", 0], ["wrap", 0]]
        elif sc["picklable"] and r < 0.62:
            events.append(["rewrap", 0, rng.choice(["pickle", "pickle", "copy", "deepcopy"])])
        elif r < 0.66 and not multi:
            events.append(["jlog"])      # the joblib objects used as arguments emit their first warnings
        elif r < 0.72 and kind in ("def", "nested", "async", "lambda"):
            # the cached function is decorated AGAIN with the same options (a new wrapper around the same function)
            events.append(["recache", 0, {"ignore": list(ignore)}])
        elif r < 0.44:
            events.append(["wrap", 0])
    if not multi and rng.random() < 0.25:
        # a store backend that is not a directory tree (registered through register_store_backend): one process only,
        # no reduce_size (the object store lists no items), nothing behind joblib's back
        sc["backend"] = "objstore"
        sc["mmap_mode"] = None
        events = [e for e in events if e[0] not in ("evict", "rmentry") and e[-1] != "side"
                  and not (e[0] == "rewrap" and e[2] in ("dump", "load"))]
    sc["events"] = events
    if not sc["callback"] and not sc["picklable"] and rng.random() < 0.5:
        # the validation callback is expires_after(...) with an expiry of a day or more: fresh entries stay valid
        sc["expires"] = rng.choice([{"days": 1}, {"weeks": 2}, {"hours": 36}, {"days": 7, "seconds": 1}, {"hours": 24}])
        if not collide and rng.random() < 0.5:
            # executions that last about / longer than the expiry (fake clock of the driver: seconds per described
            # parameter); validity counts from the COMPLETION of the call.  (A re-decoration drops the callback.)
            import datetime
            sc["slow"] = rng.choice([0.45, 0.6, 1.5, 3]) * datetime.timedelta(**sc["expires"]).total_seconds()
            sc["events"] = events = [e for e in sc["events"] if e[0] != "recache"]
    if rng.random() < 0.3 and not sc.get("backend"):
        sc["loc_form"] = rng.choice(["path", "tilde"])     # Memory(pathlib.Path(...)) / Memory("~/...") (HOME in the sandbox)
    if multi:
        sc["hashseeds"] = rng.sample(["0", "1", "2", "random", "4242"], 5)
        if kind in ("def", "method", "async") and rng.random() < 0.5:
            # the function MOVES in its file between the sessions (lines added / removed above it), text unchanged
            sc["pads"] = [rng.choice([0, 1, 2, 5]) for _ in range(6)]
        if kind == "def" and rng.random() < 0.6:
            # the function is defined in a notebook cell and the kernel is restarted under another pid
            sc["versions"]["0"]["kind"] = "ipycell"
            sc["pids"] = [str(rng.choice([7, 42, 123, 9876, 12345, 123456, 654321, 1234567, 87654321])) for _ in range(6)]
            sc["picklable"] = False
            sc["events"] = [e for e in events if e[0] != "rewrap" and not (e[0] == "clearfunc2" and e[-1] == "side")]
    return sc


def all_params(sc):
    return [sc["params"]] + [v["params"] for v in sc["versions"].values() if "params" in v]


def gen_pair_scenario(rng, sid, how):
    """two function objects that share ONE code object, cached in one process, calls interleaved:
    how='factory': closures of one factory (same text, same __code__, different __defaults__/__kwdefaults__);
    how='wraps'  : two functions behind one functools.wraps decorator with different underlying signatures."""
    sigs = [s_ for s_ in enum_signatures(3) if not shape_keys(s_) or rng.random() < 0.15]
    if how == "factory":
        base = rng.choice([s_ for s_ in sigs if any(p[2] is not None for p in s_)])
        pv = {}
        for k in (1, 2):
            pv[k] = [[n, kd, ({"i": 10 * k + i} if d is not None else None)] for i, (n, kd, d) in enumerate(base)]
    else:
        pv = {1: rng.choice(sigs), 2: rng.choice(sigs)}
    V = {str(k): {"tag": "v0", "path": "verifmod.py", "pad": 0, "kind": how, "text": 0, "params": pv[k]} for k in (1, 2)}
    sc = {"id": sid, "type": "sig", "params": pv[1], "ignore": [], "compress": False, "versions": V}
    events = [["define", 1], ["wrap", 1], ["define", 2], ["wrap", 2]]
    bindings = {1: [], 2: []}
    for _ in range(rng.randint(4, 12)):
        k = rng.choice([1, 2])
        if bindings[k] and rng.random() < 0.5:
            cs = equivalent_form(rng, pv[k], rng.choice(bindings[k]), [])
        elif how == "factory" and bindings[3 - k] and rng.random() < 0.4:
            cs = equivalent_form(rng, pv[k], rng.choice(bindings[3 - k]), [])   # the sibling's binding, spelled for k
        else:
            cs, b = gen_call(rng, pv[k])
            bindings[k].append(b)
        events += [["check", k, cs, True], ["call", k, cs, True]]
    sc["events"] = events
    return sc


# arrays with IDENTICAL raw bytes, shape and strides but different dtype (run under the numpy interpreter)
NP_GROUPS = [
    ("0100000002000000", [2], ["<i4", ">i4", "<u4", "<f4", ">u4"]),
    ("0100000002000000", [1], [[["a", "<i4"], ["b", "<i4"]], [["a", "<i4"], ["b", "<f4"]], [["x", "<i4"], ["b", "<i4"]],
                               [["a", "<i4", [2]]], [["a", ">i4"], ["b", "<i4"]], [["a", "<i2"], ["p", "<i2"], ["b", "<i4"]],
                               [["p", "<i2"], ["a", "<i2"], ["b", "<i4"]], [["a", "<i2", [2]], ["b", "<i4"]]]),
    # (dtypes with unnamed padding are left out: joblib hashes the raw memory including the padding bytes, whose
    #  content numpy does not define)
    ("0100000000000000", [1], ["<i8", "<M8[s]", "<M8[ms]", "<m8[s]", "<m8[ms]", "<u8", "<f8", ">i8"]),
    ("01000000", [1], ["S4", "<U1", "<i4", "V4", ">i4"]),
    ("0100010000010101", [8], ["?", "u1", "i1", "S1"]),
    ("0100000002000000", [2, 1], ["<i4", ">i4", "<f4"]),
]


def gen_numpy_scenario(rng, sid):
    """pairs / triples of arrays that differ ONLY in their dtype, each cached, then the twins called, then all
    again (hits), optionally in a fresh process: the digests must differ whenever the values differ"""
    hexbytes, shape, dts = rng.choice(NP_GROUPS)
    chosen = rng.sample(dts, rng.randint(2, min(4, len(dts))))
    arrs = [{"np": {"bytes": hexbytes, "dtype": d, "shape": shape}} for d in chosen]
    form = rng.choice(["pos", "kw", "nested"])
    sc = {"id": sid, "type": "sig", "py": "np", "params": [["a", "pk", None], ["b", "pk", I(0)]], "ignore": [],
          "compress": rng.choice([False, 3]),
          "versions": {"0": {"tag": "v0", "path": "verifmod.py", "pad": 0, "kind": rng.choice(["def", "method"])}}}

    def cs(a):
        if form == "kw":
            return {"pos": [], "kw": [["a", a]]}
        if form == "nested":
            return {"pos": [{"t": [a, I(1)]}], "kw": []}
        return {"pos": [a], "kw": []}
    ev = [["define", 0], ["wrap", 0]]
    order = list(arrs)
    for rnd in range(2):
        for a in order:
            ev += [["check", 0, cs(a), True], ["call", 0, cs(a), True]]
        rng.shuffle(order)
        if rnd == 0 and rng.random() < 0.3:
            ev += [["newprocess"], ["define", 0], ["wrap", 0]]
    sc["events"] = ev
    return sc


def gen_codeless_scenario(rng, sid):
    """callables WITHOUT __code__, 2-3 of them cached in one Memory and one process, interleaved histories:
    partials of functions with one qualname in different modules, partials of one method bound to distinct
    instances (default repr), nested partials, partials with equal positional but different keyword arguments,
    instances of a class with __call__ and different state.  Their 'source text' is their repr."""
    flavour = rng.choice(["modules", "methods", "nested", "keywords", "callables", "mixed"])
    nver = rng.choice([2, 2, 3])
    versions = {}
    for k in range(1, nver + 1):
        v = {"tag": "v0", "path": "codeless.py", "pad": 0, "kind": "partial", "text": k, "how": "func", "state": 0,
             "frozen": {"pos": [I(101)], "kw": []}}
        # (callable instances live under another function id than partials -- 'module/unknown' vs
        #  'functools/unknown' -- so they are not mixed with partials in one single-id model run)
        fl = flavour if flavour != "mixed" else rng.choice(["modules", "methods", "nested", "keywords"])
        if fl == "modules":
            v.update(path="codeless_%d.py" % k, tag="vmod%d" % k)          # same qualname g, other module, other body
        elif fl == "methods":
            v.update(how="method", state=k)                                 # K(k).m: reprs differ by an address only
        elif fl == "nested":
            v.update(how="nested", frozen={"pos": [I(101), I(200 + k)], "kw": []})
        elif fl == "keywords":
            v.update(frozen={"pos": [I(101)], "kw": [["d", I(20 + k)]]})
        else:
            v.update(how="callable", state=k)
        versions[str(k)] = v
    sc = {"id": sid, "type": "partial", "params": [["a", "pk", None], ["b", "pk", None], ["c", "pk", I(12)],
                                                  ["d", "ko", I(13)]],
          "ignore": [], "compress": False, "versions": versions, "mode": "own"}
    events = []
    for k in range(1, nver + 1):
        events += [["define", k], ["wrap", k]]
    nref = 0
    for _ in range(rng.randint(3, 9)):
        k = rng.randint(1, nver)
        x = I(rng.choice([0, 0, 1]))
        nested = versions[str(k)]["how"] == "nested"
        cs = {"pos": [] if nested else [x], "kw": [["c", x]] if nested else []}
        if rng.random() < 0.3 and not nested:
            cs = {"pos": [x], "kw": [["c", I(5)]]}
        if rng.random() < 0.4:
            events.append(["check", k, cs, True])
        if rng.random() < 0.25:
            events += [["shelve", k, cs, True], ["get", nref]]
            nref += 1
        else:
            events.append(["call", k, cs, True])
    sc["events"] = events
    return sc


def gen_partial_scenario(rng, sid):
    """2-3 functools.partial objects of ONE function with different frozen arguments, one process, interleaved
    histories.  A partial has no __name__: func id 'functools/unknown', source text repr(partial), keyed by the
    raw call form; it must never enter _FUNCTION_HASHES."""
    params = [["a", "pk", None], ["b", "pk", None], ["c", "pk", {"i": 12}], ["d", "ko", {"i": 13}]]
    nver = rng.choice([2, 2, 3])
    versions = {}
    for k in range(1, nver + 1):
        fkw = [["d", {"i": 20 + k}]] if rng.random() < 0.4 else []
        versions[str(k)] = {"tag": "v0", "path": "verifmod.py", "pad": 0, "kind": "partial", "text": k,
                            "frozen": {"pos": [{"i": 100 + k}], "kw": fkw}}
    sc = {"id": sid, "type": "partial", "params": params, "ignore": [], "compress": rng.choice([False, 3]),
          "versions": versions, "mode": "own"}
    events = []
    for k in range(1, nver + 1):
        events += [["define", k], ["wrap", k]]
    nref = 0
    for _ in range(rng.randint(3, 10)):
        k = rng.randint(1, nver)
        x = {"i": rng.choice([0, 0, 1])}
        form = rng.random()
        cs = {"pos": [x], "kw": []} if form < 0.6 else (
            {"pos": [x], "kw": [["c", {"i": 5}]]} if form < 0.8 else {"pos": [x, {"i": 5}], "kw": []})
        if rng.random() < 0.4:
            events.append(["check", k, cs, True])
        if rng.random() < 0.25:
            events += [["shelve", k, cs, True], ["get", nref]]
            nref += 1
        else:
            events.append(["call", k, cs, True])
        if rng.random() < 0.05:
            events.append(["clearmem"])
    sc["events"] = events
    return sc


def _call(k, pos, kw=(), kind="call"):
    return [kind, k, {"pos": [I(v) for v in pos], "kw": [[n, I(v)] for n, v in kw]}, True]


def fixed_scenarios(prop):
    """small hand-written histories that must PASS on the unchanged tree (they pin callable kinds that random
    generation reaches only with some probability)"""
    out = []
    if prop in ("C02", "C06"):
        # bound method with *args: obj.evaluate(2), (2,3), (2,5), (2,7,3), (2,1,3) are five different bindings
        ev = [["define", 0], ["wrap", 0]]
        for pos in ([2], [2, 3], [2, 5], [2, 1, 3], [2, 7, 3], [2, 7], [2, 7, 4], [2], [2, 0], [2, 7, 3], [2, 1]):
            ev += [_call(0, pos, kind="check"), _call(0, pos)]
        ev += [_call(0, [2, 7, 3], kind="shelve"), ["get", 0]]
        out.append({"id": "fixed-method-varargs", "type": "sig",
                    "params": [["x", "pk", None], ["y", "pk", I(0)], ["rest", "va", None]], "ignore": [],
                    "compress": False,
                    "versions": {"0": {"tag": "v0", "path": "verifmod.py", "pad": 0, "kind": "method"}},
                    "events": ev})
        # two partials of one function: p1(x); p2(x); p1(x) (+ shelved)
        V = {str(k): {"tag": "v0", "path": "verifmod.py", "pad": 0, "kind": "partial", "text": k,
                      "frozen": {"pos": [I(100 + k)], "kw": []}} for k in (1, 2)}
        ev = [["define", 1], ["wrap", 1], ["define", 2], ["wrap", 2], _call(1, [0]), _call(2, [0]), _call(1, [0]),
              _call(2, [0], kind="shelve"), ["get", 0], _call(1, [0], kind="shelve"), ["get", 1], _call(2, [0])]
        out.append({"id": "fixed-partials", "type": "partial",
                    "params": [["a", "pk", None], ["b", "pk", None], ["c", "pk", I(12)], ["d", "ko", I(13)]],
                    "ignore": [], "compress": False, "versions": V, "mode": "own", "events": ev})
    if prop in ("C02", "C06"):
        # C06-15: joblib's own objects as argument values; they emit their first warnings between two equivalent calls
        ev = [["define", 0], ["wrap", 0]]
        jv = [{"j": "memfunc"}, {"j": "memory"}, {"j": "holder"}, {"t": [{"j": "memory"}, I(1)]}]
        for v in jv:
            ev += [["check", 0, {"pos": [v], "kw": []}, True], ["call", 0, {"pos": [v], "kw": []}, True]]
        ev.append(["jlog"])
        for v in jv:
            ev += [["check", 0, {"pos": [v], "kw": []}, True], ["call", 0, {"pos": [], "kw": [["a", v]]}, True]]
        out.append({"id": "fixed-joblib-objects-as-arguments", "type": "sig", "callback": False,
                    "params": [["a", "pk", None], ["b", "pk", I(0)]], "ignore": [], "compress": False,
                    "versions": {"0": {"tag": "v0", "path": "verifmod.py", "pad": 0, "kind": "def"}}, "events": ev})
        # fixed finding F53: parameters named like joblib's own (self, func, args, kwargs, cls, ignore_lst, call_id,
        # shelving), passed by keyword and positionally through every route (__call__, check_call_in_cache,
        # call_and_shelve, call, Memory.eval, the wrapper of Memory(None))
        def kc(kind_, pos, kw, via=None):
            cs = {"pos": [I(v) for v in pos], "kw": [[n_, I(v)] for n_, v in kw]}
            if via:
                cs["via"] = via
            return [kind_, 0, cs, True]
        for n_, name in enumerate(COLLIDING_NAMES):
            other = COLLIDING_NAMES[(n_ + 1) % len(COLLIDING_NAMES)]
            for fk in (("def", "async") if name in ("self", "func") else ("def",)):
                ev = [["define", 0], ["wrap", 0], kc("check", [], [(name, 1), (other, 2)]),
                      kc("call", [], [(name, 1), (other, 2)]), kc("check", [1, 2], []), kc("call", [1, 2], []),
                      kc("shelve", [1], [(other, 2)]), ["get", 0], kc("call", [], [(other, 3), (name, 1)], via="call"),
                      kc("call", [], [(name, 1), (other, 3)]), kc("call", [], [(name, 4)], via="eval"),
                      kc("call", [4], []), ["nullmem", 0, kc("call", [], [(name, 1), (other, 2)])[2]],
                      kc("shelve", [], [(name, 5)]), ["get", 1], kc("check", [], [(name, 5)])]
                out.append({"id": "fixed-parameter-named-%s-%s" % (name, fk), "type": "sig", "callback": False,
                            "params": [[name, "pk", None], [other, "pk", I(0)]], "ignore": [], "compress": False,
                            "versions": {"0": {"tag": "v0", "path": "verifmod.py", "pad": 0, "kind": fk}},
                            "events": ev})
        # ... as keyword-only parameters, and as surplus keywords of a ** parameter
        ev = [["define", 0], ["wrap", 0]]
        for kw_ in ([("self", 1), ("func", 2)], [("func", 2), ("self", 1)], [("self", 1)], [("self", 3), ("func", 2)]):
            ev += [kc("check", [0], kw_), kc("call", [0], kw_)]
        ev += [kc("call", [0], [("self", 1)], via="call"), kc("call", [0], [("func", 9), ("self", 1)], via="eval"),
               ["nullmem", 0, kc("call", [0], [("self", 1), ("func", 2)])[2]], kc("shelve", [0], [("self", 1)]), ["get", 0]]
        out.append({"id": "fixed-keyword-only-self-func", "type": "sig", "callback": False,
                    "params": [["a", "pk", None], ["self", "ko", None], ["func", "ko", I(7)]], "ignore": [],
                    "compress": False,
                    "versions": {"0": {"tag": "v0", "path": "verifmod.py", "pad": 0, "kind": "def"}}, "events": ev})
        ev = [["define", 0], ["wrap", 0]]
        for kw_ in ([("self", 1)], [("self", 1), ("func", 2), ("args", 3)], [("args", 3), ("self", 1), ("func", 2)],
                    [("cls", 1), ("call_id", 2), ("shelving", 3), ("ignore_lst", 4), ("kwargs", 5)], [("self", 1)]):
            ev += [kc("check", [0], kw_), kc("call", [0], kw_)]
        ev += [kc("call", [0], [("self", 1)], via="call"), kc("call", [0], [("func", 2), ("self", 1)], via="eval"),
               ["nullmem", 0, kc("call", [0], [("self", 1), ("func", 2), ("cls", 3)])[2]],
               kc("shelve", [0], [("shelving", 1)]), ["get", 0]]
        out.append({"id": "fixed-surplus-keywords-named-like-joblib", "type": "sig", "callback": False,
                    "params": [["a", "pk", None], ["kw", "vk", None]], "ignore": [], "compress": False,
                    "versions": {"0": {"tag": "v0", "path": "verifmod.py", "pad": 0, "kind": "def"}}, "events": ev})
        # C06-16: expires_after with an expiry of a day or more
        for n_, spec in enumerate(({"days": 1}, {"weeks": 2}, {"hours": 36}, {"days": 7, "seconds": 1})):
            ev = [["define", 0], ["wrap", 0], _call(0, [1], kind="check"), _call(0, [1]), _call(0, [1], kind="check"),
                  _call(0, [1]), _call(0, [], [("a", 1)]), _call(0, [1, 0]), _call(0, [1], kind="shelve"), ["get", 0]]
            out.append({"id": "fixed-expires-after-%d" % n_, "type": "sig", "callback": False, "expires": spec,
                        "params": [["a", "pk", None], ["b", "pk", I(0)]], "ignore": [], "compress": False,
                        "versions": {"0": {"tag": "v0", "path": "verifmod.py", "pad": 0, "kind": "def"}}, "events": ev})
        # C06-17: executions that take about / longer than the expiry: validity counts from the completion of the call
        for n_, (spec, factor) in enumerate((({"days": 1}, 1.5), ({"hours": 36}, 0.6), ({"weeks": 2}, 3), ({"hours": 24}, 0.45))):
            import datetime
            ev = [["define", 0], ["wrap", 0], _call(0, [1]), _call(0, [1], kind="check"), _call(0, [1]),
                  _call(0, [], [("a", 1)]), _call(0, [1, 0]), _call(0, [2], kind="shelve"), ["get", 0],
                  _call(0, [2], kind="check"), _call(0, [2]), _call(0, [1], kind="check"), _call(0, [1]),
                  _call(0, [1]), _call(0, [3]), _call(0, [3]), _call(0, [2], kind="check"), _call(0, [2])]
            out.append({"id": "fixed-expires-after-slow-%d" % n_, "type": "sig", "callback": False, "expires": spec,
                        "slow": factor * datetime.timedelta(**spec).total_seconds(),
                        "params": [["a", "pk", None], ["b", "pk", I(0)]], "ignore": [], "compress": False,
                        "versions": {"0": {"tag": "v0", "path": "verifmod.py", "pad": 0, "kind": "def"}}, "events": ev})
        # C12-18 under the C06 oracle: an unchanged __main__ script run with a relative path from other working directories
        ev = []
        for n in range(5):
            ev += [["define", 0], ["wrap", 0], _call(0, [1], kind="check"), _call(0, [1]), _call(0, [], [("a", 1)]),
                   _call(0, [2])] + ([["newprocess"]] if n < 4 else [])
        out.append({"id": "fixed-main-script-relative-paths-sig", "type": "sig", "callback": False,
                    "cwds": ["here", "parent", "dot", "updown", "abs"],
                    "params": [["a", "pk", None], ["b", "pk", I(0)]], "ignore": [], "compress": False,
                    "versions": {"0": {"tag": "v0", "path": "verifmod.py", "pad": 0, "kind": "main"}}, "events": ev})
        # slow executions x a KNOWN key collision (F1: positional-only parameters dropped from the key): the colliding
        # call rewrites -- refreshes -- the entry, so its age is the age of what the store holds under the real key.
        # Short form, and the generated history (C02 seed 20260930, r-97) on which the first bookkeeping (by binding) broke.
        def pc(kind_, a, b, c):
            return [kind_, 0, {"pos": [I(a), I(b), I(c)], "kw": []}, True]
        out.append({"id": "fixed-slow-expiry-key-collision", "type": "sig", "callback": False, "expires": {"hours": 24},
                    "slow": 259200.0, "params": [["a", "po", None], ["b", "po", I(11)], ["c", "po", I(12)],
                                                 ["kw", "vk", None]], "ignore": [], "compress": False,
                    "versions": {"0": {"tag": "v0", "path": "verifmod.py", "pad": 0, "kind": "def"}},
                    "events": [["define", 0], ["wrap", 0], pc("call", 5, 11, 12), pc("call", 2, 1, 1),
                               pc("check", 5, 11, 0), pc("call", 5, 11, 0), pc("check", 5, 11, 12),
                               pc("call", 5, 11, 12), pc("check", 5, 11, 0), pc("call", 5, 11, 0), pc("call", 2, 1, 1)]})
        out.append(json.loads('{"callback": false, "compress": false, "events": [["define", 0], ["wrap", 0], ["check", 0, {"kw": [["x", {"d": []}]], "pos": [{"i": 5}, {"i": 11}, {"i": 12}]}, true], ["call", 0, {"kw": [["x", {"d": []}]], "pos": [{"i": 5}, {"i": 11}, {"i": 12}]}, true], ["jlog"], ["check", 0, {"kw": [["x", {"d": []}]], "pos": [{"i": 5}]}, true], ["shelve", 0, {"kw": [["x", {"d": []}]], "pos": [{"i": 5}]}, true], ["jlog"], ["check", 0, {"kw": [["x", {"d": []}]], "pos": [{"i": 5}, {"i": 11}]}, true], ["call", 0, {"kw": [["x", {"d": []}]], "pos": [{"i": 5}, {"i": 11}]}, true], ["evict", {"bytes": 0}], ["check", 0, {"kw": [], "pos": [{"b": true}, {"S": [{"i": 1}, {"i": 2}]}, {"n": 0}]}, true], ["call", 0, {"kw": [], "pos": [{"b": true}, {"S": [{"i": 1}, {"i": 2}]}, {"n": 0}]}, true], ["jlog"], ["check", 0, {"kw": [], "pos": [{"b": true}, {"S": [{"i": 1}, {"i": 2}]}, {"n": 0}]}, true], ["call", 0, {"kw": [], "pos": [{"b": true}, {"S": [{"i": 1}, {"i": 2}]}, {"n": 0}]}, true], ["jlog"], ["check", 0, {"kw": [], "pos": [{"b": true}, {"S": [{"i": 1}, {"i": 2}]}, {"b": false}]}, true], ["call", 0, {"kw": [], "pos": [{"b": true}, {"S": [{"i": 1}, {"i": 2}]}, {"b": false}]}, true], ["evict", 2], ["check", 0, {"kw": [["y", {"i": 2}]], "pos": [{"b": true}, {"S": [{"i": 1}, {"i": 2}]}, {"n": 0}]}, true], ["shelve", 0, {"kw": [["y", {"i": 2}]], "pos": [{"b": true}, {"S": [{"i": 1}, {"i": 2}]}, {"n": 0}]}, true], ["clearfunc2", 0, {"ignore": [], "mmap_mode": null}], ["check", 0, {"kw": [["x", {"d": []}]], "pos": [{"i": 5}, {"i": 11}, {"i": 0}]}, true], ["call", 0, {"kw": [["x", {"d": []}]], "pos": [{"i": 5}, {"i": 11}, {"i": 0}]}, true], ["clearref", 0], ["check", 0, {"kw": [], "pos": [{"b": true}, {"S": [{"i": 2}, {"i": 1}]}, {"n": 0}]}, true], ["shelve", 0, {"kw": [], "pos": [{"b": true}, {"S": [{"i": 2}, {"i": 1}]}, {"n": 0}]}, true], ["get", 2], ["jlog"], ["check", 0, {"kw": [["x", {"d": []}]], "pos": [{"i": 5}, {"i": 11}, {"i": 12}]}, true], ["call", 0, {"kw": [["x", {"d": []}]], "pos": [{"i": 5}, {"i": 11}, {"i": 12}]}, true], ["check", 0, {"kw": [["x", {"d": []}]], "pos": [{"i": 5}, {"i": 11}, {"i": 0}]}, true], ["call", 0, {"kw": [["x", {"d": []}]], "pos": [{"i": 5}, {"i": 11}, {"i": 0}]}, true], ["jlog"], ["check", 0, {"kw": [["z", {"t": []}]], "pos": [{"i": 2}, {"t": [{"i": 1}, {"i": 2}]}, {"d": [[{"i": 1}, {"i": 5}], [{"s": "k"}, {"i": 6}]]}]}, true], ["call", 0, {"kw": [["z", {"t": []}]], "pos": [{"i": 2}, {"t": [{"i": 1}, {"i": 2}]}, {"d": [[{"i": 1}, {"i": 5}], [{"s": "k"}, {"i": 6}]]}]}, true], ["jlog"]], "expires": {"hours": 24}, "id": "fixed-slow-expiry-key-collision-r97", "ignore": [], "mmap_mode": null, "params": [["a", "po", null], ["b", "po", {"i": 11}], ["c", "po", {"i": 12}], ["kw", "vk", null]], "picklable": false, "slow": 259200.0, "type": "sig", "verbose": 60, "versions": {"0": {"kind": "lambda", "pad": 2, "path": "verifmod.py", "tag": "v0"}}}'))
        # C06-13: the function MOVES in its file between two sessions (lines added above it), text unchanged
        ev = []
        for n in range(3):
            ev += [["define", 0], ["wrap", 0], _call(0, [1], kind="check"), _call(0, [1]), _call(0, [2])]
            if n < 2:
                ev.append(["newprocess"])
        out.append({"id": "fixed-function-moved-in-file", "type": "sig", "callback": False, "pads": [0, 3, 1],
                    "params": [["a", "pk", None], ["b", "pk", I(0)]], "ignore": [], "compress": False,
                    "versions": {"0": {"tag": "v0", "path": "verifmod.py", "pad": 0, "kind": "def"}}, "events": ev})
        # C06-14: Memory(pathlib.Path) / Memory("~/..."): Memory.clear(), a call, then a fresh process
        for form in ("path", "tilde"):
            ev = [["define", 0], ["wrap", 0], _call(0, [1]), _call(0, [1]), ["clearmem"], _call(0, [1], kind="check"),
                  _call(0, [1]), _call(0, [2]), ["newprocess"], ["define", 0], ["wrap", 0], _call(0, [1], kind="check"),
                  _call(0, [1]), _call(0, [2], kind="check"), _call(0, [2])]
            out.append({"id": "fixed-location-%s-clear" % form, "type": "sig", "callback": False, "loc_form": form,
                        "params": [["a", "pk", None], ["b", "pk", I(0)]], "ignore": [], "compress": False,
                        "versions": {"0": {"tag": "v0", "path": "verifmod.py", "pad": 0, "kind": "def"}}, "events": ev})
        # the documented store-backend interface on an object store that is not a directory tree
        ev = [["define", 0], ["wrap", 0]]
        for pos, kw in (([1], []), ([1, 2], []), ([1], [("b", 2)]), ([], [("b", 2), ("a", 1)]), ([3], []), ([1], [])):
            ev += [_call(0, pos, kw, kind="check"), _call(0, pos, kw)]
        ev += [_call(0, [3], kind="shelve"), ["get", 0], ["get", 0], ["clearfunc", 0], _call(0, [1], kind="check"),
               _call(0, [1]), _call(0, [1])]
        out.append({"id": "fixed-object-store-backend", "type": "sig", "backend": "objstore", "callback": False,
                    "params": [["a", "pk", None], ["b", "pk", I(2)]], "ignore": [], "compress": False,
                    "versions": {"0": {"tag": "v0", "path": "verifmod.py", "pad": 0, "kind": "def"}}, "events": ev})
        # an async function, decorated again with options: completed calls stay hits
        ev = [["define", 0], ["wrap", 0], _call(0, [1], kind="check"), _call(0, [1]), _call(0, [1]),
              ["recache", 0, {"ignore": ["b"]}], _call(0, [1], kind="check"), _call(0, [1]), _call(0, [2]), _call(0, [2]),
              ["recache", 0, {"ignore": None}], _call(0, [2]), _call(0, [2], kind="shelve"), ["get", 0]]
        out.append({"id": "fixed-async-redecorated", "type": "sig", "callback": False,
                    "params": [["a", "pk", None], ["b", "pk", I(0)]], "ignore": ["b"], "compress": False,
                    "versions": {"0": {"tag": "v0", "path": "verifmod.py", "pad": 0, "kind": "async"}}, "events": ev})
        # re-decoration WITHOUT options (and Memory.eval) drops the ignore list: calls that differ in the formerly
        # ignored argument are separate entries with their own values (the function does depend on b here)
        def cb(a, b, via=None, kind="call"):
            cs = {"pos": [I(a), I(b)], "kw": []}
            if via:
                cs["via"] = via
            return [kind, 0, cs, True]
        ev = [["define", 0], ["wrap", 0], cb(1, 7, kind="check"), cb(1, 7), cb(1, 7), cb(2, 7),
              ["recache", 0, {"ignore": None}],
              cb(1, 8, kind="check"), cb(1, 8), cb(1, 9), cb(1, 8), cb(1, 7),
              ["recache", 0, {"ignore": ["b"]}], cb(3, 7), cb(3, 7),
              cb(3, 5, via="eval"), cb(3, 6, via="eval"), cb(3, 5, via="eval")]
        out.append({"id": "fixed-redecorated-without-options", "type": "sig", "callback": False, "body_ignore": [],
                    "params": [["a", "pk", None], ["b", "pk", I(0)]], "ignore": ["b"], "compress": False,
                    "versions": {"0": {"tag": "v0", "path": "verifmod.py", "pad": 0, "kind": "def"}}, "events": ev})
        # a shelved reference read several times, the caller mutating what it received in between
        lst = {"l": [I(1), {"l": [I(2)]}]}
        dct = {"d": [[{"s": "k"}, {"l": [I(3)]}]]}
        ev = [["define", 0], ["wrap", 0]]
        for n, v in enumerate((lst, dct)):
            cs = {"pos": [v], "kw": []}
            ev += [["shelve", 0, cs, True], ["get", n], ["get", n], ["call", 0, cs, True], ["get", n]]
        out.append({"id": "fixed-repeated-get-after-mutation", "type": "sig", "callback": False,
                    "params": [["a", "pk", None], ["b", "pk", I(0)]], "ignore": [], "compress": False,
                    "versions": {"0": {"tag": "v0", "path": "verifmod.py", "pad": 0, "kind": "def"}}, "events": ev})
        # callable arguments: bound classmethods of same-named classes (nested / in two modules), same-named
        # functions of two modules, builtins, bound methods of module objects, partials -- each its own entry
        ev = [["define", 0], ["wrap", 0]]
        for nm in CALLABLE_ARGS + CALLABLE_ARGS[::-1]:
            cs = {"pos": [{"c": nm}], "kw": []}
            ev += [["check", 0, cs, True], ["call", 0, cs, True]]
        out.append({"id": "fixed-callable-arguments", "type": "sig", "callback": False,
                    "params": [["a", "pk", None], ["b", "pk", I(0)]], "ignore": [], "compress": False,
                    "versions": {"0": {"tag": "v0", "path": "verifmod.py", "pad": 0, "kind": "def"}}, "events": ev})
        # a function defined in a notebook cell: the kernel is restarted with pids of 3 ... 8 digits
        ev = []
        for n in range(6):
            ev += [["define", 0], ["wrap", 0], _call(0, [1], kind="check"), _call(0, [1]), _call(0, [1, 2])]
            if n < 5:
                ev.append(["newprocess"])
        out.append({"id": "fixed-ipykernel-restarts", "type": "sig", "callback": False,
                    "pids": ["123", "1234", "12345", "123456", "1234567", "12345678"],
                    "params": [["a", "pk", None], ["b", "pk", I(0)]], "ignore": [], "compress": False,
                    "versions": {"0": {"tag": "v0", "path": "cell.py", "pad": 0, "kind": "ipycell"}}, "events": ev})
        # values equal under == but of different type, through ONE wrapper in one process: every one is its own entry
        ev = [["define", 0], ["wrap", 0]]
        one = [{"i": 1}, {"f": "1.0"}, {"b": True}]
        groups = [one, [{"t": [v, {"s": "a"}]} for v in one], [{"F": [v]} for v in one],
                  [{"d": [[v, I(0)], [{"s": "k"}, I(0)]]} for v in one], [{"d": [[v, I(0)]]} for v in one],
                  [{"d": [[{"s": "k"}, v]]} for v in one], [{"S": [v, {"s": "z"}]} for v in one]]
        for grp in groups:
            for v in grp + grp[::-1]:
                cs = {"pos": [v], "kw": []}
                ev += [["check", 0, cs, True], ["call", 0, cs, True]]
        out.append({"id": "fixed-type-twins-1-1.0-True", "type": "sig", "callback": False,
                    "params": [["a", "pk", None], ["b", "pk", I(0)]], "ignore": [], "compress": False,
                    "versions": {"0": {"tag": "v0", "path": "verifmod.py", "pad": 0, "kind": "def"}}, "events": ev})
        # every public eviction route (and one behind joblib's back) against a long-lived wrapper WITHOUT a validation
        # callback: after each, check_call_in_cache / call / call_and_shelve().get() must agree with the store
        ev = [["define", 0], ["wrap", 0]]
        routes = [["evict", 0], ["evict", {"bytes": 0}], ["evict", {"age": 0}], ["rmentry"], ["clearmem"],
                  ["clearfunc2", 0, {"ignore": None, "mmap_mode": None}], ["clearfunc2", 0, {"ignore": ["b"], "mmap_mode": "r"}],
                  ["evict", 0, "side"], ["clearfunc2", 0, {"ignore": None, "mmap_mode": None}, "side"], ["clearref", 0]]
        nref = 0
        for n, route in enumerate(routes):
            ev += [_call(0, [n], kind="check"), _call(0, [n]), _call(0, [n], kind="check"), _call(0, [n])]
            if route[0] == "clearref":
                ev += [_call(0, [n], kind="shelve")]
                route = ["clearref", nref]
                nref += 1
            ev += [route, _call(0, [n], kind="check"), _call(0, [n], kind="shelve"), ["get", nref], _call(0, [n])]
            nref += 1
        out.append({"id": "fixed-eviction-by-every-route", "type": "sig", "callback": False,
                    "params": [["a", "pk", None], ["b", "pk", I(0)]], "ignore": [], "compress": False,
                    "versions": {"0": {"tag": "v0", "path": "verifmod.py", "pad": 0, "kind": "def"}}, "events": ev})
        # a default that compares equal to everything (unittest.mock.ANY): search('k') / search('k', ANY, 10) /
        # search('k', limit=10) are one binding
        ANY = {"o": "eqall"}
        ev = [["define", 0], ["wrap", 0]]
        for cs in ({"pos": [{"s": "k"}], "kw": []}, {"pos": [{"s": "k"}, ANY, I(10)], "kw": []},
                   {"pos": [{"s": "k"}], "kw": [["limit", I(10)]]}, {"pos": [], "kw": [["key", {"s": "k"}], ["pattern", ANY]]},
                   {"pos": [{"s": "k"}, {"o": "eqnone"}], "kw": []}, {"pos": [{"s": "k"}, {"o": "eqnone"}, I(10)], "kw": []}):
            ev += [["check", 0, cs, True], ["call", 0, cs, True]]
        out.append({"id": "fixed-default-compares-equal-to-everything", "type": "sig",
                    "params": [["key", "pk", None], ["pattern", "pk", ANY], ["limit", "pk", I(10)]], "ignore": [],
                    "compress": False, "versions": {"0": {"tag": "v0", "path": "verifmod.py", "pad": 0, "kind": "def"}},
                    "events": ev})
        # verbose Memory + a wrapper that went through pickle / copy / another process before the repeated call
        for vb in (2, 11):
            ev = [["define", 0], ["wrap", 0], _call(0, [1], kind="check"), _call(0, [1]), ["rewrap", 0, "pickle"],
                  _call(0, [1], kind="check"), _call(0, [1]), ["rewrap", 0, "copy"], _call(0, [1]), _call(0, [2]),
                  ["rewrap", 0, "deepcopy"], _call(0, [2]), _call(0, [1], kind="shelve"), ["get", 0],
                  ["rewrap", 0, "dump"], ["newprocess"], ["define", 0], ["wrap", 0], ["rewrap", 0, "load"],
                  _call(0, [1], kind="check"), _call(0, [1]), _call(0, [2])]
            out.append({"id": "fixed-verbose-%d-pickled-wrapper" % vb, "type": "sig", "verbose": vb, "picklable": True,
                        "params": [["a", "pk", None], ["b", "pk", I(0)]], "ignore": [], "compress": False,
                        "versions": {"0": {"tag": "v0", "path": "verifmod.py", "pad": 0,
                                           "kind": "def" if vb == 2 else "method"}}, "events": ev})
        # callables without __code__ whose reprs differ by an address only: p1(x); p2(x); p1(x)
        for fl, upd in (("modules", lambda k: {"path": "codeless_%d.py" % k, "tag": "vmod%d" % k}),
                        ("methods", lambda k: {"how": "method", "state": k}),
                        ("callables", lambda k: {"how": "callable", "state": k})):
            V = {}
            for k in (1, 2):
                V[str(k)] = dict({"tag": "v0", "path": "codeless.py", "pad": 0, "kind": "partial", "text": k,
                                  "how": "func", "state": 0, "frozen": {"pos": [I(101)], "kw": []}}, **upd(k))
            ev = [["define", 1], ["wrap", 1], ["define", 2], ["wrap", 2], _call(1, [0]), _call(2, [0]), _call(1, [0]),
                  _call(2, [0], kind="shelve"), ["get", 0], _call(1, [0], kind="shelve"), ["get", 1], _call(2, [1])]
            out.append({"id": "fixed-codeless-%s" % fl, "type": "partial",
                        "params": [["a", "pk", None], ["b", "pk", None], ["c", "pk", I(12)], ["d", "ko", I(13)]],
                        "ignore": [], "compress": False, "versions": V, "mode": "own", "events": ev})
        # (a) a dict / set argument with keys of mixed kinds, repeated (rebuilt in other orders) in fresh processes
        #     that run under different PYTHONHASHSEED values
        mixed = {"d": [[{"i": 1}, I(1)], [{"s": "k"}, I(2)], [{"y": "k"}, I(3)], [{"t": [I(1), {"s": "a"}]}, I(4)],
                       [{"n": 0}, I(5)]]}
        mset = {"S": [{"i": 1}, {"s": "k"}, {"y": "k"}, {"n": 0}]}
        rev = {"d": list(reversed(mixed["d"]))}
        rset = {"S": list(reversed(mset["S"]))}
        ev = [["define", 0], ["wrap", 0]]
        for n, (a, b) in enumerate([(mixed, mset), (rev, rset), (mixed, rset), (rev, mset), (mixed, mset)]):
            cs = {"pos": [a], "kw": [["b", b]]}
            ev += [["check", 0, cs, True], ["call", 0, cs, True]]
            if n < 4:
                ev += [["newprocess"], ["define", 0], ["wrap", 0]]
        out.append({"id": "fixed-mixed-keys-hashseeds", "type": "sig", "hashseeds": ["0", "1", "2", "random", "77"],
                    "params": [["a", "pk", None], ["b", "pk", I(0)]], "ignore": [], "compress": False,
                    "versions": {"0": {"tag": "v0", "path": "verifmod.py", "pad": 0, "kind": "def"}}, "events": ev})
        # (b) closures of one factory: def make(k): def f(x, factor=k)
        pv = {k: [["x", "pk", None], ["factor", "pk", I(k)]] for k in (3, 4)}
        V = {str(i + 1): {"tag": "v0", "path": "verifmod.py", "pad": 0, "kind": "factory", "text": 0, "params": pv[k]}
             for i, k in enumerate((3, 4))}
        ev = [["define", 1], ["wrap", 1], ["define", 2], ["wrap", 2]]
        for k, pos, kw in [(1, [5], []), (2, [5], []), (2, [5, 4], []), (2, [], [("x", 5), ("factor", 4)]),
                           (1, [5, 3], []), (1, [], [("x", 5), ("factor", 3)]), (2, [5, 3], []), (1, [5, 4], [])]:
            ev += [_call(k, pos, kw, kind="check"), _call(k, pos, kw)]
        out.append({"id": "fixed-factory-closures", "type": "sig", "params": pv[3], "ignore": [], "compress": False,
                    "versions": V, "events": ev})
        #     two functions behind one functools.wraps decorator, different underlying signatures
        pw = {1: [["a", "pk", None], ["b", "pk", I(1)]], 2: [["x", "pk", None], ["y", "ko", I(2)], ["z", "ko", I(3)]]}
        V = {str(k): {"tag": "v0", "path": "verifmod.py", "pad": 0, "kind": "wraps", "text": 0, "params": pw[k]}
             for k in (1, 2)}
        ev = [["define", 1], ["wrap", 1], ["define", 2], ["wrap", 2]]
        for k, pos, kw in [(1, [5], []), (2, [5], []), (2, [5], [("z", 3)]), (1, [5, 1], []), (2, [], [("x", 5), ("y", 2)]),
                           (1, [], [("a", 5)]), (2, [6], [("y", 0)])]:
            ev += [_call(k, pos, kw, kind="check"), _call(k, pos, kw)]
        out.append({"id": "fixed-wraps-pair", "type": "sig", "params": pw[1], "ignore": [], "compress": False,
                    "versions": V, "events": ev})
    if prop == "C12":
        # hot reload into a long-lived MemorizedFunc: edit in place (same first line), install the new code object,
        # call with an argument cached before -> must recompute; an equal code object -> may hit
        V = {"1": {"tag": "v1", "path": "verifmod.py", "pad": 0, "kind": "def", "text": 1},
             "2": {"tag": "v2", "path": "verifmod.py", "pad": 0, "kind": "def", "text": 2}}
        out.append({"id": "fixed-hot-reload", "type": "c12", "params": [["x", "pk", None]], "ignore": [],
                    "compress": False, "versions": V, "mode": "same",
                    "events": [["define", 1], ["wrap", 1], _c(1), _c(1), _c(1, 1), ["hotreload", 1, 2],
                               _c(2), _c(2), _c(2, 1), ["recode", 2], _c(2)]})
        # fixed finding F36 (was F18): c(0); equal recompilation assigned; c(0); file rewritten + edited code
        # assigned (it may land on the recycled address of the first code object); c(0) must run the new code
        out.append({"id": "fixed-recode-then-hot-reload-F36", "type": "c12", "params": [["x", "pk", None]], "ignore": [],
                    "compress": False, "versions": {k: dict(v) for k, v in V.items()}, "mode": "same",
                    "events": [["define", 1], ["wrap", 1], _c(1), ["recode", 1], _c(1), ["hotreload", 1, 2], _c(2), _c(2),
                               _c(2, 1)]})
        # every physical line of a multi-line body edited in turn, across fresh processes / in process
        import random as _r
        out.append(gen_edit_scenario(_r.Random(1), "fixed-edit-every-line-a", slots=[0, 1, 2, 3]))
        out.append(gen_edit_scenario(_r.Random(2), "fixed-edit-every-line-b", slots=[4, 5, 6, 7]))
        out += fixed_indent_scenarios()
        # fixed finding F45: location 1 holds f(0) computed by the OLD text; in the next session the edited function is
        # first called at the empty location 0 (which registers it in _FUNCTION_HASHES), then at location 1
        V = {"1": {"tag": "v1", "path": "verifmod.py", "pad": 0, "kind": "def", "text": 1},
             "2": {"tag": "v2", "path": "verifmod.py", "pad": 0, "kind": "def", "text": 2}}

        def cl(k, L, a=0):
            return ["call", k, {"pos": [I(a)], "kw": []}, True, L]
        out.append({"id": "fixed-two-locations-F45", "type": "c12", "locs": 2, "params": [["x", "pk", None]],
                    "ignore": [], "compress": False, "versions": V, "mode": "same",
                    "events": [["define", 1], ["wrap", 1, 1], cl(1, 1), ["newprocess"], ["define", 2], ["wrap", 2, 0],
                               ["wrap", 2, 1], cl(2, 0), cl(2, 1), cl(2, 0), cl(2, 1), cl(2, 1, 1)]})
        # C12-16: the first use in a fresh session after an edit is MemorizedFunc.call (forced execution)
        def cf(k, a=0):
            return ["call", k, {"pos": [I(a)], "kw": [], "via": "call"}, True]
        out.append({"id": "fixed-forced-call-after-edit", "type": "c12", "params": [["x", "pk", None]], "ignore": [],
                    "compress": False, "versions": V, "mode": "same",
                    "events": [["define", 1], ["wrap", 1], _c(1, 1), _c(1, 2), _c(1, 3), ["newprocess"], ["define", 2],
                               ["wrap", 2], cf(2, 1), _c(2, 2), _c(2, 3), _c(2, 1)]})
        # fixed finding F51 (MemorizedFunc.call stored without comparing or recording the source): (a) the forced call
        # is the first use of a fresh directory, the next session (edited) checks, then calls; (b) the forced call
        # of the hot-reloaded function lands next to the older text's record, a fresh session has the older text
        out.append({"id": "fixed-forced-call-fresh-directory", "type": "c12", "params": [["x", "pk", None]],
                    "ignore": [], "compress": False, "versions": V, "mode": "same",
                    "events": [["define", 1], ["wrap", 1], cf(1, 0), ["newprocess"], ["define", 2], ["wrap", 2],
                               ["check", 2, {"pos": [I(0)], "kw": []}, True], _c(2, 0), _c(2, 0)]})
        Vh = dict(V, **{"3": dict(V["1"], tag="v2", text=2)})
        out.append({"id": "fixed-forced-call-hot-reload", "type": "c12", "params": [["x", "pk", None]],
                    "ignore": [], "compress": False, "versions": Vh, "mode": "same",
                    "events": [["define", 1], ["wrap", 1], _c(1, 0), _c(1, 1), ["hotreload", 1, 3], cf(3, 0),
                               ["newprocess"], ["define", 1], ["wrap", 1],
                               ["check", 1, {"pos": [I(0)], "kw": []}, True], _c(1, 0), _c(1, 1)]})
        # C12-18: one unchanged __main__ script, every session started from another working directory / with another
        # relative spelling of its path; the last session has an edited script
        Vm = {"1": {"tag": "v1", "path": "verifmod.py", "pad": 0, "kind": "main", "text": 1},
              "2": {"tag": "v2", "path": "verifmod.py", "pad": 0, "kind": "main", "text": 2}}
        ev = []
        for n_ in range(5):
            ev += [["define", 1], ["wrap", 1], ["check", 1, {"pos": [I(0)], "kw": []}, True], _c(1, 0), _c(1, 1),
                   ["newprocess"]]
        ev += [["define", 2], ["wrap", 2], _c(2, 0), _c(2, 1), _c(2, 0)]
        out.append({"id": "fixed-main-script-relative-paths", "type": "c12", "params": [["x", "pk", None]],
                    "ignore": [], "compress": False, "versions": Vm, "mode": "same",
                    "cwds": ["here", "parent", "dot", "updown", "abs", "parent"], "events": ev})
        # C02-16: two SCRIPTS without a .py suffix in a dotted directory, each with its own __main__ function g, alive
        # at the same time on one cache directory (two function identifiers: model run with one text and disjoint keys)
        Vs = {"1": {"tag": "train", "path": ".local/bin/train", "pad": 0, "kind": "main", "text": 1},
              "2": {"tag": "evaluate", "path": ".local/bin/evaluate", "pad": 0, "kind": "main", "text": 2}}
        out.append({"id": "fixed-two-scripts-dotted-directory", "type": "c12", "procs": 2, "multi_id": True,
                    "params": [["x", "pk", None]], "ignore": [], "compress": False, "versions": Vs, "mode": "own",
                    "events": [["proc", 0], ["define", 1], ["wrap", 1], _c(1), _c(1, 1), ["proc", 1], ["define", 2],
                               ["wrap", 2], _c(2), _c(2, 1), ["proc", 0], _c(1), _c(1, 1), _c(1, 2), ["proc", 1], _c(2),
                               _c(2, 2), ["proc", 0], _c(1, 2)]})
        # aliases + Memory.clear + an EDIT + a fresh process (C02-15)
        out.append({"id": "fixed-aliases-clear-edit-new-process", "type": "c12", "locs": 2,
                    "loc_alias": [[0, "abs"], [0, "rel"]],
                    "params": [["x", "pk", None]], "ignore": [], "compress": False,
                    "versions": {k_: dict(v_, path="verifmod.py") for k_, v_ in V.items()}, "mode": "same",
                    "events": [["define", 1], ["wrap", 1, 0], ["wrap", 1, 1], cl(1, 1), cl(1, 1, 1), ["clearmem", 0],
                               cl(1, 1), cl(1, 1, 1), cl(1, 1, 2), ["newprocess"], ["define", 2], ["wrap", 2, 0],
                               cl(2, 0, 1), cl(2, 0), cl(2, 0, 2)]})
        # C12-13: the file is edited while session 1 runs version 1; cf.clear() in that session; a fresh session
        # imports version 2
        out.append({"id": "fixed-clear-after-file-edit", "type": "c12", "params": [["x", "pk", None]], "ignore": [],
                    "compress": False, "versions": V, "mode": "same",
                    "events": [["define", 1], ["wrap", 1], _c(1), _c(1, 1), ["define", 2], ["clearfunc", 1], _c(1), _c(1, 1),
                               _c(1), ["newprocess"], ["define", 2], ["wrap", 2], _c(2), _c(2, 1), _c(2)]})
        # C12-14: Memory.eval of a function that is redefined between the evaluations (and of two lambdas)
        def ce(k, a=0):
            return ["call", k, {"pos": [I(a)], "kw": [], "via": "eval"}, True]
        for kd in ("def", "lambda"):
            V2 = {k_: dict(v_, kind=kd, path="mod_%s.py" % k_) for k_, v_ in V.items()}
            out.append({"id": "fixed-eval-redefined-%s" % kd, "type": "c12", "eval_wrapper": False,
                        "params": [["x", "pk", None]], "ignore": [], "compress": False, "versions": V2, "mode": "own",
                        "events": [["define", 1], ["wrap", 1], ce(1), ["wrap", 1], ce(1), ["wrap", 1], ["define", 2],
                                   ["wrap", 2], ce(2), ["wrap", 2], ce(2, 1), ["wrap", 2], ce(2), ["wrap", 2]]})
        # C02-13: process A validates version 1 against the store written by an earlier process and keeps running
        # while process B (edited code) wipes and refills the cache
        Vp = {str(k_): {"tag": "v%d" % t_, "path": "verifmod.py", "pad": 0, "kind": "def", "text": t_}
              for k_, t_ in ((1, 1), (2, 1), (3, 2))}
        out.append({"id": "fixed-live-process-overtaken", "type": "c12", "procs": 3,
                    "params": [["x", "pk", None]], "ignore": [], "compress": False, "versions": Vp, "mode": "same",
                    "events": [["proc", 0], ["define", 1], ["wrap", 1], _c(1, 1), _c(1, 2),
                               ["proc", 1], ["define", 2], ["wrap", 2], _c(2, 1), _c(2, 1),
                               ["proc", 2], ["define", 3], ["wrap", 3], _c(3, 1), _c(3, 2),
                               ["proc", 1], _c(2, 1), _c(2, 2), _c(2, 1)]})
        # ALIASES of one directory (location 1 = "<dir>/./", location 2 = a symlink to it): Memory.clear() through one
        # spelling, further calls through another, then a redefinition under the same name
        out.append({"id": "fixed-aliases-clear-then-redefine", "type": "c12", "locs": 3,
                    "loc_alias": [[0, "abs"], [0, "dot"], [0, "link"]],
                    "params": [["x", "pk", None]], "ignore": [], "compress": False,
                    "versions": {k_: dict(v_, path="mod_%s.py" % k_) for k_, v_ in V.items()}, "mode": "own",
                    "events": [["define", 1], ["wrap", 1, 0], ["wrap", 1, 1], ["wrap", 1, 2], cl(1, 1), cl(1, 2), cl(1, 2, 1),
                               ["clearmem", 0], cl(1, 1), cl(1, 1, 2), cl(1, 1, 2), cl(1, 1, 1),
                               ["define", 2], ["wrap", 2, 1], ["wrap", 2, 2], cl(2, 1, 2), cl(2, 1), cl(2, 1, 1), cl(2, 2)]})
        # an edit that keeps the size of the source file, with the modification time restored and linecache warm
        out.append({"id": "fixed-same-size-edit-mtime-restored", "type": "c12", "keep_mtime": True,
                    "params": [["x", "pk", None]], "ignore": [], "compress": False, "versions": V, "mode": "same",
                    "events": [["define", 1], ["wrap", 1], _c(1), _c(1), ["define", 2], ["wrap", 2], _c(2), _c(2),
                               _c(2, 1), ["define", 1], ["wrap", 1], _c(1), _c(1, 1)]})
        # same-named callables: A, B, A with an equal argument, also across a fresh process
        ev = []
        for k in (1, 2, 3, 4, 5):
            ev += [["define", k], ["wrap", k]]
        seq = [1, 3, 1, 4, 3, 5, 2, 1, 5, 4, 2]
        ev += [_c(k) for k in seq] + [["newprocess"]]
        for k in (1, 2, 3, 4, 5):
            ev += [["define", k], ["wrap", k]]
        ev += [_c(k) for k in (3, 1, 4, 5, 2, 3)]
        out.append({"id": "fixed-same-named-callables", "type": "c12", "multi_id": True,
                    "params": [["x", "pk", None]], "ignore": [], "compress": False, "mode": "same",
                    "versions": {str(k + 1): {"tag": m, "path": "verifmod.py", "pad": 0, "kind": "names", "member": m,
                                              "text": k + 1} for k, m in enumerate(NAME_MEMBERS)}, "events": ev})
        # the live wrapper is pickled / copied / hashed, then the function is hot-reloaded
        for n, how in enumerate(["dumps", "hash", "copy", "deepcopy"]):
            V = {"1": {"tag": "v1", "path": "verifmod.py", "pad": 0, "kind": "def", "text": 1},
                 "2": {"tag": "v2", "path": "verifmod.py", "pad": 0, "kind": "def", "text": 2}}
            out.append({"id": "fixed-pickled-then-hot-reload-%s" % how, "type": "c12", "picklable": True,
                        "params": [["x", "pk", None]], "ignore": [], "compress": False, "versions": V, "mode": "same",
                        "events": [["define", 1], ["wrap", 1], _c(1), _c(1), ["pickled", 1, how], _c(1),
                                   ["hotreload", 1, 2], _c(2), _c(2), ["pickled", 2, how], _c(2, 1)]})
        # (c) source-less functions (exec'd text): an edit that changes only a literal, in process and across
        #     fresh processes
        V = {str(k): {"tag": "v%d" % k, "path": "nosrc.py", "pad": 0, "kind": "sourceless", "text": k} for k in (1, 2)}
        ev = [["define", 1], ["wrap", 1], _c(1), _c(1), ["define", 2], ["wrap", 2], _c(2), _c(2),
              ["newprocess"], ["define", 2], ["wrap", 2], _c(2), ["newprocess"], ["define", 1], ["wrap", 1], _c(1),
              _c(1, 1), ["newprocess"], ["define", 2], ["wrap", 2], _c(2, 1), _c(2)]
        out.append({"id": "fixed-sourceless-literal-edit", "type": "c12", "params": [["x", "pk", None]], "ignore": [],
                    "compress": False, "versions": V, "mode": "own", "events": ev})
        Vg = {str(k_): {"tag": "g%d" % k_, "path": "nosrc.py", "pad": 0, "kind": "sourceless", "text": k_, "gname": k_}
              for k_ in (1, 2)}
        out.append({"id": "fixed-sourceless-global-name-edit", "type": "c12", "params": [["x", "pk", None]],
                    "ignore": [], "compress": False, "versions": Vg, "mode": "own",
                    "events": [["define", 1], ["wrap", 1], _c(1), _c(1), ["newprocess"], ["define", 2], ["wrap", 2], _c(2),
                               _c(2), ["define", 1], ["wrap", 1], _c(1)]})
        # two different lambdas in one process: l1(a); l1(a); l2(a); l1(a)  (own files and one file)
        for same in (False, True):
            V = {str(k): {"tag": "v%d" % k, "path": "verifmod.py" if same else "mod_v%d.py" % k, "pad": 0,
                          "kind": "lambda", "text": k} for k in (1, 2)}
            ev = ([["define", 1], ["wrap", 1], _c(1), _c(1), ["define", 2], ["wrap", 2], _c(2), _c(2)] if same else
                  [["define", 1], ["wrap", 1], ["define", 2], ["wrap", 2], _c(1), _c(1), _c(2), _c(1), _c(2), _c(2),
                   _c(1)])
            out.append({"id": "fixed-lambdas-%s" % ("one-file" if same else "own-files"), "type": "c12",
                        "params": [["x", "pk", None]], "ignore": [], "compress": False, "versions": V,
                        "mode": "same" if same else "own", "events": ev})
    return out


NAME_MEMBERS = ["area", "Square().area", "Disc.area", "Outer.Inner.area", "Outer.area"]


def gen_names_scenario(rng, sid, members=None):
    """same-named callables of one module (module-level function, bound method, staticmethods of two classes and of a
    nested class) cached and called alternately with EQUAL arguments, in one process and across processes.  Their
    qualnames differ, so each has its own function identifier and directory; in the single-id model they are run
    with one text and with key classes made disjoint per callable (which is what separate directories amount to)."""
    members = members or rng.sample(NAME_MEMBERS, rng.randint(2, 4))
    V = {str(k + 1): {"tag": m, "path": "verifmod.py", "pad": 0, "kind": "names", "member": m, "text": k + 1}
         for k, m in enumerate(members)}
    sc = {"id": sid, "type": "c12", "multi_id": True, "params": [["x", "pk", None]], "ignore": [],
          "compress": False, "versions": V, "mode": "same"}

    def intro():
        ev = []
        for k in range(1, len(members) + 1):
            ev += [["define", k], ["wrap", k]]
        return ev
    events = intro()
    for _ in range(rng.randint(4, 12)):
        k = rng.randint(1, len(members))
        a = rng.choice([0, 0, 1])
        if rng.random() < 0.3:
            events.append(["check", k, {"pos": [I(a)], "kw": []}, True])
        if rng.random() < 0.2:
            nref = sum(1 for e in events if e[0] == "shelve")
            events += [["shelve", k, {"pos": [I(a)], "kw": []}, True], ["get", nref]]
        else:
            events.append(_c(k, a))
        r = rng.random()
        if r < 0.12:
            events += [["newprocess"]] + intro()
        elif r < 0.16:
            events.append(["clearmem"])
    sc["events"] = events
    return sc


def mtext(sc, v):
    """text identity of a version as the MODEL sees it (one text for the same-named-callables stream)"""
    return 0 if sc.get("multi_id") else v.get("text", 0)


def gen_procs_scenario(rng, sid):
    """INTERLEAVED LIVE PROCESSES on one cache directory: each process imports its own version of the function (its
    function objects have their own model indices), keeps running while the others clear / refill the cache.  In
    the model all of them act on ONE M4 state: the store is shared, _FUNCTION_HASHES is per process, and an object
    index belongs to one process, so no table entry is shared."""
    nproc = rng.choice([2, 2, 3])
    ntext = rng.choice([2, 2, 3])
    kind = rng.choice(["def", "def", "nested", "lambda"])
    versions = {}
    sc = {"id": sid, "type": "c12", "procs": nproc, "params": [["x", "pk", None]], "ignore": [], "compress": False,
          "versions": versions, "mode": "same"}
    events = []
    mine = {p_: [] for p_ in range(nproc)}      # object ids of each process
    cur = None
    for _ in range(rng.randint(8, 22)):
        p_ = rng.randrange(nproc)
        if p_ != cur:
            events.append(["proc", p_])
            cur = p_
        r = rng.random()
        if not mine[p_] or r < 0.15:
            k = max([int(x) for x in versions] + [0]) + 1
            text = rng.randint(1, ntext)
            versions[str(k)] = {"tag": "v%d" % text, "path": "verifmod.py", "pad": 0, "kind": kind, "text": text}
            events += [["define", k], ["wrap", k]]
            mine[p_].append(k)
        elif r < 0.20:
            events.append(["clearfunc", rng.choice(mine[p_])])
        else:
            # (Memory.clear() while ANOTHER process is alive is not generated: the other process keeps its
            #  _FUNCTION_HASHES and func_code.py is not rewritten -- the documented observation of design.d/C06.md)
            k = rng.choice(mine[p_][-2:])
            cs = {"pos": [I(rng.choice([0, 0, 1]))], "kw": []}
            if rng.random() < 0.3:
                events.append(["check", k, cs, True])
            events.append(["call", k, cs, True])
    sc["events"] = events
    return sc


def gen_loc_scenario(rng, sid):
    """C12 histories over 2-3 CACHE LOCATIONS shared by the processes of the history: every Wrap / Call / Check /
    clear names a location.  Generated admissible AT EVERY LOCATION (no stale source file; at one location an
    object is not used again after an object of other text was used there), so every wrong value or needless
    recomputation is a violation.  The interesting interplay is the process-wide _FUNCTION_HASHES: a function
    validated at one location must not be trusted at another (fixed finding F45)."""
    nslots = rng.choice([1, 2, 2, 3])
    # ALIASES: further location ids that are other spellings of an existing directory (relative path, trailing
    # "/.", symlink): other Memory objects, another location STRING, the same store
    alias = [[L, "abs"] for L in range(nslots)]
    for _ in range(rng.choice([0, 1, 1, 2]) if nslots > 1 else rng.choice([1, 2])):
        alias.append([rng.randrange(nslots), rng.choice(["rel", "dot", "link"])])
    nloc = len(alias)
    ntext = rng.choice([2, 2, 3])
    kind = rng.choice(["def", "def", "nested", "lambda"])
    mode = rng.choice(["same", "own"])
    versions = {}

    def new_version(text):
        k = max([int(x) for x in versions] + [0]) + 1
        versions[str(k)] = {"tag": "v%d" % text, "path": "verifmod.py" if mode == "same" else "mod_v%d.py" % text,
                            "pad": 0, "kind": kind, "text": text}
        return k
    sc = {"id": sid, "type": "c12", "locs": nloc, "loc_alias": alias, "keep_mtime": rng.random() < 0.3, "params": [["x", "pk", None]], "ignore": [], "compress": False,
          "versions": versions, "mode": mode}
    events = []
    live, stale = set(), set()
    wrapped = {}                                   # k -> set of locations
    base = [x[0] for x in alias]
    called = {S: set() for S in range(nslots)}     # (object, location id) pairs used at store S in this process
    cur = {S: None for S in range(nslots)}         # text of the last use at store S
    lineage = {}

    def reset_process():
        live.clear(), stale.clear(), wrapped.clear()
        for S in range(nslots):
            called[S], cur[S] = set(), None
    guard = 0
    while len([e for e in events if e[0] == "call"]) < rng.randint(5, 14) and guard < 300:
        guard += 1
        r = rng.random()
        usable = [(k, L) for k in sorted(live) if k not in stale for L in sorted(wrapped.get(k, ()))
                  if unnamed(versions[str(k)]) or (k, L) not in called[base[L]]
                  or cur[base[L]] == versions[str(k)]["text"]]
        if not live or r < 0.16:
            k = new_version(rng.randint(1, ntext))
            events.append(["define", k])
            for j in list(live):
                if versions[str(j)]["path"] == versions[str(k)]["path"] and versions[str(j)]["text"] != versions[str(k)]["text"]:
                    stale.add(j)
            live.add(k)
            for L in rng.sample(range(nloc), rng.randint(1, nloc)):
                events.append(["wrap", k, L])
                wrapped.setdefault(k, set()).add(L)
        elif r < 0.24:
            events.append(["newprocess"])
            reset_process()
        elif r < 0.28 and live:
            k = rng.choice(sorted(live))
            L = rng.randrange(nloc)
            events.append(["wrap", k, L])
            wrapped.setdefault(k, set()).add(L)
        elif r < 0.31:
            L = rng.randrange(nloc)
            events.append(["clearmem", L])
            for S in range(nslots):
                called[S] = set()
        elif r < 0.38 and kind != "lambda":
            cand = [k for k in sorted(live) if k not in stale and wrapped.get(k)]
            texts = list(range(1, ntext + 1))
            cand = [k for k in cand if any(t != versions[str(k)]["text"] and t not in lineage.get(k, set()) for t in texts)]
            if cand:
                k = rng.choice(cand)
                t2 = rng.choice([t for t in texts if t != versions[str(k)]["text"] and t not in lineage.get(k, set())])
                k2 = max(int(x) for x in versions) + 1
                versions[str(k2)] = dict(versions[str(k)], tag="v%d" % t2, text=t2)
                locs = sorted(wrapped[k])
                events.append(["hotreload", k, k2, locs])
                lineage[k2] = lineage.get(k, set()) | {versions[str(k)]["text"]}
                live.discard(k)
                for j in list(live):
                    if versions[str(j)]["path"] == versions[str(k2)]["path"] and versions[str(j)]["text"] != t2:
                        stale.add(j)
                live.add(k2)
                wrapped[k2] = set(locs)
        elif r < 0.42 and usable:
            k, L = rng.choice(usable)
            events.append(["clearfunc", k, L])
            called[base[L]].add((k, L))
            cur[base[L]] = versions[str(k)]["text"]
        elif usable:
            k, L = rng.choice(usable)
            cs = {"pos": [I(rng.choice([0, 0, 1]))], "kw": []}
            vld = rng.random() > 0.1
            if rng.random() < 0.35:
                events.append(["check", k, cs, vld, L])
            events.append(["call", k, cs, vld, L])
            called[base[L]].add((k, L))
            cur[base[L]] = versions[str(k)]["text"]
        elif live:
            events.append(["newprocess"])
            reset_process()
    sc["events"] = events
    return sc


MAIN_SPELLINGS = ["here", "dot", "parent", "updown", "abs"]


def gen_c12_scenario(rng, sid):
    nver = rng.choice([2, 2, 3])
    mode = rng.choice(["own", "own", "same", "same", "mixed"])
    kind = rng.choice(["def", "def", "def", "nested", "lambda", "lambda", "main", "sourceless", "sourceless"])
    if kind == "sourceless":
        mode = "own"       # no file at all: the "source text" is str(hash(code object))
    if kind == "main":
        mode = "same"      # a __main__ function is identified by its file: other files are other functions
    ntext = rng.choice([nver, nver, max(1, nver - 1)])   # versions may share their source text
    versions = {}
    for k in range(1, nver + 1):
        text = min(k, ntext)
        path = {"own": "mod_v%d.py" % text, "same": "verifmod.py",
                "mixed": "verifmod.py" if k != 2 else "mod_other.py"}[mode]
        versions[str(k)] = {"tag": "v%d" % text, "path": path, "pad": rng.choice([0, 0, 0, 1, 3]), "kind": kind, "text": text}
    # versions that share a file start at the same line (the usual edit of a function body): reading the
    # file through an older code object then yields the NEWER text, which is what the model's [source_of]
    # says; with shifted lines get_func_code would return neither text (not modelled)
    pads = {}
    for k in sorted(versions):
        v = versions[k]
        v["pad"] = pads.setdefault(v["path"], v["pad"])
    sc = {"id": sid, "type": "c12", "params": [["x", "pk", None]], "ignore": [], "compress": False,
          "versions": versions, "mode": mode, "keep_mtime": rng.random() < 0.3}
    if kind == "main" and rng.random() < 0.6:
        # the script is run with a RELATIVE path, each session from another working directory / through another
        # spelling of the path (python script.py, runpy.run_path): one function identifier all the same
        sc["cwds"] = [rng.choice(MAIN_SPELLINGS) for _ in range(6)]
    events = []
    live, wrapped, lineage = set(), set(), {}
    careful = rng.random() < 0.5     # careful scenarios never use an object the monitor would refuse
    called_text = None
    stale = set()
    n = rng.randint(4, 14)
    guard = 0
    while len([e for e in events if e[0] == "call"]) < n and guard < 200:
        guard += 1
        r = rng.random()
        if not live or r < 0.18:
            k = rng.randint(1, nver)
            events += [["define", k], ["wrap", k]]
            for j in list(live):
                if j != k and versions[str(j)]["path"] == versions[str(k)]["path"] and \
                        versions[str(j)]["text"] != versions[str(k)]["text"]:
                    stale.add(j)
            stale.discard(k)
            live.add(k)
            wrapped.add(k)
        elif r < 0.24:
            events.append(["newprocess"])
            live, wrapped, stale, called_text = set(), set(), set(), None
        elif r < 0.28:
            k = rng.choice(sorted(live))
            events.append(["wrap", k])
        elif r < 0.31:
            events.append(["clearmem"])
        elif r < 0.40 and kind != "sourceless":
            # hot reload: the file of a live object is edited in place and the new code object is installed into
            # the existing function object.  Any number of times, but never back to a text this function object
            # had before: the model gives the reloaded object a NEW index, whereas the real _FUNCTION_HASHES entry of
            # the function object would match an earlier text again (an F10-shaped history through one object).
            texts = sorted({v["text"] for v in versions.values()})
            cand = [k for k in sorted(live) if k in wrapped and
                    any(t not in lineage.get(k, set()) and t != versions[str(k)]["text"] for t in texts)]
            if cand:
                k = rng.choice(cand)
                t2 = rng.choice([t for t in texts if t != versions[str(k)]["text"] and t not in lineage.get(k, set())])
                k2 = max(int(x) for x in versions) + 1
                versions[str(k2)] = dict(versions[str(k)], tag="v%d" % t2, text=t2)
                events.append(["hotreload", k, k2])
                lineage[k2] = lineage.get(k, set()) | {versions[str(k)]["text"]}
                live.discard(k)
                wrapped.discard(k)
                for j in list(live):
                    if versions[str(j)]["path"] == versions[str(k2)]["path"] and versions[str(j)]["text"] != t2:
                        stale.add(j)
                live.add(k2)
                wrapped.add(k2)
        elif r < 0.44 and kind != "sourceless":
            # the code object is replaced by an equal recompilation (also BEFORE a hot reload of the same object: the
            # history of fixed finding F36).  Model: `Wrap k` -- the wrapper forgets its cached source text and
            # re-reads the file at its next slow-path check; the _FUNCTION_HASHES entry still matches.
            events.append(["recode", rng.choice(sorted(live & wrapped))] if live & wrapped else ["clearmem"])
        else:
            cand = sorted(live)
            if careful:
                cand = [k for k in cand if k not in stale and
                        (called_text is None or versions[str(k)]["text"] == called_text or
                         not any(e[0] in ("call", "check") and e[1] == k for e in events_since_process(events)))]
                if not cand:
                    events.append(["newprocess"])
                    live, wrapped, stale, called_text = set(), set(), set(), None
                    continue
            k = rng.choice(cand)
            cs = {"pos": [{"i": rng.choice([0, 0, 1, 2])}], "kw": []}
            vld = rng.random() > 0.1      # the validation callback sometimes rejects the entry
            if rng.random() < 0.3:
                events.append(["check", k, cs, vld])
            if rng.random() < 0.12:
                nref = sum(1 for e in events if e[0] == "shelve")
                events += [["shelve", k, cs, True], ["get", nref]]
            if vld and rng.random() < 0.05:
                # MemorizedFunc.call: forced execution = the code check of an ordinary call, then execute and store
                # (model: `Call k c false`, the call whose entry the validation rejects)
                events.append(["call", k, dict(cs, via="call"), True])
            elif vld and rng.random() < 0.12:
                # memory.eval(f, x): a decoration of its own for this one call; followed by a fresh persistent
                # wrapper so that model (one wrapper per object) and implementation stay in step
                events += [["wrap", k], ["call", k, dict(cs, via="eval"), True], ["wrap", k]]
            else:
                events.append(["call", k, cs, vld])
            if rng.random() < 0.06:
                events.append(["clearfunc", k])         # cf.clear() in a live session
            called_text = versions[str(k)]["text"]
            nshelved = sum(1 for e in events if e[0] == "shelve")
            if nshelved and rng.random() < 0.12:
                events.append(["get", rng.randrange(nshelved)])     # an EARLIER reference, read (again) now
    sc["events"] = events
    return sc


N_SLOTS = 8
BASE_SLOTS = [1, 2, 3, 4, 5, 6, 7, 25]


INDENT_VARIANTS = ["base", "indent-into-if", "indent-into-for", "dedent-out-of-for", "return-into-for",
                   "swap-two-lines", "move-before-loop", "literal-blanks", "literal-blanks-3", "trailing-blanks",
                   "blank-line", "comment", "tabs"]
SAME_PROGRAM = {"base", "trailing-blanks", "blank-line", "comment", "tabs"}


def gen_indent_scenario(rng, sid, variants=None):
    """'same tokens, different program' edits (a statement re-indented into / out of a block, two lines swapped,
    a statement moved across a block boundary, blanks inside a string literal) and 'different text, same program'
    edits (trailing blanks, blank line, comment, tabs) of one function, installed like in gen_edit_scenario and
    called directly and through call_and_shelve().get()"""
    variants = variants or rng.sample(INDENT_VARIANTS[1:], rng.randint(2, 4))
    specs = {1: {"variant": "base"}}
    for v in variants:
        specs[1 + INDENT_VARIANTS.index(v)] = {"variant": v}
    return gen_edit_scenario(rng, sid, specs=specs)


def gen_edit_scenario(rng, sid, slots=None, specs=None):
    """position-aware edits of ONE function in ONE file: the base text and, for each chosen physical line of the
    body, a version that differs in exactly that line.  Each step installs one version (fresh process + import,
    in-process re-import, or hot reload into the existing function object) and calls it with arguments cached
    before: every semantic edit must be a miss, an unchanged text a hit."""
    if specs is None:
        slots = slots if slots is not None else rng.sample(range(N_SLOTS), rng.randint(2, 4))
        specs = {1: {"slots": list(BASE_SLOTS)}}
        for n, sl in enumerate(slots):
            v = list(BASE_SLOTS)
            v[sl] += 1
            specs[2 + sl] = {"slots": v}
    versions = {}
    sc = {"id": sid, "type": "c12", "params": [["x", "pk", None]], "ignore": [], "compress": False,
          "versions": versions, "mode": "same", "picklable": True, "keep_mtime": rng.random() < 0.4}

    def new_object(text):
        k = max([int(x) for x in versions] + [0]) + 1
        versions[str(k)] = dict({"tag": "vm", "path": "verifmod.py", "pad": 0, "kind": "def", "text": text},
                                **specs[text])
        used.add(str(k))
        return k
    used = set()
    events = []
    order = sorted(specs)
    order = [1] + rng.sample(order[1:], len(order) - 1)
    extra = [rng.choice(order) for _ in range(rng.randint(1, 3))]
    cur = None
    had = set()       # texts the current function object has had (never reloaded back to one of them)
    for step, text in enumerate(order + extra):
        how = "first" if cur is None else rng.choice(["process", "process", "reimport", "hotreload", "hotreload"])
        if how == "hotreload" and (text in had or versions[str(cur)]["text"] == text):
            how = "process"
        if how == "hotreload" and specs[text].get("variant") in SAME_PROGRAM and \
                versions[str(cur)].get("variant") in SAME_PROGRAM:
            # two texts of the SAME program can compile to equal code objects (a blank line vs a comment line):
            # the hash in _FUNCTION_HASHES still matches and nothing is re-read -- rightly so; the model, which
            # identifies a version by its text, has no event for "other text, equal code object"
            how = "reimport"
        if how == "process":
            events.append(["newprocess"])
        if how == "hotreload":
            if rng.random() < 0.6:
                # the live wrapper is pickled / copied / hashed first (a Parallel dispatch): it must stay unchanged
                events.append(["pickled", cur, rng.choice(["dumps", "dumps", "hash", "copy", "deepcopy"])])
            if rng.random() < 0.5:
                events.append(["recode", cur])      # equal recompilation first, then the edit
            had.add(versions[str(cur)]["text"])
            k = new_object(text)
            events.append(["hotreload", cur, k])
        else:
            k = new_object(text)
            events += [["define", k], ["wrap", k]]
            had = set()
        cur = k
        for a in rng.sample([0, 1, 2, 0], rng.randint(1, 3)):
            if rng.random() < 0.3:
                events.append(["check", k, {"pos": [I(a)], "kw": []}, True])
            if rng.random() < 0.25:
                nref = sum(1 for e in events if e[0] == "shelve")
                events += [["shelve", k, {"pos": [I(a)], "kw": []}, True], ["get", nref]]
            else:
                events.append(_c(k, a))
    sc["events"] = events
    return sc


def events_since_process(events):
    out = []
    for e in events:
        if e[0] in ("newprocess", "clearmem"):
            out = []
        else:
            out.append(e)
    return out


# --------------------------------------------------------------------------- execution
def run_scenario(sc, timeout=300):
    """run one scenario on the implementation: one interpreter per process segment"""
    tmp = tempfile.mkdtemp(prefix="verif-mem-", dir=os.environ.get("VERIF_TMP"))
    try:
        cache = os.path.join(tmp, "cache")
        moddir = os.path.join(tmp, "mods")
        os.makedirs(cache)
        os.makedirs(moddir)
        if sc.get("procs"):
            return run_live_processes(sc, cache, moddir, tmp, timeout)
        segs, cur = [], []
        for i, ev in enumerate(sc["events"]):
            if ev[0] == "newprocess":
                segs.append(cur)
                cur = []
            else:
                cur.append([i, ev])
        segs.append(cur)
        results = {}
        seeds = sc.get("hashseeds") or ["0"]
        for nseg, seg in enumerate(segs):
            if not seg:
                continue
            job = {"cache": cache, "moddir": moddir, "refs": os.path.join(tmp, "refs.pkl"),
                   "scenario": {k: sc[k] for k in ("versions", "params", "ignore", "compress", "verbose", "mmap_mode",
                                                   "picklable", "callback", "pids", "backend", "body_ignore", "loc_alias",
                                                   "keep_mtime", "pads", "loc_form", "eval_wrapper", "expires", "slow", "cwds")
                                if k in sc}, "events": seg,
                   "segment": nseg}
            p = subprocess.run([common.PYNP if sc.get("py") == "np" else common.PY,
                                os.path.join(common.ROOT, "harness", "impl", "c02_impl.py")],
                               input=json.dumps(job), stdout=subprocess.PIPE, stderr=subprocess.PIPE, text=True,
                               env=common.impl_env(hashseed=seeds[nseg % len(seeds)]), timeout=timeout)
            if p.returncode != 0 or not p.stdout.strip():
                return {"harness_error": "segment failed rc=%s: %s" % (p.returncode, p.stderr[-1500:])}
            for r in json.loads(p.stdout.strip().splitlines()[-1]):
                results[r["idx"]] = r
        return {"events": [results.get(i, {"o": "done"} if ev[0] == "newprocess" else {"harness_error": "missing"})
                           for i, ev in enumerate(sc["events"])]}
    finally:
        shutil.rmtree(tmp, ignore_errors=True)


def run_live_processes(sc, cache, moddir, tmp, timeout):
    """several LONG-LIVED interpreters on one cache directory, driven over pipes: ["proc", p] switches the process
    that performs the following events; a process keeps its function objects, wrappers and _FUNCTION_HASHES while
    the others run"""
    children = {}
    results = {}
    try:
        batches, cur = [], None
        for i, ev in enumerate(sc["events"]):
            if ev[0] == "proc":
                cur = ev[1]
                results[i] = {"idx": i, "o": "skip"}
                continue
            if batches and batches[-1][0] == cur:
                batches[-1][1].append([i, ev])
            else:
                batches.append((cur, [[i, ev]]))
        for p_, evs in batches:
            if p_ not in children:
                ch = subprocess.Popen([common.PY, os.path.join(common.ROOT, "harness", "impl", "c02_impl.py"), "--serve"],
                                      stdin=subprocess.PIPE, stdout=subprocess.PIPE, stderr=subprocess.DEVNULL,
                                      text=True, env=common.impl_env())
                children[p_] = ch
                msg = {"cache": cache, "moddir": moddir, "refs": os.path.join(tmp, "refs_%s.pkl" % p_),
                       "scenario": {k: sc[k] for k in ("versions", "params", "ignore", "compress", "callback",
                                                        "keep_mtime", "multi_id") if k in sc}, "events": evs,
                       "segment": p_}
            else:
                ch = children[p_]
                msg = {"events": evs}
            ch.stdin.write(json.dumps(msg) + "\n")
            ch.stdin.flush()
            line = ch.stdout.readline()
            if not line.strip():
                return {"harness_error": "live process %s died" % p_}
            for r in json.loads(line):
                results[r["idx"]] = r
        return {"events": [results.get(i, {"harness_error": "missing"}) for i in range(len(sc["events"]))]}
    finally:
        for ch in children.values():
            try:
                ch.stdin.close()
                ch.wait(timeout=20)
            except Exception:  # noqa
                ch.kill()


def run_scenarios(scs, workers=None):
    with cf.ThreadPoolExecutor(workers or min(16, common.NCPU)) as ex:
        return list(ex.map(run_scenario, scs))


# ------------------------------------------------------------------------------ oracle
def vpath(k, v):
    """the file a version's source text is read from (a partial has none: its text is its repr)"""
    if v.get("kind") == "sourceless":
        return "nosrc-text-%s" % v.get("text", 0)      # get_func_code falls back to the code object itself
    return v["path"] if v.get("kind") != "partial" else "partial-%s" % k


def unnamed(v):
    """callables that never enter _FUNCTION_HASHES (no __name__, or '<lambda>')"""
    return v.get("kind") in ("lambda", "partial")


def monitor(sc, classify=False):
    """Python twin of [admissible] (Model/MemoryCore.v), cross-checked against Coq on every scenario.
    Returns (admissible?, index of the first refused event, clause 'stale'|'other-version').
    The 'other-version' clause (F10) only concerns callables that can enter _FUNCTION_HASHES ([named] in the
    model): lambdas and partials never do.  (classify is kept for compatibility; both variants coincide.)"""
    V = sc["versions"]
    live, wraps, stale, called, cur = [], [], [], [], None
    for i, ev in enumerate(sc["events"]):
        t = ev[0]
        if t == "recode":
            ev = ["wrap", ev[1]]
            t = "wrap"
        if t == "hotreload":
            # model: the reloaded object is a NEW object index (text of ev[2], file of ev[1]) with a fresh
            # wrapper state: the stored hash in _FUNCTION_HASHES no longer matches and func_code_info is re-read
            ev = ["define", ev[2]]
            t = "define+wrap"
        if t in ("define", "define+wrap"):
            j = ev[1]
            others = [k for k in live if k != j]
            new_stale = [k for k in others if vpath(k, V[str(k)]) == vpath(j, V[str(j)])
                         and mtext(sc, V[str(k)]) != mtext(sc, V[str(j)])]
            stale = new_stale + [k for k in stale if k != j]
            live = [j] + others
            wraps = [k for k in wraps if k != j]
            called = [k for k in called if k != j]
            if t == "define+wrap":
                wraps = [j] + wraps
        elif t == "wrap":
            if ev[1] in live:
                wraps = [ev[1]] + [k for k in wraps if k != ev[1]]
        elif t in ("call", "shelve", "check", "clearfunc", "clearfunc2"):
            k = ev[1]
            if t not in ("clearfunc", "clearfunc2") and sc.get("_raises", {}).get(i):
                continue
            if k in wraps:
                if k in stale:
                    return False, i, "stale"
                if k in called and cur != mtext(sc, V[str(k)]) and not unnamed(V[str(k)]):
                    return False, i, "other-version"
                called = [k] + called
                cur = mtext(sc, V[str(k)])
        elif t == "clearmem":
            called, cur = [], None
        elif t == "newprocess":
            live, wraps, stale, called, cur = [], [], [], [], None
    return True, None, None


def judge(sc, res):
    """independent oracle.  Returns a list of deviations
       {"prop": "C02"|"C06"|"C12", "kind": ..., "event": i, "what": ..., "key": finding key or None}"""
    devs = []
    if "harness_error" in res:
        return [{"prop": "*", "kind": "harness", "event": -1, "what": res["harness_error"], "key": None}]
    evs = res["events"]
    shapes = set()
    for ps in all_params(sc):
        shapes |= shape_keys(ps)
    V = sc["versions"]
    sc["_raises"] = {i: True for i, r in enumerate(evs) if r.get("args_id", 1) is None}
    expired = expired_events(sc, res)
    adm, adm_at, adm_clause = monitor(sc, classify=True)
    multi = sc["type"] in ("c12", "partial")

    def fa_key(indices):
        """a deviation is a known finding only if the real filter_args output itself deviates from the binding
        on one of the calls involved AND the signature has one of the three known shapes"""
        if not any(evs[j].get("fa_ok") is False for j in indices):
            return None
        for k in (K_POSONLY, K_DEFAULT, K_VARARGS):
            if k in shapes:
                return k
        return None

    def version_key(i):
        if adm or adm_at > i or sc["type"] == "partial" or sc.get("locs"):
            return None      # (multi-location histories are generated admissible at every location)
        return K_F10 if adm_clause == "other-version" else K_SAMEFILE

    seen_keys = {}      # event -> (restricted binding, args_id) of the calls so far
    completed = {}      # (text, restricted binding) -> index of the completed call that stored it
    by_args_id = {}     # args_id -> set of (text, bind_r)
    ref_info = {}       # ref index -> (event index of the shelve, text, bind_r, expect)
    text_on_disk_changed = False
    pending_check = None
    for i, (ev, r) in enumerate(zip(sc["events"], evs)):
        t = ev[0]
        if "harness_error" in r:
            devs.append({"prop": "*", "kind": "harness", "event": i, "what": r["harness_error"], "key": None})
            continue
        if t == "define":
            # a definition of different text than what is cached invalidates expectations of the OTHER text only
            pass
        if t in ("call", "shelve", "check"):
            k, vld = ev[1], ev[3] and i not in expired
            text = V[str(k)].get("text", 0)
            if r.get("bind") is None:
                continue  # Python rejects the call: outside the properties
            L = ev[4] if len(ev) > 4 else 0
            ck = (text, "%d|%s" % (loc_base(sc, L), r["bind_r"]) if sc.get("locs") else r["bind_r"])

            def elsewhere(c):      # an entry of another cache location is not touched by what happens here
                return bool(sc.get("locs")) and not c[1].startswith("%d|" % loc_base(sc, L))
            if r["o"] == "raise":
                devs.append({"prop": "C06", "kind": "rejected", "event": i, "key": fa_key([i]),
                             "what": "valid call rejected by the wrapper with %s" % r.get("e")})
                pending_check = None
                continue
            if t == "check":
                pending_check = (i, (ev[1], L), json.dumps(ev[2], sort_keys=True), vld, r["b"])
                if not vld:
                    completed.pop(ck, None)     # an invalidating check deletes the entry (that is an invalidation)
                for other in [c for c in completed if c[0] != text and not elsewhere(c)]:
                    del completed[other]      # the code check of another text wipes the store
                continue
            # the interface hypotheses, validated on every generated call of a plain function / bound method:
            # the real filter_args output is the binding; one args_id <=> one binding outside the ignore list
            if sc["type"] == "sig":
                if r.get("fa_ok") is False:
                    devs.append({"prop": "C02", "kind": "canonicalisation-differs", "event": i, "key": fa_key([i]),
                                 "what": "filter_args does not return the binding of the call (key_sound / "
                                         "key_complete are validated call by call)"})
                for j, (bj, aj) in seen_keys.items():
                    if aj == r.get("args_id") and bj != r["bind_r"]:
                        devs.append({"prop": "C02", "kind": "key-collision", "event": i, "key": fa_key([i, j]),
                                     "what": "same args_id as the call at event %d although the bindings differ "
                                             "outside the ignore list" % j})
                        break
                    if aj != r.get("args_id") and bj == r["bind_r"]:
                        devs.append({"prop": "C06", "kind": "key-split", "event": i, "key": fa_key([i, j]),
                                     "what": "args_id differs from the equivalent call at event %d" % j})
                        break
                seen_keys[i] = (r["bind_r"], r.get("args_id"))
            forced = t == "call" and ev[2].get("via") == "call"
            executed = r["n"] > 0
            # C06_check: the preceding identical check predicted this call
            if pending_check and pending_check[1:4] == ((k, L), json.dumps(ev[2], sort_keys=True), vld):
                if pending_check[4] == executed:
                    devs.append({"prop": "C06", "kind": "check-mismatch", "event": i, "key": None,
                                 "what": "check_call_in_cache said %s but the next identical call %s the function"
                                         % (pending_check[4], "executed" if executed else "did not execute")})
            pending_check = None
            # values
            if t == "call":
                if r["v"] != r["expect"]:
                    if sc["type"] == "partial":
                        devs.append({"prop": "C02", "kind": "wrong-value", "event": i, "key": None,
                                     "what": "cached partial %s returned %s, the plain partial returns %s"
                                             % (k, r["v"], r["expect"])})
                    elif sc["type"] == "c12":
                        devs.append({"prop": "C02", "kind": "wrong-value", "event": i, "key": version_key(i),
                                     "what": "cached call returned %s, the (edited) plain function returns %s"
                                             % (r["v"], r["expect"])})
                        devs.append({"prop": "C12", "kind": "wrong-version", "event": i,
                                     "key": version_key(i),
                                     "what": "call of version %s returned %s, its own code computes %s"
                                             % (k, r["v"], r["expect"])})
                    else:
                        src = completed.get(ck)
                        devs.append({"prop": "C02", "kind": "wrong-value", "event": i,
                                     "key": fa_key([i] + [j for j, e2 in enumerate(evs[:i])
                                                          if e2.get("args_id") == r.get("args_id")]),
                                     "what": "cached call returned %s, the plain function returns %s"
                                             % (r["v"], r["expect"])})
            else:
                ref_info[r["r"]] = (i, text, r["bind_r"], r["expect"], r.get("ref_args_id"))
            # recomputation of an equivalent completed call
            if forced:
                if not executed:
                    devs.append({"prop": "C12" if sc["type"] == "c12" else "C06", "kind": "forced-call-not-executed",
                                 "event": i, "key": None,
                                 "what": "MemorizedFunc.call did not execute the function"})
            elif vld and ck in completed and executed:
                j = completed[ck]
                key = fa_key([i, j]) if not multi else version_key(i)
                devs.append({"prop": "C06" if sc["type"] != "c12" else "C12",
                             "kind": "recomputed" if sc["type"] != "c12" else "unchanged-recomputed",
                             "event": i, "key": key,
                             "what": "call equivalent to the completed call at event %d executed the function again"
                                     % j})
            # a call of another text wipes what other texts stored (that is the point of C12)
            for other in [c for c in completed if c[0] != text and not elsewhere(c)]:
                del completed[other]
            # (a forced call is judged like a call whose entry the validation rejects: code check, execute, store --
            #  fixed finding F51: before the fix it stored without comparing or recording the source)
            completed[ck] = i
            by_args_id.setdefault(r.get("args_id"), set()).add(ck)
        elif t == "nullmem":
            # Memory(None): every route accepts what the plain function accepts and returns its value
            for route, o in sorted(r.get("routes", {}).items()):
                if r.get("bind") is not None and o != "ok":
                    devs.append({"prop": "C06", "kind": "rejected", "event": i, "key": None,
                                 "what": "Memory(None): %s of a valid call gives %s" % (route, o)})
        elif t == "get":
            if multi and r["o"] == "val" and ev[1] in ref_info and ref_info[ev[1]][0] == i - 1 \
                    and r["v"] != ref_info[ev[1]][3]:
                devs.append({"prop": "C12" if sc["type"] == "c12" else "C02",
                             "kind": "wrong-version" if sc["type"] == "c12" else "wrong-value-get",
                             "event": i, "key": version_key(i),
                             "what": ".get() right after call_and_shelve of version %s returned %s, its own code "
                                     "computes %s" % (sc["events"][i - 1][1], r["v"], ref_info[ev[1]][3])})
            if r["o"] == "val" and ev[1] in ref_info and not multi:
                j, text, br, expect, aid = ref_info[ev[1]]
                if r["v"] != expect:
                    devs.append({"prop": "C02", "kind": "wrong-value-get", "event": i,
                                 "key": fa_key([j] + [q for q, e2 in enumerate(evs[:i]) if e2.get("args_id") == aid]),
                                 "what": ".get() of the reference shelved at event %d returned %s, expected %s"
                                         % (j, r["v"], expect)})
        elif t in ("clearfunc", "clearmem", "clearfunc2"):
            if sc.get("locs"):
                Lc = loc_base(sc, (ev[2] if len(ev) > 2 else 0) if t == "clearfunc" else (ev[1] if len(ev) > 1 else 0))
                for c in [c for c in completed if c[1].startswith("%d|" % Lc)]:
                    del completed[c]
            else:
                completed.clear()
        elif t == "clearref":
            if ev[1] in ref_info:
                aid = ref_info[ev[1]][4]
                for ck in by_args_id.get(aid, ()):
                    completed.pop(ck, None)
        elif t in ("evict", "rmentry"):
            for aid in r.get("evicted", []):
                for ck in by_args_id.get(aid, ()):
                    completed.pop(ck, None)
        if t not in ("check",):
            if t not in ("call", "shelve"):
                pending_check = None
    return devs


# ------------------------------------------------------------------------------- model
REQ = """From Coq Require Import List Bool Arith.
Require Import JV.Base.PyPrelude JV.Model.MemoryCore JV.Model.MemoryTab JV.Model.MemoryLoc.
Local Open Scope nat_scope.
Import ListNotations."""
DEFS = """Definition show (o : outcome tvalue) : nat * (nat * nat) :=
  match o with
  | OSkip => (0, (0, 0)) | ODone => (1, (0, 0))
  | ORaise KeyError => (2, (1, 0)) | ORaise TypeError => (2, (2, 0)) | ORaise _ => (2, (0, 0))
  | OHit v => (3, v) | OMiss v => (4, v)
  | OShelved h r => (5, ((if h then 1 else 0), r)) | OCheck b => (6, ((if b then 1 else 0), 0))
  | OGot v => (7, v)
  end."""


def loc_base(sc, L):
    """the model location (one store) behind location id L; several ids may be spellings of one directory"""
    al = sc.get("loc_alias")
    return al[L][0] if al else L


def model_terms_loc(sc, res):
    """multi-location scenario -> (cfg, list mevent, tables).  Model object index of (function object k reached
    through location id L) = k * n + L: each spelling is a tag of its own, [sibs] = the n indices of one function."""
    evs = res["events"]
    V = sc["versions"]
    n = sc["locs"]
    kmax = max(int(k) for k in V)
    codes = [0] * ((kmax + 1) * n)
    paths = [0] * ((kmax + 1) * n)
    nameds = ["true"] * ((kmax + 1) * n)
    path_ids = {}
    for k, v in V.items():
        for L in range(n):
            codes[int(k) * n + L] = mtext(sc, v) + 1
            paths[int(k) * n + L] = path_ids.setdefault(vpath(k, v), len(path_ids))
            nameds[int(k) * n + L] = "false" if unnamed(v) else "true"
    keyc, bindc, rbindc = {}, {}, {}
    mh, expand = [], []
    for ev, r in zip(sc["events"], evs):
        t = ev[0]
        if "harness_error" in r:
            return None
        before = len(mh)
        if t == "define":
            mh += ["Everywhere (Define %d)" % (ev[1] * n + L) for L in range(n)]
        elif t == "newprocess":
            mh.append("Everywhere NewProcess")
        elif t == "hotreload":
            mh += ["Everywhere (Define %d)" % (ev[2] * n + L) for L in range(n)]
            mh += ["At %d (Wrap %d)" % (loc_base(sc, L), ev[2] * n + L) for L in ev[3]]
        elif t == "recode":
            mh += ["At %d (Wrap %d)" % (loc_base(sc, L), ev[1] * n + L) for L in ev[2]]
        elif t == "wrap":
            L = ev[2] if len(ev) > 2 else 0
            mh.append("At %d (Wrap %d)" % (loc_base(sc, L), ev[1] * n + L))
        elif t in ("call", "check"):
            L = ev[4] if len(ev) > 4 else 0
            aid = r.get("args_id")
            key = "None" if aid is None else "(Some %d)" % keyc.setdefault(aid, len(keyc))
            b = "None" if r.get("bind") is None else "(Some (%d, %d))" % (
                bindc.setdefault(r["bind"], len(bindc)), rbindc.setdefault(r["expect"], len(rbindc)))
            mh.append("At %d (%s %d (%s, %s) %s)" % (loc_base(sc, L), "Call" if t == "call" else "Check",
                                                     ev[1] * n + L, key, b,
                                                     "true" if ev[3] and not is_forced(ev) else "false"))
        elif t == "clearfunc":
            L = ev[2] if len(ev) > 2 else 0
            mh.append("At %d (ClearFunc %d)" % (loc_base(sc, L), ev[1] * n + L))
        elif t == "clearmem":
            mh.append("At %d ClearMem" % loc_base(sc, ev[1] if len(ev) > 1 else 0))
        else:
            return None
        expand.append(len(mh) - before)
    cfg = "(tab_cfg %s %s %s)" % (common.coq_list(map(str, codes)), common.coq_list(map(str, paths)),
                                   common.coq_list(nameds))
    sibs = "(fun i : nat => map (fun l : nat => (i / %d) * %d + l) (seq 0 %d))" % (n, n, n)
    nslots = 1 + max(loc_base(sc, L) for L in range(n))
    return cfg, "(%s : list (mevent (call:=tcall) (digest:=nat)))" % common.coq_list(mh), \
        {"rbindc": rbindc, "locs": nslots, "sibs": sibs, "expand": expand}


def expired_events(sc, res):
    """scenario flag "slow" (fake clock: the cached function's executions take about / more than the expiry given to
    expires_after): the events at which the stored entry is LEGITIMATELY expired -- its age, counted from the
    COMPLETION of the call that stored it, exceeds the expiry.  Built from the fake clock the driver reports."""
    if not sc.get("slow") or not sc.get("expires"):
        return set()
    import datetime
    E = datetime.timedelta(**sc["expires"]).total_seconds()
    stored, out = {}, set()
    for i, (ev, r) in enumerate(zip(sc["events"], res["events"])):
        if ev[0] not in ("call", "shelve", "check") or r.get("bind") is None or "clock0" not in r:
            continue
        # the entry's age is the age of what the STORE holds under the call's real key (args_id): where two bindings
        # share a key (known findings F1/F2) the colliding call has rewritten -- and so refreshed -- the entry.  (That
        # args_id and binding classes coincide otherwise is checked call by call: key-collision / key-split.)
        key = r.get("args_id")
        if key is None:
            continue
        if key in stored and r["clock0"] - stored[key] > E:
            out.add(i)
            stored.pop(key)      # the rejected entry is deleted (check) or replaced (call)
        if ev[0] != "check" and r.get("n", 0) > 0:
            stored[key] = r["clock1"]
    return out


def is_forced(ev):
    """MemorizedFunc.call: the model event is the call whose stored entry is rejected (check the code, execute, store)"""
    return ev[0] == "call" and ev[2].get("via") == "call"


def model_terms(sc, res):
    """Gallina terms (configuration, history) for a scenario, built from what was OBSERVED on the implementation:
    key class = class of the real args_id, binding classes from inspect.signature.bind.
    Returns (cfg, history, decode tables) or None when a harness error makes the scenario unusable."""
    if sc.get("locs"):
        return model_terms_loc(sc, res)
    evs = res["events"]
    V = sc["versions"]
    kmax = max(int(k) for k in V)
    codes = [0] * (kmax + 1)
    paths = [0] * (kmax + 1)
    nameds = ["true"] * (kmax + 1)
    path_ids = {}
    for k, v in V.items():
        codes[int(k)] = mtext(sc, v) + 1 if sc["type"] in ("c12", "partial") else 1
        # a partial has no source file: its text is repr(partial) -- modelled as a file of its own
        paths[int(k)] = path_ids.setdefault(vpath(k, v), len(path_ids))
        nameds[int(k)] = "false" if unnamed(v) else "true"
    keyc, bindc, rbindc = {}, {}, {}
    hist = []
    ref_digest = []
    expired = expired_events(sc, res)
    for nev_, (ev, r) in enumerate(zip(sc["events"], evs)):
        t = ev[0]
        if "harness_error" in r:
            return None
        if t == "hotreload":
            hist.append("Define %d; Wrap %d" % (ev[2], ev[2]))
        elif t in ("rewrap", "pickled", "recache", "proc", "jlog", "nullmem"):
            hist.append("Get 999999")     # the copy has the state of the original: no model event (OSkip)
        elif t == "recode":
            hist.append("Wrap %d" % ev[1])    # an equal code object: the wrapper drops its cached source text
        elif t == "define":
            hist.append("Define %d" % ev[1])
        elif t == "wrap":
            hist.append("Wrap %d" % ev[1])
        elif t in ("call", "shelve", "check"):
            aid = r.get("args_id")
            if sc.get("multi_id") and aid is not None:
                aid = "%s/%s" % (ev[1], aid)       # another function identifier = another directory
            key = "None" if aid is None else "(Some %d)" % keyc.setdefault(aid, len(keyc))
            if r.get("bind") is None:
                b = "None"
            else:
                # second component: identity of the value the call computes (for a function that returns its
                # bound arguments minus the ignored ones this IS the binding class outside the ignore list)
                b = "(Some (%d, %d))" % (bindc.setdefault(r["bind"], len(bindc)),
                                         rbindc.setdefault(r["expect"], len(rbindc)))
            hist.append("%s %d (%s, %s) %s" % ({"call": "Call", "shelve": "Shelve", "check": "Check"}[t], ev[1],
                                               key, b, "true" if ev[3] and not is_forced(ev)
                                               and nev_ not in expired else "false"))
        elif t == "get":
            hist.append("Get %d" % ev[1])
        elif t == "clearref":
            hist.append("ClearRef %d" % ev[1])
        elif t in ("clearfunc", "clearfunc2"):
            hist.append("ClearFunc %d" % ev[1])     # a second wrapper of the same function clears the same directory
        elif t == "clearmem":
            hist.append("ClearMem")
        elif t in ("evict", "rmentry"):
            ds = [keyc[a] for a in r.get("evicted", []) if a in keyc]
            if len(ds) != len(r.get("evicted", [])):
                return None
            hist.append("Evict %s" % common.coq_list(str(d) for d in ds))
        elif t == "newprocess":
            hist.append("NewProcess")
    cfg = "(tab_cfg %s %s %s)" % (common.coq_list(map(str, codes)), common.coq_list(map(str, paths)),
                                   common.coq_list(nameds))
    if sc.get("locs"):
        # one M4 state per cache location in lock step (Model/MemoryLoc.v)
        mh = []
        hi = iter(hist)
        for ev in sc["events"]:
            t = ev[0]
            if t == "hotreload":
                next(hi)
                mh.append("Everywhere (Define %d)" % ev[2])
                mh += ["At %d (Wrap %d)" % (L, ev[2]) for L in ev[3]]
            elif t in ("define", "newprocess"):
                mh.append("Everywhere (%s)" % next(hi))
            elif t == "wrap":
                mh.append("At %d (%s)" % (ev[2] if len(ev) > 2 else 0, next(hi)))
            elif t in ("call", "check", "shelve"):
                mh.append("At %d (%s)" % (ev[4] if len(ev) > 4 else 0, next(hi)))
            elif t == "clearfunc":
                mh.append("At %d (%s)" % (ev[2] if len(ev) > 2 else 0, next(hi)))
            elif t == "clearmem":
                mh.append("At %d (%s)" % (ev[1] if len(ev) > 1 else 0, next(hi)))
            else:
                return None
        return cfg, "(%s : list (mevent (call:=tcall) (digest:=nat)))" % common.coq_list(mh), \
            {"rbindc": rbindc, "locs": sc["locs"]}
    return cfg, "(%s : list tevent)" % common.coq_list(hist), {"rbindc": rbindc}


def impl_view(sc, res, tables):
    """the implementation's observations in the model's vocabulary, one tuple per event"""
    out = []
    V = sc["versions"]
    rbindc = tables["rbindc"]
    # expected value text -> (source, restricted class): built from the oracle side of every call
    val = {}
    for ev, r in zip(sc["events"], res["events"]):
        if ev[0] in ("call", "shelve", "check") and r.get("bind") is not None:
            src = mtext(sc, V[str(ev[1])]) + 1 if sc["type"] in ("c12", "partial") else 1
            val[r["expect"]] = (src, rbindc[r["expect"]])
    for nev, (ev, r) in enumerate(zip(sc["events"], res["events"])):
        t = ev[0]
        if tables.get("expand") and t in ("define", "hotreload", "recode"):
            out += [(1, 0, 0)] * tables["expand"][nev]
        elif t == "hotreload":
            out += [(1, 0, 0)] * ((1 + len(ev[3])) if sc.get("locs") else 2)
        elif r.get("o") == "skip":
            out.append((0, 0, 0))
        elif t in ("define", "wrap", "recode", "clearref", "clearfunc", "clearfunc2", "clearmem", "evict", "rmentry",
                   "newprocess"):
            out.append((1, 0, 0))
        elif r["o"] == "raise":
            out.append((2, 1 if r.get("e") == "KeyError" else (2 if r.get("e") == "TypeError" and
                                                                 r.get("bind") is None else 0), 0))
        elif t == "call":
            v = val.get(r["v"], (99, 99))
            out.append((4 if r["n"] > 0 else 3, v[0], v[1]))
        elif t == "shelve":
            out.append((5, 0 if r["n"] > 0 else 1, r["r"]))
        elif t == "check":
            out.append((6, 1 if r["b"] else 0, 0))
        elif t == "get":
            v = val.get(r["v"], (99, 99))
            out.append((7, v[0], v[1]))
    return out


def parse_show_list(s):
    return [tuple(int(x) for x in m) for m in re.findall(r"\(\s*(\d+),\s*\(\s*(\d+),\s*(\d+)\s*\)\s*\)", s)]


def model_compare(ctx, scs, ress, name):
    """evaluate every scenario in Coq; returns (disagreements, n_evaluated, adm_mismatches)"""
    exprs, index = [], []
    for n, (sc, res) in enumerate(zip(scs, ress)):
        if "harness_error" in res:
            continue
        mt = model_terms(sc, res)
        if mt is None:
            continue
        cfg, hist, tables = mt
        if tables.get("locs"):
            exprs.append("(map show (moutcomes %s %s %d %s), madmissible %s %s %d %s)" % (
                cfg, tables["sibs"], tables["locs"], hist, cfg, tables["sibs"], tables["locs"], hist))
        else:
            exprs.append("(map show (outcomes %s %s), admissible %s %s)" % (cfg, hist, cfg, hist))
        index.append((n, tables))
    vals = ctx.coq_eval_lines(REQ, DEFS, exprs, name=name, shard=40)
    disagreements, adm_mismatch = [], []
    for (n, tables), v in zip(index, vals):
        sc, res = scs[n], ress[n]
        model = parse_show_list(v)
        adm_coq = v.rstrip(" )").endswith("true")
        impl = impl_view(sc, res, tables)
        model_flat = [(a, b, c) for a, b, c in model]
        if len(model_flat) != len(impl):
            disagreements.append({"scenario": sc, "event": -1, "model": model_flat, "impl": impl})
            continue
        for i, (m, im) in enumerate(zip(model_flat, impl)):
            if m[0] == 2 and im[0] == 2:
                continue   # both raise (the exception class of filter_args is not modelled)
            if m[0] in (3, 4, 7) and im[0] == m[0]:
                # a value is identified by its class (the canonical text of the value); the source component is
                # redundant and ambiguous when two texts are the same program (comment / blank-line edits)
                m, im = (m[0], 0, m[2]), (im[0], 0, im[2])
            if m != im:
                disagreements.append({"scenario_id": sc["id"], "event": i, "model": m, "impl": im,
                                      "scenario": sc})
                break
        sc["_raises"] = {i: True for i, r in enumerate(res["events"]) if r.get("args_id", 1) is None}
        if sc.get("locs"):
            if not adm_coq:
                adm_mismatch.append({"scenario": sc, "python_monitor": "generated admissible at every location",
                                     "coq_admissible": adm_coq})
        elif monitor(sc)[0] != adm_coq:
            adm_mismatch.append({"scenario": sc, "python_monitor": monitor(sc), "coq_admissible": adm_coq})
    return disagreements, len(vals), adm_mismatch


def strip(sc):
    return {k: v for k, v in sc.items() if not k.startswith("_")}


# ---------------------------------------------------------------------- witnesses (known findings)
def _sig_witness(sid, params, calls, ignore=()):
    ev = [["define", 0], ["wrap", 0]]
    for cs in calls:
        ev += [["check", 0, cs, True], ["call", 0, cs, True]]
    return {"id": sid, "type": "sig", "params": params, "ignore": list(ignore), "compress": False,
            "versions": {"0": {"tag": "v0", "path": "verifmod.py", "pad": 0, "kind": "def"}}, "events": ev}


def I(n):
    return {"i": n}


W_F1 = _sig_witness("F1", [["a", "po", None], ["b", "pk", None]],
                    [{"pos": [I(1), I(2)], "kw": []}, {"pos": [I(1), I(3)], "kw": []}])
W_F2 = _sig_witness("F2", [["a", "pk", I(1)], ["b", "pk", I(2)], ["c", "ko", None]],
                    [{"pos": [I(5)], "kw": [["c", I(0)]]}, {"pos": [I(5), I(1)], "kw": [["c", I(0)]]}])
W_F2C = _sig_witness("F2-complete", [["a", "pk", I(1)], ["b", "pk", I(2)], ["c", "ko", None]],
                     [{"pos": [I(5)], "kw": [["c", I(0)]]}, {"pos": [I(5), I(2)], "kw": [["c", I(0)]]}])
W_F2R = _sig_witness("F2-rejected", [["a", "pk", None], ["b", "ko", I(1)], ["c", "ko", None]],
                     [{"pos": [I(0)], "kw": [["c", I(5)]]}])
W_F3 = _sig_witness("F3", [["a", "pk", None], ["args", "va", None], ["b", "ko", None]],
                    [{"pos": [I(1), I(2), I(3)], "kw": [["b", I(4)]]}])


def _c12_witness(sid, same_file, events):
    V = {str(k): {"tag": "v%d" % k, "path": "verifmod.py" if same_file else "mod_v%d.py" % k, "pad": 0,
                  "kind": "def", "text": k} for k in (1, 2)}
    return {"id": sid, "type": "c12", "params": [["x", "pk", None]], "ignore": [], "compress": False,
            "versions": V, "mode": "same" if same_file else "own", "events": events}


def _c(k, a=0):
    return ["call", k, {"pos": [I(a)], "kw": []}, True]


W_F10 = _c12_witness("F10", False, [["define", 1], ["wrap", 1], ["define", 2], ["wrap", 2], _c(1), _c(2), _c(1)])
W_SAME = _c12_witness("same-file", True, [["define", 1], ["wrap", 1], ["define", 2], ["wrap", 2], _c(1), _c(2)])

# (scenario, property, kind of deviation that must still occur, finding key)
WITNESSES = [
    (W_F1, "C02", "wrong-value", K_POSONLY), (W_F2, "C02", "wrong-value", K_DEFAULT),
    (W_F2C, "C06", "recomputed", K_DEFAULT), (W_F2R, "C06", "rejected", K_DEFAULT),
    (W_F3, "C06", "rejected", K_VARARGS),
    (W_F10, "C12", "wrong-version", K_F10), (W_SAME, "C12", "wrong-version", K_SAMEFILE),
]

TRUSTED = [
    "Coq 8.16.1 kernel (coqc, full .vo build); vm_compute in the refuted witnesses / examples and in the scenario "
    "evaluation; no native_compute; Print Assumptions closed for every theorem",
    "the hand-written model Model/MemoryCore.v of joblib/memory.py (MemorizedFunc.__call__/_cached_call/"
    "_is_in_cache_and_valid/_check_previous_func_code/_write_func_code/_call/call_and_shelve/check_call_in_cache/"
    "clear, _FUNCTION_HASHES, MemorizedResult.get/clear, Memory.cache/clear/reduce_size) -- tied to the code "
    "behaviourally, event by event, by this check",
    "interface hypotheses key_sound / key_complete / accepts about filter_args + hashing.hash (models M2, M3: "
    "C07 / C08); validated here empirically on every generated call (real _get_args_id partition vs "
    "inspect.signature.bind partition), refuted on the shapes of findings F1-F3",
    "composition M2 o M3 (Model/MemoryKey.v, Proofs/MemoryKey*.v): on b-c07's fragment sig_in_fragment, key_complete and "
    "accepts are PROVED (C06_complete_fragment, C06_accepts_fragment) and key_sound is PROVED (C02_sound_fragment) from "
    "these remaining hypotheses: md5 has no collision on the streams that occur; the value bridge vmap/nmap is "
    "faithful (distinct names spelled differently, distinct abstract values denote Python values that differ by more "
    "than dict/set iteration order, all in C08's universe); the canonical dicts that occur are good and fit the "
    "protocol fields (C08's injective sub-universe). Stage 'composed key' evaluates that key with the RFC 1321 md5 of "
    "Base/C08_MD5.v and compares it with the real _get_args_id",
    "the user function is pure and ignores the parameters it asks joblib to ignore (f_respects)",
    "pickling/compression of values is the identity at this level (C03/C13); one function identifier; "
    "versions sharing a file start at the same line; no concurrency (C11) and no crashes (C05)",
    "harness: scenario generators, harness/impl/c02_impl.py, canonicalisation (strict type-tagged text), the "
    "oracles (undecorated twin, inspect.signature.bind, version tags)",
]


_NP = []


def numpy_available():
    if not _NP:
        try:
            p = subprocess.run([common.PYNP, "-c", "import numpy, joblib"], env=common.impl_env(),
                               stdout=subprocess.DEVNULL, stderr=subprocess.DEVNULL, timeout=120)
            _NP.append(p.returncode == 0)
        except Exception:  # noqa
            _NP.append(False)
    return _NP[0]


def fixed_numpy_scenarios():
    """'<i4' array vs its '>i4' view; [('a','<i4'),('b','<i4')] vs [('a','<i4'),('b','<f4')]: identical bytes"""
    out = []
    for n, (hexbytes, shape, dts) in enumerate([("0100000002000000", [2], ["<i4", ">i4"]),
                                                ("0100000002000000", [1], [[["a", "<i4"], ["b", "<i4"]],
                                                                          [["a", "<i4"], ["b", "<f4"]]]),
                                                ("0100000000000000", [1], ["<i8", "<M8[s]", "<M8[ms]"])]):
        arrs = [{"np": {"bytes": hexbytes, "dtype": d, "shape": shape}} for d in dts]
        ev = [["define", 0], ["wrap", 0]]
        for a in arrs + arrs[::-1]:
            cs = {"pos": [a], "kw": []}
            ev += [["check", 0, cs, True], ["call", 0, cs, True]]
        out.append({"id": "fixed-numpy-dtype-twins-%d" % n, "type": "sig", "py": "np",
                    "params": [["a", "pk", None], ["b", "pk", I(0)]], "ignore": [], "compress": False,
                    "versions": {"0": {"tag": "v0", "path": "verifmod.py", "pad": 0, "kind": "def"}}, "events": ev})
    return out


def fixed_indent_scenarios():
    """every 'same tokens, different program' variant against the base, across fresh processes and in process"""
    import random as _r
    return [gen_indent_scenario(_r.Random(11), "fixed-indent-a", INDENT_VARIANTS[1:5]),
            gen_indent_scenario(_r.Random(12), "fixed-indent-b", INDENT_VARIANTS[5:9]),
            gen_indent_scenario(_r.Random(13), "fixed-indent-c", INDENT_VARIANTS[9:] + ["indent-into-if"])]


def rng_for(ctx, prop):
    import random
    return random.Random("%s-%d" % (prop, ctx.seed))


def gen_for(ctx, prop, n=None):
    rng = rng_for(ctx, prop)
    quick = ctx.tier == "quick"
    if prop == "C12":
        n = n or (210 if quick else 2500)
        return ([W_F10, W_SAME] + fixed_scenarios(prop) + [gen_c12_scenario(rng, i) for i in range(n)]
                + [gen_edit_scenario(rng, "edit-%d" % i) for i in range(35 if quick else 600)]
                + [gen_indent_scenario(rng, "indent-%d" % i) for i in range(30 if quick else 400)]
                + [gen_names_scenario(rng, "names-%d" % i) for i in range(30 if quick else 400)]
                + [gen_loc_scenario(rng, "loc-%d" % i) for i in range(45 if quick else 600)]
                + [gen_procs_scenario(rng, "procs-%d" % i) for i in range(25 if quick else 300)])
    sigs3 = enum_signatures(3)
    sigs = enum_signatures(4 if quick else 5)
    n = n or (230 if quick else 3000)
    scs = [w for w, p, _, _ in WITNESSES if w["type"] == "sig"] + fixed_scenarios(prop)
    scs += [gen_partial_scenario(rng, "p-%d" % i) for i in range(25 if quick else 400)]
    scs += [gen_codeless_scenario(rng, "cl-%d" % i) for i in range(35 if quick else 400)]
    if prop == "C02":
        # "a value equal to what the undecorated function returns" also when the function was edited meanwhile:
        # admissible-by-construction edit histories (position-aware and indentation-only edits)
        scs += fixed_indent_scenarios()
        scs += [gen_indent_scenario(rng, "indent-%d" % i) for i in range(12 if quick else 100)]
        scs += [gen_edit_scenario(rng, "edit-%d" % i) for i in range(8 if quick else 100)]
        # same-named callables of one module (other qualname = other function identifier)
        scs += [sc_ for sc_ in fixed_scenarios("C12") if sc_["id"] == "fixed-same-named-callables"]
        scs += [gen_names_scenario(rng, "names-%d" % i) for i in range(10 if quick else 100)]
        # source-less functions edited between sessions, a live process overtaken by another one with edited code
        scs += [sc_ for sc_ in fixed_scenarios("C12") if sc_["id"] in ("fixed-sourceless-literal-edit",
                                                                     "fixed-sourceless-global-name-edit",
                                                                     "fixed-live-process-overtaken",
                                                                     "fixed-aliases-clear-then-redefine",
                                                                     "fixed-aliases-clear-edit-new-process",
                                                                     "fixed-two-scripts-dotted-directory")]
        # several spellings of one cache directory (admissible at every location): the C02 oracle on the alias histories
        scs += [gen_loc_scenario(rng, "loc-%d" % i) for i in range(12 if quick else 100)]
        scs += [gen_procs_scenario(rng, "procs-%d" % i) for i in range(12 if quick else 100)]
    if numpy_available():
        scs += fixed_numpy_scenarios()
        scs += [gen_numpy_scenario(rng, "np-%d" % i) for i in range(30 if quick else 400)]
    else:
        ctx.note("interpreter with numpy (%s) not usable: numpy argument stream skipped" % common.PYNP)
    scs += [gen_pair_scenario(rng, "pair-%d" % i, "factory" if i % 2 else "wraps") for i in range(40 if quick else 400)]
    # every signature of <= 3 parameters at least once, then a random sample of the larger ones
    scs += [gen_sig_scenario(rng, s, "s3-%d" % i) for i, s in enumerate(sigs3)]
    plain = [s for s in sigs if not shape_keys(s)]
    for i in range(n):
        s = rng.choice(plain) if rng.random() < 0.6 else rng.choice(sigs)
        scs.append(gen_sig_scenario(rng, s, "r-%d" % i))
    return scs


def search_failing(ctx, prop, n=120):
    """a concrete failing input judged by the oracle only (used when a proof or the correspondence breaks)"""
    scs = gen_for(ctx, prop, n)
    ress = run_scenarios(scs)
    for sc, res in zip(scs, ress):
        for d in judge(sc, res):
            if d["prop"] in (prop, "*") and d["key"] is None:
                return d["what"], {"scenario": strip(sc), "event": d["event"]}
    return None


def run_property(ctx, prop):
    corpus = []
    cpath = os.path.join(common.ROOT, "corpus", prop.lower() + ".jsonl")
    if os.path.exists(cpath):
        corpus = [json.loads(l) for l in open(cpath) if l.strip()]
    proofs_ok = ctx.standard_proof_stage(prop, search=lambda: search_failing(ctx, prop))
    scs = corpus + gen_for(ctx, prop)
    ress = run_scenarios(scs)
    # ---- independent oracle
    unknown, known = [], {}
    kinds = {}
    for sc, res in zip(scs, ress):
        for d in judge(sc, res):
            if d["prop"] not in (prop, "*"):
                continue
            kinds[d["kind"]] = kinds.get(d["kind"], 0) + 1
            if d["key"] is None:
                unknown.append((d, sc))
            else:
                known.setdefault(d["key"], []).append((d, sc))
    prio = {"wrong-value": 0, "wrong-value-get": 0, "wrong-version": 0, "recomputed": 1, "unchanged-recomputed": 1,
            "rejected": 1, "check-mismatch": 1, "key-collision": 2, "key-split": 2}
    unknown.sort(key=lambda x: prio.get(x[0]["kind"], 3))
    # ---- model
    disagreements, n_model, adm_mismatch = model_compare(ctx, scs, ress, prop.lower())
    # a wrong version / needless recomputation counts as the KNOWN finding of its admissibility clause only if the
    # faithful model (which contains F10 / F31) reproduces the history: where model and implementation part, the
    # deviation is something else
    parted = {id(d_["scenario"]) for d_ in disagreements if "scenario" in d_}
    for key_ in list(known):
        if key_ in (K_F10, K_SAMEFILE):
            keep_ = []
            for d, sc in known[key_]:
                if id(sc) in parted:
                    unknown.append((d, sc))
                else:
                    keep_.append((d, sc))
            if keep_:
                known[key_] = keep_
            else:
                del known[key_]
    if prop != "C12":
        # F10 / F31 are C12's known findings: where the model reproduces them they are not reported again here
        known.pop(K_F10, None)
        known.pop(K_SAMEFILE, None)
    prio_ = {"wrong-value": 0, "wrong-value-get": 0, "wrong-version": 0}
    unknown.sort(key=lambda x: prio_.get(x[0]["kind"], 1))
    for d, sc in unknown[:3]:
        ctx.violation("%s: %s" % (d["kind"], d["what"]), {"kind": "oracle", "scenario": strip(sc), "event": d["event"]},
                      True)
    if disagreements and not unknown:
        hit = search_failing(ctx, prop, 400)
        d0 = disagreements[0]
        rep = {"kind": "correspondence", "scenario": strip(d0["scenario"]), "event": d0["event"],
               "model": d0["model"], "impl": d0["impl"],
               "correspondence": "outcomes (tab_cfg ...) history  vs  the real Memory, event by event"}
        if hit:
            ctx.violation(hit[0], dict(hit[1], kind="model-disagreement+failing-input", first_disagreement=rep), True)
        else:
            ctx.violation("model and implementation disagree on %d scenarios (first: event %s, model %s, impl %s)"
                          % (len(disagreements), d0["event"], d0["model"], d0["impl"]), rep, found_input=False)
    if adm_mismatch:
        ctx.violation("the Python twin of [admissible] disagrees with Coq on %d scenarios" % len(adm_mismatch),
                      {"kind": "correspondence", "scenario": strip(adm_mismatch[0]["scenario"]),
                       "correspondence": "monitor() vs admissible"}, found_input=False)
    # ---- known findings: every witness of a refuted statement must still fail on the implementation
    for w, p, kind, key in WITNESSES:
        if p != prop:
            continue
        res = run_scenario(w)
        devs = [d for d in judge(w, res) if d["prop"] == prop and d["kind"] == kind]
        if not devs:
            ctx.violation("witness %s of a refuted statement no longer fails on the implementation: the model is stale"
                          % w["id"], {"kind": "stale-witness", "scenario": strip(w)}, found_input=False)
            continue
        d = devs[0]
        if d["key"] != key:
            ctx.violation("witness %s fails differently: %s" % (w["id"], d["what"]),
                          {"kind": "oracle", "scenario": strip(w), "event": d["event"]}, True)
        else:
            ctx.violation("witness %s: %s" % (w["id"], d["what"]), {"scenario": strip(w), "event": d["event"]},
                          True, finding_key=key)
    for key, lst in sorted(known.items()):
        d, sc = lst[0]
        ctx.violation("%d generated deviations of this shape, e.g. %s: %s" % (len(lst), d["kind"], d["what"]),
                      {"scenario": strip(sc), "event": d["event"]}, True, finding_key=key)
    # ---- composed key: M2 o M3 o md5 (Model/MemoryKey.v) against the real _get_args_id
    key_cov = {}
    if prop in ("C02", "C06"):
        import c02_key_stage
        key_cov = c02_key_stage.stage(ctx, scs, ress)
    # ---- coverage
    n_events = sum(len(sc["events"]) for sc in scs)
    hits = misses = 0
    nontrivial = set()
    ncalls = 0
    for sc, res in zip(scs, ress):
        if "harness_error" in res:
            continue
        h = sum(1 for ev, r in zip(sc["events"], res["events"]) if ev[0] in ("call", "shelve") and r.get("n") == 0
                and r.get("o") != "raise")
        m = sum(1 for ev, r in zip(sc["events"], res["events"]) if ev[0] in ("call", "shelve") and r.get("n", 0) > 0)
        ncalls += h + m
        hits += h
        misses += m
        if h and m:
            nontrivial.add(json.dumps(strip(sc), sort_keys=True))
    dist = {}
    for sc in scs:
        for ev in sc["events"]:
            dist[ev[0]] = dist.get(ev[0], 0) + 1
    sig_shapes = {"plain": 0, "known-shape": 0}
    for sc in scs:
        sig_shapes["known-shape" if any(shape_keys(ps) for ps in all_params(sc)) else "plain"] += 1
    return {
        "evaluations": len(scs),
        "distinct_nontrivial": len(nontrivial),
        "rule": "one evaluation = one history (scenario) executed on the real joblib.Memory in fresh interpreters "
                "(one per process segment) and on the Coq model; non-trivial = the history contains at least one "
                "cache hit and one miss; distinct by canonical JSON of the scenario",
        "samples": [strip(scs[len(corpus)]), strip(scs[len(scs) // 2]), strip(scs[-1])],
        "traces_validated_against_impl": n_model,
        "events_compared": n_events,
        "calls": ncalls, "hits": hits, "misses": misses,
        "event_distribution": dist,
        "signature_distribution": sig_shapes,
        "oracle_deviation_kinds": kinds,
        "known_finding_counts": {k: len(v) for k, v in known.items()},
        "disagreements": len(disagreements),
        "proofs_ok": proofs_ok,
        "trusted_base": TRUSTED,
        "exhaustive": False,
        **key_cov,
    }


def replay_property(ctx, prop, path):
    obj = json.load(open(path))
    rep = obj.get("replay", obj)
    sc = rep.get("scenario") or (rep.get("input") or {}).get("scenario")
    if not sc or "events" not in sc:
        print("replay file names a broken proof/correspondence, nothing to execute:", rep.get("kind"))
        return 1
    res = run_scenario(sc)
    devs = [d for d in judge(sc, res) if d["prop"] in (prop, "*")]
    for d in devs:
        print("replay: event %s %s: %s [%s]" % (d["event"], d["kind"], d["what"], d["key"] or "not a known finding"))
    if not devs:
        print("replay: property holds on this history (%d events)" % len(sc["events"]))
    return 1 if devs else 0
