"""Shared machinery of the four Parallel properties (C01, C04, C09, C16) on model M1.

generate schedules on the real implementation (harness/impl/m1_driver.py, which owns the
schedule) -> replay the very same event lists on the Coq model (Model/ParallelCore.v) ->
compare per-event observations and state snapshots -> judge every real run by oracles that
do not consult the model.
"""
import json
import os
import re
import subprocess
import sys
from concurrent.futures import ThreadPoolExecutor

sys.path.insert(0, os.path.dirname(os.path.dirname(os.path.abspath(__file__))))
import common  # noqa: E402

REQ = """From Coq Require Import List Bool Arith.
Require Import JV.Model.ParallelCore JV.Model.ParallelShow.
Import ListNotations."""


# ------------------------------------------------------------------ cases
def pre_amount(pre, n_jobs):
    if pre == "all":
        return None
    if isinstance(pre, str):
        return int(eval(pre.replace("n_jobs", str(n_jobs)), {"__builtins__": {}}))
    return int(pre)


def gen_call(rng, profile, call_idx):
    n_jobs = rng.choice([2, 2, 3, 3, 4, 5])
    # expressions are evaluated to a float and TRUNCATED (int()): fractions above and below one half, exact halves
    pre = rng.choice([1, 2, 3, "all", "n_jobs", "2*n_jobs", "1.5*n_jobs", "2*n_jobs", 5, "2.6*n_jobs", "1.5*n_jobs",
                      "n_jobs+n_jobs/2", "7*n_jobs/4", "3*n_jobs//2", "3/2*n_jobs", "n_jobs/4*8", "(n_jobs+1)/8*6+1",
                      "2**n_jobs/2", "-(-n_jobs)*1.0", "n_jobs%2+2"])
    mode = rng.choice(["ordered", "ordered", "unordered"]) if profile != "c16" else rng.choice(["ordered", "unordered"])
    amount = pre_amount(pre, n_jobs)
    base = (amount or 4)
    N = rng.choice([0, 1, 2, base - 1, base, base + 1, n_jobs * 2, n_jobs * 3 + 1, base + n_jobs * 2 + 1,
                    rng.randint(0, 14), rng.randint(5, 25)])
    N = max(0, N)
    ifail, tfail = None, []
    if profile == "c04" and rng.random() < 0.75 or profile in ("c09", "c16") and rng.random() < 0.25:
        r = rng.random()
        if r < 0.3 and N >= 0:
            ifail = rng.randint(0, N)
        elif N > 0:
            tfail = sorted(set(rng.randint(0, N - 1) for _ in range(rng.choice([1, 1, 2]))))
    return ["call", n_jobs, pre, mode, N, ifail, tfail, None]


def gen_cases(rng, n, profile):
    cases = []
    for i in range(n):
        ncalls = rng.choice([1, 1, 2]) if profile in ("c01", "c09") else rng.choice([2, 2, 3])
        calls = [gen_call(rng, profile, k) for k in range(ncalls)]
        # one Parallel object is reused for all calls of a case: n_jobs is fixed by its backend
        for c in calls[1:]:
            c[1] = calls[0][1]
            c[3] = calls[0][3]   # ... and so is return_as
        case = {"id": i, "seed": rng.randint(0, 10 ** 9), "calls": calls, "max_events": 160,
                "bsizes": rng.choice([[1], [1, 1, 2, 3], [2], [1, 2], [3, 1]]),
                "p_close": {"c16": 0.12, "c04": 0.05}.get(profile, 0.02),
                "p_extfail": {"c04": 0.06}.get(profile, 0.01),
                "p_call2": {"c16": 0.1}.get(profile, 0.02),
                "managed": rng.random() < 0.5,          # calls made inside `with Parallel(...)`
                "warn_error": rng.random() < 0.3,       # close() under warnings-as-errors
                "p_abort_race": 0.5,
                "sized_inputs": rng.random() < 0.3,     # lazy inputs that know their length (n_tasks is known up front)
                "base_fail": rng.random() < 0.2,        # failing tasks raise a BaseException that is not an Exception
                # the backend refuses a batch at one of the caller's dispatches (submit raises)
                "p_refuse": rng.choice([0.0, 0.0, 0.0, 0.15, 0.4]) if profile in ("c04", "c01", "c16") else 0.0}
        if profile == "c09" and i % 3 == 0:
            # pre_dispatch written as an expression in n_jobs, on a backend that grants fewer workers than requested
            case.update(pre_expr=True, over_request=rng.choice([1, 2, 3]))
        if i < 16:
            # a fixed share of every run, whatever the profile: generators abandoned early (close / close from another
            # thread / drop), half of them under warnings-as-errors, inside and outside a with block, with completions
            # arriving afterwards
            for c in calls:
                c[3] = "ordered" if i % 3 else "unordered"
                c[4] = max(c[4], 6)
            case.update(p_close=0.3, warn_error=(i % 2 == 0), managed=(i % 4 < 2))
        cases.append(case)
    return cases


def timeout_cases(rng, n):
    """a pull blocks on a batch that never completes -> TimeoutError (real time, 0.3 s); then the object is reused"""
    cases = []
    for i in range(n):
        n_jobs = rng.choice([2, 3])
        mode = rng.choice(["ordered", "unordered", "unordered"])
        tmo = 0 if i % 3 == 2 else 2.0     # timeout=0: "do not wait at all" (a request on a pending batch raises at once)
        calls = [["call", n_jobs, rng.choice([1, 2, "all"]), mode, rng.randint(2, 7), None, [], tmo],
                 ["call", n_jobs, 2, mode, rng.randint(0, 5), None, [], None]]
        cases.append({"id": "t%d" % i, "seed": rng.randint(0, 10 ** 9), "calls": calls, "max_events": 80,
                      "stall_after": rng.choice([0, 1, 1, 2, 2, 3]), "p_close": 0.0, "p_call2": 0.0, "bsizes": [1, 2],
                      "managed": rng.random() < 0.5, "p_blocked_pull": 1.0, "cb_after_start": True,
                      "policy": "pull_first" if rng.random() < 0.7 else None,
                      "sleep_before_first_pull": 2.4 if (tmo and i % 3 == 0) else None,
                      "nap_before_pulls": [2, 3] if (tmo and i % 3 == 1) else None,
                      # every other nap case keeps the watched job pending and completes the others
                      "avoid_control": bool(tmo and i % 3 == 1 and i % 2 == 1)})
    return cases


# ------------------------------------------------------------------ implementation
def run_driver(cases, env_extra=None, nproc=None, timeout=900):
    nproc = nproc or max(1, min(common.NCPU - 2, 12))
    chunks = [cases[i::nproc] for i in range(nproc)]
    env = common.impl_env(env_extra)

    def work(ch):
        if not ch:
            return []
        p = subprocess.run([common.PY, os.path.join(common.ROOT, "harness", "impl", "m1_driver.py")],
                           input="\n".join(json.dumps(c) for c in ch) + "\n", stdout=subprocess.PIPE,
                           stderr=subprocess.PIPE, text=True, env=env, timeout=timeout)
        out = [json.loads(l) for l in p.stdout.splitlines() if l.startswith("{")]
        if len(out) != len(ch):
            raise RuntimeError("m1_driver returned %d results for %d cases\n%s" % (len(out), len(ch), p.stderr[-3000:]))
        return out
    with ThreadPoolExecutor(nproc) as ex:
        outs = list(ex.map(work, chunks))
    res = [None] * len(cases)
    for k, ch in enumerate(chunks):
        for j, r in enumerate(outs[k]):
            res[k + nproc * j] = r
    return res


# ------------------------------------------------------------------ model
def coq_events(events):
    out = []
    cur = None
    for e in events:
        k = e[0]
        if k == "call":
            _, nj, pre, mode, N, ifail, tfail, tmo = e
            amt = pre_amount(pre, nj)
            cur = "{| n_jobs := %d; pre := %s; mode := %s |}" % (
                nj, "PreAll" if amt is None else "PreN %d" % amt, "Ordered" if mode == "ordered" else "Unordered")
            out.append("ECall %s %d %s" % (cur, N, "None" if ifail is None else "(Some %d)" % ifail))
        elif k == "call2":
            out.append("ECall %s 0 None" % (cur or "{| n_jobs := 2; pre := PreAll; mode := Ordered |}"))
        elif k == "dispatch":
            out.append("EDispatch %d" % e[1])
        elif k == "refuse":
            out.append("ERefuse %d" % e[1])
        elif k == "cb":
            o = e[3]
            out.append("ECbStart %d %s" % (e[1], "None" if o is None else "(Some (ErrTask %d))" % o))
        elif k == "cbfin":
            out.append("ECbFinish %d %d" % (e[1], e[2]))
        elif k == "pull":
            out.append("EPull")
        elif k == "pulltimeout":
            out.append("EPull")
            out.append("ETimeout")
        elif k in ("close", "drop", "xclose"):
            out.append("EClose")
        elif k == "timeout":
            out.append("ETimeout")
        else:
            raise ValueError(e)
    return "[" + "; ".join(out) + "]"


def parse_nested(s):
    """parse Coq's printing of nested lists/tuples of nats into Python lists"""
    s = s.replace("%nat", "")
    s = re.sub(r"\(", "[", s)
    s = re.sub(r"\)", "]", s)
    s = s.replace(";", ",")
    return json.loads(s)


def model_runs(ctx, runs, guard=True, name="m1"):
    exprs = ["run_show %s init %s" % ("true" if guard else "false", coq_events(r["events"])) for r in runs]
    vals = ctx.coq_eval_lines(REQ, "", exprs, name=name, shard=40)
    out = []
    for v, r in zip(vals, runs):
        rows = parse_nested(v)
        # each row: [[obs...], [snap...]], [submitted...]]  after tuple flattening: [[obs, snap], submitted]
        norm = []
        it = iter(rows)
        for e in r["events"]:
            try:
                obs, snap, sub = next(it)
                if e[0] == "pulltimeout":      # one real event = EPull; ETimeout
                    obs2, snap, sub = next(it)
                    obs = obs + obs2
            except StopIteration:
                break
            norm.append({"obs": obs, "snap": snap, "submitted": sub})
        out.append(norm)
    return out


def real_obs_code(o):
    k = o[0]
    if k == "val":
        return [0, o[1]]
    if k == "stop":
        return [1]
    if k == "raised":
        code = {"task": 0, "iter": 1, "timeout": 2, "runtime": 3, "attr": 4, "backend": 5}.get(o[1])
        if code is None:
            return [2, 99, 0]
        return [2, code, o[2] if code == 0 else 0]
    return [9]


def real_snap(s):
    return [s["taken"], s["n_disp"], s["n_comp"], s["njobs"], int(s["iterating"]), int(s["aborting"]),
            s["nready"], int(s["running"]), int(s.get("exception", False))]


def compare(run, model):
    """first disagreement between the real run and the model: None | dict"""
    if "harness_error" in run:
        return {"kind": "harness_error", "detail": run["harness_error"]}
    if len(model) != len(run["events"]):
        return {"kind": "length", "detail": "model %d events, real %d" % (len(model), len(run["events"]))}
    for k, (ev, ro, rs, m) in enumerate(zip(run["events"], run["obs"], run["snaps"], model)):
        robs = [real_obs_code(o) for o in ro]
        if ev[0] != "timeout" and [2, 2, 0] in robs and [2, 2, 0] not in m["obs"]:
            # the wall clock ran past `timeout` outside a timeout event (slow machine): not comparable -- provided the
            # caller really had been waiting that long
            tmo_now = next((e2[7] for e2 in reversed(run["events"][:k + 1]) if e2[0] == "call"), None)
            waited = rs.get("timeout_elapsed")
            if not (tmo_now and waited is not None and waited < 0.75 * tmo_now):
                return {"kind": "inconclusive", "index": k, "event": ev, "detail": "spontaneous TimeoutError"}
        if robs != m["obs"]:
            late = (robs == [] and m["obs"] != [])
            return {"kind": "late" if late else "obs", "index": k, "event": ev, "real": robs, "model": m["obs"]}
        # the counter behind the early-exit warning: number of values handed to the consumer (while the run is alive)
        msnap, consumed = m["snap"][:9], (m["snap"][9] if len(m["snap"]) > 9 else None)
        if consumed is not None and rs.get("running") and "nb_consumed" in rs and rs["nb_consumed"] != consumed:
            return {"kind": "snap", "index": k, "event": ev, "real": rs["nb_consumed"], "model": consumed,
                    "fields": "_nb_consumed (values handed to the consumer so far)"}
        m = dict(m, snap=msnap)
        if real_snap(rs) != m["snap"]:
            return {"kind": "snap", "index": k, "event": ev, "real": real_snap(rs), "model": m["snap"],
                    "fields": "taken n_disp n_comp njobs iterating aborting nready running exception"}
        if rs["submitted"] != m["submitted"]:
            return {"kind": "submitted", "index": k, "event": ev, "real": rs["submitted"], "model": m["submitted"]}
    return None


# ------------------------------------------------------------------ oracles (implementation only)
def split_calls(run):
    """per call: dict(cfg, events idx range, values, outcome, snaps)"""
    calls = []
    cur = None
    for k, ev in enumerate(run["events"]):
        if ev[0] == "call":
            cur = {"cfg": ev, "start": k, "values": [], "outcome": None, "snaps": [], "events": [], "idx": len(calls) + 1,
                   "closed": False}
            calls.append(cur)
        if cur is None:
            continue
        cur["events"].append(ev)
        cur["snaps"].append(run["snaps"][k])
        for o in run["obs"][k]:
            if ev[0] == "call2":
                cur.setdefault("call2", []).append(o)
                continue
            if o[0] == "val":
                cur["values"].append((o[1], o[2] if len(o) > 2 else None))
            elif o[0] == "stop":
                if ev[0] in ("close", "drop", "xclose"):
                    cur["closed"] = True
                cur["outcome"] = cur["outcome"] or ["stop"]
            elif o[0] == "raised":
                cur["outcome"] = cur["outcome"] or o
    return calls


def oracle(run, profile_all=True):
    """list of (property, what) for every property statement that this real run contradicts"""
    bad = []
    if "harness_error" in run:
        return [("ALL", "harness error: " + run["harness_error"])]
    for a in run["anomalies"]:
        bad.append(("C04", "anomaly: " + a))
    if run.get("reentered"):
        bad.append(("C09", "input iterator entered by two threads at once"))
    for c in split_calls(run):
        _, nj, pre, mode, N, ifail, tfail, tmo = c["cfg"]
        vals = [v for v, cn in c["values"]]
        wrong_call = [cn for v, cn in c["values"] if cn is not None and cn != c["idx"]]
        if wrong_call:
            bad.append(("C04", "call %d delivered values of call(s) %s (leftovers)" % (c["idx"], sorted(set(wrong_call)))))
        execd = run["exec_log"].get(str(c["idx"]), [])
        if len(execd) != len(set(execd)):
            bad.append(("C01", "a task was executed twice: %s" % sorted(execd)))
        out = c["outcome"]
        if mode == "ordered":
            if vals != list(range(len(vals))):
                bad.append(("C01", "ordered output is not the input order: %s" % vals))
        else:
            if len(vals) != len(set(vals)) or any(v < 0 or v >= N for v in vals):
                bad.append(("C16", "unordered output repeats or invents a value: %s" % vals))
        if out == ["stop"] and not c["closed"]:
            if sorted(vals) != list(range(N)):
                bad.append(("C01", "call finished normally with %d of %d results: %s" % (len(vals), N, vals)))
            if sorted(execd) != list(range(N)):
                bad.append(("C01", "call finished normally but executed tasks %s of %d" % (sorted(execd), N)))
        if out and out[0] == "raised":
            kind = out[1]
            injected_ext = [e[3] for e in c["events"] if e[0] == "cb" and e[2] == "fail"]
            if kind == "task" and not (out[2] in tfail or out[2] in injected_ext):
                bad.append(("C04", "raised a task error that no task raised: %s" % out))
            if kind == "iter" and ifail is None:
                bad.append(("C04", "raised an iterator error although the input did not fail"))
            if kind == "timeout" and tmo is None:
                bad.append(("C04", "TimeoutError without a timeout"))
            if kind == "backend" and not any(e[0] == "refuse" for e in c["events"]):
                bad.append(("C04", "the call raised the backend's refusal although the backend refused nothing"))
            if kind in ("attr",) or kind not in ("task", "iter", "timeout", "runtime", "backend"):
                bad.append(("C04", "call died with an internal error: %s" % out))
        # clean-up duties of a finished call: abort_everything exactly once for a call that ended by an exception or
        # a close inside the retrieval loop (with ensure_ready = "inside a with block"), stop_call once per call,
        # backend.terminate() once after the call iff the backend is not managed by a with block
        if c["snaps"] and c["outcome"] is not None:
            first, last = c["snaps"][0], c["snaps"][-1]
            if not last["running"]:
                started = first["start_calls"] > 0 or True
                if last["stop_calls"] != last["start_calls"]:
                    bad.append(("C04", "backend.stop_call() called %d times for %d start_call()" % (last["stop_calls"], last["start_calls"])))
                ended_badly = c["outcome"][0] == "raised" and c["outcome"][1] != "runtime"
                closed_in_loop = c["closed"] and any(s2["aborting"] for s2 in c["snaps"])
                if (ended_badly or closed_in_loop) and last["aborts"] != first["aborts"] + 1 and first["call_no"] == last["call_no"]:
                    # first snapshot of the call is taken after ECall, when nothing of this call can have aborted yet
                    bad.append(("C04" if ended_badly else "C16",
                                "backend.abort_everything() called %d times for a call that was aborted" % (last["aborts"] - first["aborts"])))
                if (ended_badly or closed_in_loop) and last["aborts"] == first["aborts"] + 1 and last["ensure_ready"] != last["managed"]:
                    bad.append(("C04", "abort_everything(ensure_ready=%s) although managed backend = %s" % (last["ensure_ready"], last["managed"])))
                if not last["managed"] and last["terminates"] != first["terminates"] + 1:
                    bad.append(("C04", "backend.terminate() called %d times after a call outside a with block" % (last["terminates"] - first["terminates"])))
                if last["managed"] and last["terminates"] != first["terminates"]:
                    bad.append(("C04", "backend.terminate() called inside a with block"))
        if tmo is not None:
            for e, obs_k, sn in zip(c["events"], [run["obs"][c["start"] + i] for i in range(len(c["events"]))], c["snaps"]):
                if any(o[:2] == ["raised", "timeout"] for o in obs_k) and tmo and \
                        sn.get("timeout_elapsed") is not None and sn["timeout_elapsed"] < 0.75 * tmo:
                    for tag in ("C04", "C01", "C16"):
                        bad.append((tag, "TimeoutError after the caller had waited only %.2f s for the result (timeout=%s s): the "
                                         "time a batch spent dispatched before anybody waited for it was counted, the call lost "
                                         "its results" % (sn["timeout_elapsed"], tmo)))
                if e[0] == "timeout" and not any(o[0] == "raised" for o in obs_k) and sn.get("pending_pull"):
                    bad.append(("C04", "the caller waited 8 s (timeout=%s s) for a batch that never completes and no "
                                       "TimeoutError was raised" % tmo))
        if mode == "unordered":
            # results come batch by batch in the order in which the completions were registered
            order = []
            subs = c["snaps"][-1]["submitted"] if c["snaps"] else []
            ids = c["snaps"][-1].get("trk_ids", []) if c["snaps"] else []
            tasks_of = dict(zip(ids, subs))
            for e in c["events"]:
                if e[0] == "cb" and len(e) > 3 and e[3] is None and e[1] in tasks_of:
                    order.extend(tasks_of[e[1]])
            # batches whose completion was dropped (abort) never show up; delivered must be a prefix-compatible subsequence
            pos = 0
            okseq = True
            for v in vals:
                while pos < len(order) and order[pos] != v:
                    pos += 1
                if pos == len(order):
                    okseq = False
                    break
                pos += 1
            if not okseq:
                bad.append(("C16", "unordered generator did not deliver in completion order: delivered %s, completions %s" % (vals, order)))
        for o in c.get("call2", []):
            if o != ["raised", "runtime", 0]:
                bad.append(("C16", "calling a running Parallel gave %s instead of RuntimeError" % o))
        # C09: laziness bound, stop after abort, pre_dispatch='all'
        amt = pre_amount(pre, nj)
        bmax = max([e[1] for e in c["events"] if e[0] in ("dispatch", "refuse")] + [e[2] for e in c["events"] if e[0] == "cbfin"] + [1])
        aborted_taken = None
        started = False
        for e, s in zip(c["events"], c["snaps"]):
            if s["call_no"] != c["idx"]:
                continue
            if amt is not None and s["taken"] - s["n_comp"] > amt * bmax + nj * bmax:
                # known finding F26: a completion callback ran its dispatch section while the caller was
                # still inside _start, and the caller then drained the look-ahead queue it refilled
                last_disp = max([k for k, e2 in enumerate(c["events"]) if e2[0] == "dispatch"] + [-1])
                cb_in_start = any(e2[0] == "cbfin" for e2 in c["events"][:last_disp])
                bad.append(("C09", "taken-completed = %d exceeds pre*b + n_jobs*b = %d" % (
                    s["taken"] - s["n_comp"], amt * bmax + nj * bmax),
                    "known:c09:bound-exceeded:callback-dispatch-section-ran-during-_start" if cb_in_start else "plain"))
                break
            if aborted_taken is not None and s["taken"] > aborted_taken:
                bad.append(("C09", "items taken after the abort: %d -> %d" % (aborted_taken, s["taken"])))
                break
            if s["aborting"] and aborted_taken is None:
                aborted_taken = s["taken"]
        if amt is None:
            # after _start (first event that is not call/dispatch) everything has been taken
            for e, s in zip(c["events"], c["snaps"]):
                if e[0] in ("pull",) and not s["aborting"] and ifail is None and s["taken"] != N and s["running"]:
                    bad.append(("C09", "pre_dispatch='all' but only %d of %d items taken when the first result was requested" % (s["taken"], N)))
                    break
        # C16 close: nothing is submitted after close, object not running
        closed_at = None
        for k, (e, s) in enumerate(zip(c["events"], c["snaps"])):
            if e[0] in ("close", "drop", "xclose"):
                closed_at = len(s["submitted"])
                if s["running"]:
                    bad.append(("C16", "Parallel still running after the generator was closed"))
            elif closed_at is not None and s["call_no"] == c["idx"] and len(s["submitted"]) > closed_at:
                bad.append(("C16", "a batch was submitted after the generator was closed"))
                break
        # C16 promptness (ordered): a pull is still pending although the batch holding the next value
        # (and every earlier one) has completed.  Timing sensitive: confirmed on a slow replay.
        if mode == "ordered":
            done = set()
            delivered = 0
            for k, (e, s) in enumerate(zip(c["events"], c["snaps"])):
                if e[0] == "cb" and e[3] is None:
                    done.add(e[1])
                delivered += sum(1 for o in run["obs"][c["start"] + k] if o[0] == "val")
                if s["call_no"] != c["idx"] or not s.get("pending_pull") or s["aborting"] or not s["running"]:
                    continue
                acc = 0
                for items, tid in zip(s["submitted"], s.get("trk_ids", [])):
                    if acc <= delivered < acc + len(items):
                        if tid in done:
                            bad.append(("C16", "value %d not delivered although its batch and all earlier ones "
                                               "completed (event %d)" % (delivered, c["start"] + k), "timing"))
                        break
                    acc += len(items)
                if bad and bad[-1][0] == "C16" and len(bad[-1]) == 3 and bad[-1][2] == "timing":
                    break
    return bad


# ------------------------------------------------------------------ the common run
def correspondence(ctx, profile, n_cases, extra_cases=()):
    """returns dict(runs, mismatches, oracle_failures, stats)"""
    cases = list(extra_cases) + gen_cases(ctx.rng, n_cases, profile)
    corpus = os.path.join(common.ROOT, "corpus", "m1.jsonl")
    if os.path.exists(corpus):
        cases = [json.loads(l) for l in open(corpus) if l.strip()] + cases
    runs = run_driver(cases)
    ok_runs = [r for r in runs if "harness_error" not in r]
    models = model_runs(ctx, ok_runs, name="m1_" + profile)
    mism, orc = [], []
    it = iter(models)
    replays = []
    inconclusive = []
    unconfirmed = []
    for case, r in zip(cases, runs):
        if "harness_error" in r:
            mism.append((case, r, {"kind": "harness_error", "detail": r.get("tb", r["harness_error"])[-1500:]}))
            continue
        m = next(it)
        d = compare(r, m)
        if d and d["kind"] == "inconclusive":
            inconclusive.append(d)
            continue
        if d and d["kind"] in ("late", "snap"):
            replays.append((case, r, m, d))
        elif d:
            mism.append((case, r, d))
        tim = False
        for o in oracle(r):
            if len(o) == 3 and o[2] == "timing":
                tim = True
            else:
                orc.append((case, r, o))
        if tim and not (d and d["kind"] in ("late", "snap")):
            replays.append((case, r, m, {"kind": "oracle-timing"}))
    # timing re-check: replay with long waits, serially (1 process) to avoid load effects
    if replays:
        rcases = [dict(replay_options(c), id=c.get("id"), mode="replay", events=script_of(r), seed=c.get("seed", 0),
                       expect=[len(x["obs"]) for x in m])
                  for c, r, m, d in replays]
        rruns = run_driver(rcases, env_extra={"M1_WAIT_LONG": "3.0"}, nproc=4)
        rmodels = model_runs(ctx, [x for x in rruns if "harness_error" not in x], name="m1r_" + profile)
        it2 = iter(rmodels)
        for (case, r, m, d), rr in zip(replays, rruns):
            if "harness_error" in rr:
                mism.append((case, rr, {"kind": "harness_error", "detail": rr["harness_error"]}))
                continue
            m2 = next(it2)
            d2 = compare(rr, m2)
            if d2:
                d2["confirmed_by_replay"] = True
                mism.append((case, rr, d2))
            elif d.get("kind") in ("late", "snap"):
                unconfirmed.append({"first_run": d, "events": len(r["events"])})
            for o in oracle(rr):
                if len(o) == 3 and o[2] == "timing":
                    orc.append((case, rr, o[:2]))
    stats = {"events": sum(len(r.get("events", [])) for r in runs),
             "calls": sum(1 for r in runs for e in r.get("events", []) if e[0] == "call"),
             "event_kinds": {}, "outcomes": {}, "replayed_for_timing": len(replays),
             "inconclusive_spontaneous_timeouts": len(inconclusive),
             "timing_disagreements_not_confirmed_by_slow_replay": len(unconfirmed),
             "timing_disagreements_not_confirmed_sample": unconfirmed[:2]}
    for r in runs:
        for e in r.get("events", []):
            stats["event_kinds"][e[0]] = stats["event_kinds"].get(e[0], 0) + 1
        for c in split_calls(r) if "events" in r else []:
            k = (c["outcome"] or ["unfinished"])[0:2]
            k = "/".join(str(x) for x in k)
            stats["outcomes"][k] = stats["outcomes"].get(k, 0) + 1
    return {"cases": cases, "runs": runs, "mismatches": mism, "oracle_failures": orc, "stats": stats}


def replay_options(case):
    """the options of a case that change what the implementation is asked to do (not how the schedule is drawn)"""
    return {k: case[k] for k in ("managed", "warn_error", "fresh_object_per_call", "sized_inputs", "base_fail", "avoid_control", "pre_expr", "over_request", "stall_call") if k in case}


def script_of(r):
    """what a replay executes: the recorded events, with the markers of unlocked fetches when there were any"""
    return strip_events(r.get("script") or r.get("events", []))


def strip_events(events):
    """event list for a replay: a completion that raced with a close (recorded as ['close', tid] followed by
    ['cb', tid, ..]) is folded back into the close event"""
    out = []
    skip = None
    for e in events:
        if e[0] == "cb":
            if skip is not None and e[1] == skip:
                skip = None
                continue
            out.append(e[:3])
        else:
            out.append(e)
            skip = e[1] if e[0] in ("close", "drop", "xclose") and len(e) > 1 else None
    return out


# ------------------------------------------------------------------ real-backend sampling / probes
def run_probe(script, payload, timeout=300):
    rc, out, err = common.run_impl(script, input_text=json.dumps(payload) + "\n", timeout=timeout)
    lines = [l for l in out.splitlines() if l.startswith("{")]
    if not lines:
        raise RuntimeError("%s produced no result: %s" % (script, err[-2000:]))
    return json.loads(lines[-1])


TRUSTED = [
    "Coq 8.16.1 kernel (coqc, full .vo build); vm_compute in the model evaluation and in Examples; no native_compute",
    "hand-written model coq/Model/ParallelCore.v (layer A: locked regions are atomic events); tied to joblib/parallel.py by "
    "schedule-exact correspondence: harness/impl/m1_driver.py owns the schedule through the public backend API "
    "(compute_batch_size / batch_completed scheduling points) and every event's observations and state snapshot "
    "(taken, n_dispatched_tasks, n_completed_tasks, len(_jobs), _iterating, _aborting, look-ahead queue size, _running, "
    "exact submitted batches) are compared with the model",
    "hand-written model coq/Model/ParallelSync.v (backends with supports_retrieve_callback = False; shares the dispatch-side "
    "functions of ParallelCore.v), tied to the code by harness/impl/m1s_driver.py: scheduling points compute_batch_size / "
    "retrieve_result / batch_completed and the poll sleep of joblib.parallel (its module-level `time` name is replaced by a "
    "proxy in the child interpreter), so that run is deterministic; same per-event comparison",
    "backend contract (hypothesis): the completion callback is invoked at most once per submitted batch with that "
    "batch's own result; batches run their tasks once each, in order",
    "not modelled: unlocked flag reads inside the polling loop at bytecode granularity (layer B), wall-clock latency, "
    "the pools of the real backends (sampled only)",
]


def standard_run(ctx, prop, profile):
    quick = ctx.tier == "quick"
    proofs_ok = ctx.standard_proof_stage(prop)
    n = {"c01": 160, "c04": 160, "c09": 140, "c16": 140}[profile]
    if not quick:
        n *= 10
    extra = timeout_cases(ctx.rng, 16 if quick else 80) if profile == "c04" else []
    if profile == "c01":
        # a generous `timeout` must not change the results: batches that are old when the caller starts to wait
        extra = [dict(c, stall_after=None) for c in timeout_cases(ctx.rng, 9 if quick else 30) if c.get("sleep_before_first_pull")]
    if profile == "c16":
        # generators with a `timeout`: each wait of the consumer is bounded separately (naps between the requests)
        extra = [c for c in timeout_cases(ctx.rng, 12 if quick else 40) if c.get("sleep_before_first_pull") or c.get("nap_before_pulls")]
    if profile in ("c16", "c04"):
        # fixed shapes: unordered results with a time-out, the consumer asks first, the job the retrieval loop watches for
        # its time-out stays pending while the others complete, with naps longer than the time-out between the requests
        for k, (nj, pre) in enumerate(((2, "all"), (3, 2), (2, 3))):
            extra.append({"id": "stale%d" % k, "seed": 1000 + k,
                          "calls": [["call", nj, pre, "unordered", 6, None, [], 2.0], ["call", nj, 2, "unordered", 3, None, [], None]],
                          "max_events": 80, "stall_after": None, "p_close": 0.0, "p_call2": 0.0, "bsizes": [1], "managed": k == 1,
                          "p_blocked_pull": 1.0, "cb_after_start": True, "policy": "pull_first", "nap_before_pulls": [2, 3],
                          "avoid_control": True})
    if profile == "c04":
        # fixed shapes: an object whose earlier unordered calls FAILED (completed and failed batches that nobody asked for
        # stay behind) is used for an unordered call with a time-out in which nothing completes: TimeoutError, not a hang
        for k, (nj, pre, n3) in enumerate(((2, "all", 1), (3, "all", 2), (2, 4, 1), (3, "all", 1))):
            extra.append({"id": "leftover%d" % k, "seed": 2000 + k,
                          "calls": [["call", nj, "all", "unordered", 8, None, [5], None], ["call", nj, "all", "unordered", 7, None, [4], None],
                                    ["call", nj, pre, "unordered", n3, None, [], 2.0], ["call", nj, 2, "unordered", 3, None, [], None]],
                          "max_events": 160, "stall_after": 0, "stall_call": 3, "p_close": 0.0, "p_call2": 0.0, "bsizes": [1],
                          "managed": k % 2 == 1, "p_blocked_pull": 0.05, "cb_after_start": True, "policy": "pull_first"})
    if profile == "c09":
        # deterministic witness of known finding F26 (a fixed schedule, replayed on every run): a completion callback runs
        # its dispatch section while the caller is still inside _start, and the caller then drains the look-ahead queue it
        # refilled: more items taken than the pre_dispatch bound allows
        wpath = os.path.join(common.ROOT, "corpus", "c09_f26_witness.json")
        if os.path.exists(wpath):
            extra.append(json.loads(open(wpath).read()))
    res = correspondence(ctx, profile, n, extra)
    if profile == "c09":
        hit = any(c.get("id") == "f26_witness" and len(o) == 3 and str(o[2]).startswith("known:c09")
                  for c, r, o in res["oracle_failures"])
        if not hit:
            ctx.note("the fixed witness schedule of known finding F26 (corpus/c09_f26_witness.json) did not exceed the bound in "
                     "this run: the finding may be stale")
    mine = [(c, r, o) for c, r, o in res["oracle_failures"] if o[0] in (prop, "ALL")]
    others = [(c, r, o) for c, r, o in res["oracle_failures"] if o[0] not in (prop, "ALL")]
    seen = set()
    for c, r, o in mine:
        key = o[2][6:] if len(o) == 3 and o[2].startswith("known:") else None
        sig = o[1] if key is None else key
        if sig in seen or len(seen) >= 4:
            continue
        seen.add(sig)
        ctx.violation(o[1], {"kind": "oracle", "case": dict(replay_options(c), mode="replay", events=script_of(r)),
                             "property_tag": o[0]}, True, finding_key=key)
    if res["mismatches"] and not ctx.violations:
        c, r, d = res["mismatches"][0]
        what = "model M1 and joblib.Parallel disagree (%d of %d schedules), first: %s" % (
            len(res["mismatches"]), len(res["runs"]), json.dumps(d)[:300])
        if others:
            what += " ; the runs violate %s: %s" % (others[0][2][0], others[0][2][1])
        ctx.violation(what, {"kind": "correspondence", "correspondence": "Model/ParallelCore.v step vs m1_driver events",
                             "first_disagreement": d,
                             "case": dict(replay_options(c), mode="replay", events=script_of(r))},
                      found_input=False)
    extra_cov = {}
    hook = EXTRA.get(profile)
    if hook:
        extra_cov = hook(ctx, quick) or {}
    nontrivial = set()
    for r in res["runs"]:
        if "events" in r and any(e[0] == "cbfin" for e in r["events"]):
            nontrivial.add(json.dumps(strip_events(r["events"])))
    cov = {
        "evaluations": len(res["runs"]),
        "distinct_nontrivial": len(nontrivial),
        "rule": "schedules are generated ONLINE on the real implementation: at each step one of the observably enabled "
                "events (caller dispatch with a scripted batch size, start/finish of a completion callback for any "
                "in-flight batch incl. stale ones of earlier calls, pull, close/drop, overlapping call, new call on "
                "the same object) is chosen by the seeded PRNG; the same event list is then run on the Coq model. "
                "non-trivial = at least one completion callback ran to its dispatch section; distinct by event list",
        "samples": [strip_events(res["runs"][0].get("events", []))[:30]],
        "traces_validated_against_impl": sum(1 for r in res["runs"] if "events" in r),
        "events_compared": res["stats"]["events"],
        "distribution": res["stats"],
        "disagreements": len(res["mismatches"]),
        "oracle_failures_other_properties": [o[2][0] + ": " + o[2][1] for o in others[:3]],
        "trusted_base": TRUSTED,
        "exhaustive": False,
    }
    cov.update(extra_cov)
    ctx.finish(cov, assumptions=["backend contract (one callback per batch, own result)",
                                 "fair environment: every in-flight batch is eventually completed (termination statements)"])


def standard_replay(ctx, path, prop):
    obj = json.load(open(path))
    rep = obj.get("replay", obj)
    case = rep.get("case")
    if rep.get("kind") == "pre-dispatch-expr" and rep.get("expression"):
        rc, out, err = common.run_impl("c09_expr_impl.py", input_text=json.dumps([rep["expression"]]), timeout=120)
        real, ref = json.loads(out.strip().splitlines()[-1])[0]
        ok = real == ref or (real[0] == "e" and ref[0] == "e")
        print("replay: pre_dispatch=%r joblib %s, Python %s => %s" % (rep["expression"], real, ref,
                                                                     "property holds on this input" if ok else "VIOLATED"))
        return 0 if ok else 1
    if case and case.get("sync"):
        import m1s_common
        return m1s_common.replay(case, prop)
    if case and case.get("seq"):
        import m1q_common
        return m1q_common.replay(case, prop)
    if not case or not case.get("events"):
        print("replay file names a broken proof/correspondence, nothing to execute:", rep.get("kind"))
        return 1
    case = dict(case, mode="replay", id="replay")
    r = run_driver([case], env_extra={"M1_WAIT_LONG": "3.0"}, nproc=1)[0]
    bad = [o for o in oracle(r) if o[0] in (prop, "ALL")]
    for e, o in zip(r.get("events", []), r.get("obs", [])):
        print(" ", e, o)
    print("replay =>", bad or "property holds on this schedule")
    return 1 if bad else 0



# ------------------------------------------------------------------ per-property extras
def real_cases(rng, n, fail_rate):
    cases = []
    for i in range(n):
        backend = rng.choice(["threading", "threading", "loky", "multiprocessing", "sequential"])
        ncpu = os.cpu_count() or 1
        # negative n_jobs count back from the number of CPUs and never give fewer than one worker
        n_jobs = 1 if backend == "sequential" else rng.choice([2, 3, 4, 2, 3, 4, 1 - ncpu, -ncpu - 1, -ncpu - 4])
        N = rng.choice([0, 1, 2, 5, 8, 13, 21, 40])
        c = {"backend": backend, "n_jobs": n_jobs, "batch_size": rng.choice(["auto", 1, 2, 3, 7]),
             "pre_dispatch": rng.choice(["all", "2*n_jobs", "n_jobs", 1, 3, "1.5*n_jobs"]),
             "return_as": rng.choice(["list", "list", "generator", "generator_unordered"]), "N": N,
             "tfail": [], "ifail": None, "reuse": 2, "seed": rng.randint(0, 10 ** 6), "with_block": rng.random() < 0.4,
             "verbose": rng.choice([0, 0, 0, 1, 11, 60]), "exc": "TaskFail", "init": None, "sized": rng.choice([False, False, True, True, "under", "over"])}
        if N and rng.random() < fail_rate:
            if rng.random() < 0.3:
                c["ifail"] = rng.randint(0, N)
            else:
                c["tfail"] = [rng.randint(0, N - 1)]
                c["exc"] = rng.choice(["TaskFail", "TaskFail", "SystemExit", "KeyboardInterrupt", "BaseFail", "UnpicklableExc", "UnpicklableRet"]
                                      + (["Finicky"] * 2 if backend in ("threading", "sequential") else []))
        if backend == "multiprocessing" and rng.random() < 0.6:
            c["init"] = rng.randint(1, 9)       # a backend option (pool initializer) that every call must see
            c["n_jobs"] = c["n_jobs"] if c["n_jobs"] > 0 else 2      # (a real pool: one worker means no pool at all)
            c["with_block"] = True
        if backend == "multiprocessing":
            c["return_as"] = "list"       # MultiprocessingBackend does not support generators (documented ValueError)
        if c["return_as"] != "list" and not c["tfail"] and c["ifail"] is None and rng.random() < 0.35:
            c["abandon"] = [rng.choice(["close", "drop"]), rng.choice([0, 0, 1, 2, N])]
        cases.append(c)
    return cases


def judge_real(c, r):
    bad = []
    if "harness_error" in r:
        return [("ALL", "harness error " + r["harness_error"])]
    if r.get("hang"):
        bad.append(("C04", "real backend %s: the Parallel call did not terminate (watchdog 60 s, confirmed with 150 s); "
                           "calls finished before: %d; failure injected: tasks %s (%s), input %s" % (
                               c["backend"], len(r["calls"]), c["tfail"], c.get("exc"), c["ifail"])))
    if c.get("stats_leak") and len(r.get("calls", [])) == 2:
        ahead = r.get("ahead", {}).get("2", 0)
        bound = (pre_amount(c["pre_dispatch"], c["n_jobs"]) + c["n_jobs"]) * 2 + 2
        if ahead > bound:
            bad.append(("C09", "real backend %s%s, batch_size='auto': after a call of 3000 very short tasks that failed, a call of 40 tasks "
                               "of 0.25 s on the same object was %d items ahead of its completed tasks (at most %d expected with "
                               "pre_dispatch=%s, n_jobs=%d and batches of one or two slow tasks): the batch size of the failed call "
                               "leaked into it" % (c["backend"], " inside a with block" if c.get("with_block") else "", ahead, bound,
                                                   c["pre_dispatch"], c["n_jobs"])))
    if c.get("spawn") and r.get("orphans"):
        bad.append(("C04", "real backend %s%s: %d of the %d processes started by the tasks of the failed call were still running "
                           "3 s after the call had raised: the abort did not kill the workers' process trees" % (
                               c["backend"], " inside a with block" if c.get("with_block") else "", r["orphans"], r.get("spawned", 0))))
    for k, call in enumerate(r["calls"]):
        cn = k + 1
        tf = c["tfail"] if k == 0 else []
        jf = c["ifail"] if k == 0 else None
        execd = r["execs"].get(str(cn), [])
        if len(execd) != len(set(execd)):
            bad.append(("C01", "real backend %s: a task ran twice: %s" % (c["backend"], sorted(execd))))
        if call.get("abandoned"):
            if c.get("slow") and (call.get("close_s") or 0) > 5.0:
                bad.append(("C16", "real backend %s%s: closing/dropping the generator took %.1f s: it waited for the running tasks "
                                   "(%.0f s each) instead of stopping them" % (
                                       c["backend"], " inside a with block" if c.get("with_block") else "", call["close_s"], c["slow"])))
            idx = [v[1] for v in call["values"]]
            okp = (idx == list(range(len(idx)))) if c["return_as"] == "generator" else (len(set(idx)) == len(idx) and all(0 <= i < c["N"] for i in idx))
            if not okp or any(v[0] != cn for v in call["values"]):
                bad.append(("C16", "real backend %s: the abandoned generator had delivered %s" % (c["backend"], call["values"])))
            continue
        if call["raised"] is None:
            vals = call["values"]
            unp_ret = bool(tf) and c.get("exc") == "UnpicklableRet"
            if c.get("init") is not None and any(len(v) > 2 and v[2] != c["init"] and v[2] != "<lock>" for v in vals):
                bad.append(("C04", "real backend %s: call %d ran in workers that lost the backend option given to Parallel "
                                   "(initializer flag %s instead of %s)" % (c["backend"], cn, sorted(set(map(str, (v[2] for v in vals)))), c["init"])))
            if any(v[0] != cn for v in vals):
                bad.append(("C04", "real backend %s: call %d returned values of another call" % (c["backend"], cn)))
            if c.get("plugins"):
                wrong = [v for v in vals if len(v) > 2 and v[2] != (1 + v[1] % 2) * 1000 + 10 * cn]
                if wrong:
                    bad.append(("C01", "real backend %s, batch_size=%s: tasks are two by-value functions of one module name with "
                                       "their own globals (constant K, mutable cell set to 10*call number): call %d returned %s for "
                                       "task %d, the function itself computes %d" % (
                                           c["backend"], c["batch_size"], cn, wrong[0][2], wrong[0][1],
                                           (1 + wrong[0][1] % 2) * 1000 + 10 * cn)))
            idx = [v[1] for v in vals]
            exp = list(range(c["N"]))
            if (tf and not unp_ret) or jf is not None:
                bad.append(("C04", "real backend %s: a task/input failure was swallowed, call returned %d values" % (c["backend"], len(vals))))
            elif (sorted(idx) if c["return_as"] == "generator_unordered" else idx) != exp:
                bad.append(("C01" if c["return_as"] != "generator_unordered" else "C16",
                            "real backend %s: results %s instead of 0..%d" % (c["backend"], idx, c["N"] - 1)))
            elif sorted(execd) != exp:
                bad.append(("C01", "real backend %s: executed %s" % (c["backend"], sorted(execd))))
        else:
            if c.get("fastfail") and k == 0 and tf:
                pulled = r.get("pulls", {}).get("1", 0)
                bound = min(tf) + 1 + (pre_amount(c["pre_dispatch"], c["n_jobs"]) or c["N"]) + 3 * c["n_jobs"]
                if pulled > bound:
                    bad.append(("C09", "real backend %s: task %d failed at once (%s) while the other tasks take 50 ms each, yet %d of %d "
                                       "input items were taken (pre_dispatch=%s, n_jobs=%d, batch_size=1: at most %d expected)" % (
                                           c["backend"], min(tf), c.get("exc"), pulled, c["N"], c["pre_dispatch"], c["n_jobs"], bound)))
            if c.get("slow") and k == 0 and call.get("workers_alive"):
                bad.append(("C04", "real backend loky%s: when the call raised, %d of the %d worker processes that were running its "
                                   "tasks (8 s each) were still alive: the abort had not stopped them" % (
                                       " inside a with block" if c.get("with_block") else "", call["workers_alive"], call.get("workers_seen", 0))))
            if c.get("slow") and k == 0 and (call.get("latency") or 0) > 5.0:
                bad.append(("C04", "real backend %s%s: the call raised only %.1f s after its task failed: it waited for the other "
                                   "dispatched tasks (%.0f s each) instead of stopping them" % (
                                       c["backend"], " inside a with block" if c.get("with_block") else "", call["latency"], c["slow"])))
            name, args = call["raised"]
            if tf and jf is None and c.get("exc") == "UnpicklableRet":
                # the value cannot travel back from a worker process: any error will do there, none in threads
                if c["backend"] in ("threading", "sequential"):
                    bad.append(("C04", "real backend %s: a task returned an unpicklable value, call raised %s%s" % (c["backend"], name, args)))
            elif tf and jf is None and c.get("exc") == "FalsyFail" and c["backend"] == "loky" and name == "TypeError" \
                    and "NoneType" in str(args):
                bad.append(("C04", "real backend loky: the task raised FalsyFail('task failed', %s), an exception whose truth value is "
                                   "False; the call raised %s%s" % (tf, name, args),
                            "c04:loky:task-exception-with-false-truth-value:TypeError-NoneType-instead"))
            elif tf and jf is None and c.get("exc") == "Finicky":
                if name != "Finicky" or args[:1] not in [["%d: task failed" % i] for i in tf]:
                    bad.append(("C04", "real backend %s: the task raised Finicky(%s, 'task failed') (a user exception whose constructor "
                                       "does not take its .args back), the call raised %s%s" % (c["backend"], tf, name, args)))
            elif tf and jf is None and c.get("exc") == "UnpicklableArg":
                pass        # (process backends only) the task could not be handed over: any error will do
            elif tf and jf is None and c.get("exc") == "UnpicklableExc" and (c["backend"] not in ("threading", "sequential") or name != "TaskFail"):
                if c["backend"] in ("threading", "sequential"):
                    bad.append(("C04", "real backend %s: expected TaskFail, got %s%s" % (c["backend"], name, args)))
            elif tf and jf is None:
                want = "TaskFail" if c.get("exc") == "UnpicklableExc" else c.get("exc", "TaskFail")
                if name != want or args[:1] != ["task failed"] or args[1] not in tf:
                    bad.append(("C04", "real backend %s: expected %s('task failed', %s), got %s%s" % (c["backend"], want, tf, name, args)))
            elif jf is not None and not tf:
                if name != "KeyError" or args[:1] != ["input failed"]:
                    bad.append(("C04", "real backend %s: expected KeyError('input failed', ..), got %s%s" % (c["backend"], name, args)))
            else:
                for tag in (("C16",) if c.get("abandon") else ("C04", "C01") if c["return_as"] != "generator_unordered" else ("C04", "C16")):
                    bad.append((tag, "real backend %s: call %d raised %s%s although nothing failed%s" % (
                        c["backend"], cn, name, args, " (after the generator of call 1 was abandoned: %s)" % c["abandon"] if c.get("abandon") else "")))
    return bad


def fixed_real_cases():
    """always-run shapes: failures that are not Exceptions, and backend options across a failed call in a with block"""
    base = {"batch_size": "auto", "pre_dispatch": "2*n_jobs", "return_as": "list", "N": 8, "tfail": [3], "ifail": None,
            "reuse": 2, "seed": 7, "with_block": False, "verbose": 0, "exc": "TaskFail", "init": None}
    out = []
    for backend, exc in (("threading", "SystemExit"), ("threading", "BaseFail"), ("multiprocessing", "KeyboardInterrupt"),
                         ("multiprocessing", "SystemExit"), ("loky", "BaseFail"), ("sequential", "SystemExit")):
        out.append(dict(base, backend=backend, n_jobs=1 if backend == "sequential" else 2, exc=exc))
    out.append(dict(base, backend="multiprocessing", n_jobs=2, init=5, with_block=True))
    out.append(dict(base, backend="multiprocessing", n_jobs=3, init=6, with_block=True, ifail=4, tfail=[], return_as="list"))
    out.append(dict(base, backend="threading", n_jobs=2, with_block=True, return_as="generator", exc="KeyboardInterrupt"))
    # a task fails while other tasks of the call are still running (8 s): the call must raise without waiting for them
    for backend, managed in (("loky", True), ("loky", False), ("multiprocessing", True), ("threading", True)):
        out.append(dict(base, backend=backend, n_jobs=3, N=6, tfail=[0], with_block=managed, slow=8.0, batch_size=1))
    # outcomes that cannot be pickled back from a worker process: the call must still end (with some error) and heal
    for backend in ("multiprocessing", "loky", "threading"):
        for exc in ("UnpicklableExc", "UnpicklableRet"):
            out.append(dict(base, backend=backend, n_jobs=2, exc=exc, with_block=(exc == "UnpicklableRet")))
    for backend, nj in (("threading", 2), ("threading", 3), ("sequential", 1)):
        out.append(dict(base, backend=backend, n_jobs=nj, exc="Finicky"))
    # an exception object whose truth value is False (known finding F49 on loky)
    for backend, nj in (("loky", 2), ("threading", 2), ("multiprocessing", 2), ("sequential", 1)):
        out.append(dict(base, backend=backend, n_jobs=nj, exc="FalsyFail"))
    # functions shipped BY VALUE: same module name, different global namespaces, several per batch, re-used wrappers
    for backend in ("loky", "multiprocessing", "threading"):
        for bsz in (4, 1):
            out.append(dict(base, backend=backend, n_jobs=2, N=12, tfail=[], batch_size=bsz, plugins=True, reuse=3))
            if backend != "multiprocessing":
                out.append(dict(base, backend=backend, n_jobs=2, N=12, tfail=[], batch_size=bsz, plugins="raw", reuse=2))
    # the tasks of a failing loky call have started processes of their own: the abort kills the workers' process trees
    for managed in (False, True):
        out.append(dict(base, backend="loky", n_jobs=3, N=3, tfail=[0], with_block=managed, slow=8.0, batch_size=1, spawn=True))
    # auto-batching statistics belong to ONE call: after a call of very short tasks (big batches) that failed late, a call of
    # slow tasks on the same object must not run ahead of its completed tasks by more than pre_dispatch + n_jobs small batches
    # (outside a with block only: inside one the backend, and with it its statistics, deliberately lives on between calls)
    out.append(dict(base, backend="loky", n_jobs=2, N=3000, N2=40, tfail=[2990], batch_size="auto", pre_dispatch="2*n_jobs",
                    with_block=False, stats_leak=True, reuse=2))
    # a task fails at once while the others take their time: the input must not be consumed much further (C09), whatever
    # the way the failure reaches the caller (raised in the worker, reported by the pool's error callback, refused at
    # hand-over)
    for backend, excs in (("multiprocessing", ("TaskFail", "UnpicklableArg", "UnpicklableRet", "UnpicklableExc")),
                          ("loky", ("TaskFail", "UnpicklableExc")), ("threading", ("TaskFail",))):
        for exc in excs:
            out.append(dict(base, backend=backend, n_jobs=2, N=60, tfail=[3], exc=exc, fastfail=True, batch_size=1,
                            pre_dispatch="2*n_jobs", reuse=1))
    # sized inputs (the number of tasks is known up front), the empty one included, with progress messages
    ncpu = os.cpu_count() or 1
    for backend, nj in (("threading", 2), ("loky", 2), ("sequential", 1)):
        for sized in ("under", "over"):
            out.append(dict(base, backend=backend, n_jobs=nj, N=10, tfail=[], sized=sized, verbose=0,
                            pre_dispatch="all" if backend == "loky" else "2*n_jobs"))
    for backend, nj in (("sequential", 1), ("threading", 1), ("threading", 2), ("loky", 2), ("threading", -ncpu - 1), ("multiprocessing", -ncpu - 3)):
        for N in (0, 1, 10):
            for verbose in (1, 60):
                out.append(dict(base, backend=backend, n_jobs=nj, N=N, tfail=[], sized=True, verbose=verbose,
                                return_as="list" if backend == "multiprocessing" or verbose == 1 else "generator"))
    # the generator is closed / dropped while tasks of 8 s are running: it must come back without waiting for them
    for backend, managed, how in (("loky", True, "close"), ("loky", False, "drop"), ("threading", True, "close")):
        out.append(dict(base, backend=backend, n_jobs=3, N=6, tfail=[], return_as="generator", abandon=[how, 0],
                        with_block=managed, slow=8.0, batch_size=1))
    for backend, nj in (("sequential", 1), ("threading", 1), ("threading", 2), ("loky", 2)):
        for how, npull in (("close", 0), ("drop", 0), ("close", 2)):
            out.append(dict(base, backend=backend, n_jobs=nj, tfail=[], return_as="generator", abandon=[how, npull]))
    return out


def real_sampling(ctx, quick, prop, fail_rate):
    cases = real_cases(ctx.rng, (24 if quick else 200) if prop != "C09" else (0 if quick else 40), fail_rate)
    cases = [c for c in fixed_real_cases() if (fail_rate >= 0.5 or c.get("abandon") or c.get("sized") or prop == "C01")
             and (prop == "C01" or not c.get("plugins"))
             and (prop != "C09" or c.get("fastfail") or c.get("stats_leak"))
             and (prop == "C09" or not c.get("stats_leak"))] + cases
    chunks = [cases[i::8] for i in range(8)]
    from concurrent.futures import ThreadPoolExecutor

    def work(ch):
        """runs the cases of a chunk; a case that hangs ends its child process, the rest is run in a new one; a hang is
        confirmed by running the case once more alone with a longer watchdog before it counts"""
        res = []
        todo = list(ch)
        guard = 0
        while todo and guard < len(ch) + 3:
            guard += 1
            try:
                rc, out, err = common.run_impl("m1_real.py", input_text="\n".join(json.dumps(c) for c in todo) + "\n", timeout=900)
                got = [json.loads(l) for l in out.splitlines() if l.startswith("{")]
            except subprocess.TimeoutExpired:
                got = []
            if not got:
                got = [{"harness_error": "inconclusive (timeout or crash of the sampling process)", "inconclusive": True}]
            last = got[-1]
            slow_fail = any((cl.get("latency") or 0) > 5.0 or (cl.get("close_s") or 0) > 5.0 for cl in last.get("calls", []))
            if slow_fail and not last.get("hang"):
                # the failure surfaced late: confirm on a second run before it counts
                try:
                    rc, out, err = common.run_impl("m1_real.py", input_text=json.dumps(todo[len(got) - 1]) + "\n", timeout=400)
                    again = [json.loads(l) for l in out.splitlines() if l.startswith("{")]
                except subprocess.TimeoutExpired:
                    again = []
                if again and not any((cl.get("latency") or 0) > 5.0 or (cl.get("close_s") or 0) > 5.0 for cl in again[-1].get("calls", [])):
                    got[-1] = again[-1]
            if got[-1].get("hang"):
                try:
                    rc, out, err = common.run_impl("m1_real.py", input_text=json.dumps(dict(todo[len(got) - 1], watchdog=150)) + "\n", timeout=400)
                    again = [json.loads(l) for l in out.splitlines() if l.startswith("{")]
                except subprocess.TimeoutExpired:
                    again = []
                if again and not again[-1].get("hang"):
                    got[-1] = again[-1]          # slow machine, not a hang
            res.extend(got)
            todo = todo[len(got):]
        while len(res) < len(ch):
            res.append({"harness_error": "inconclusive (timeout or crash of the sampling process)", "inconclusive": True})
        return res
    with ThreadPoolExecutor(8) as ex:
        outs = list(ex.map(work, chunks))
    n_bad = 0
    inconclusive = 0
    dist = {}
    for ch, rs in zip(chunks, outs):
        for c, r in zip(ch, rs):
            dist[c["backend"]] = dist.get(c["backend"], 0) + 1
            if r.get("inconclusive"):
                inconclusive += 1
                continue
            for item in judge_real(c, r):
                tag, what = item[0], item[1]
                key = item[2] if len(item) > 2 else None
                if tag in (prop, "ALL") and (n_bad < 2 or key):
                    n_bad += 0 if key else 1
                    ctx.violation(what, {"kind": "real-backend", "case": c, "result": r}, True, finding_key=key)
    return {"real_backend_runs": len(cases), "real_backend_distribution": dist, "real_backend_inconclusive": inconclusive}


def lock_probe(ctx, quick, prop):
    rng = ctx.rng
    cases = []
    for i in range(10 if quick else 60):
        nj = rng.choice([2, 3, 4])
        N = rng.randint(4, 24)
        cases.append({"n_jobs": nj, "N": N, "pre": rng.choice(["all", 2, 3, "2*n_jobs", "n_jobs"]),
                      "block_at": rng.randint(1, N - 1), "mode": rng.choice(["ordered", "unordered"])})
    rc, out, err = common.run_impl("m1_lockprobe.py", input_text="\n".join(json.dumps(c) for c in cases) + "\n", timeout=900)
    res = [json.loads(l) for l in out.splitlines() if l.startswith("{")]
    effective = 0
    nv = 0
    for r in res:
        if "harness_error" in r:
            ctx.violation("lock probe failed to run: " + r["harness_error"], {"kind": "lock-probe", "case": r["case"]}, False)
            continue
        c = r["case"]
        exp = list(range(c["N"]))
        for x in r["results"]:
            what = None
            vals = x.get("values")
            ok_vals = vals is not None and ((vals == exp) if c["mode"] == "ordered" else (sorted(vals) == exp))
            if x.get("alive"):
                what = "call did not return"
            elif not ok_vals:
                what = "results %s (raised %s) instead of 0..%d" % (vals, x.get("raised"), c["N"] - 1)
            elif x.get("reentered"):
                what = "input iterator entered by two threads at once"
            elif not x.get("registered_before_submit"):
                what = "a batch was handed to submit() before its tracker was registered"
            elif x.get("progress"):
                effective += 1
                if any(x["progress"].values()):
                    what = "a completion callback made progress while the caller held the dispatch lock: %s" % x["progress"]
            if what and nv < 2:
                tag = "C09" if ("two threads" in what) else "C01"
                if tag == prop or prop == "C09" or "progress" in what:
                    nv += 1
                    ctx.violation("probe %s: %s" % (x["probe"], what), {"kind": "lock-probe", "case": c, "result": x}, True)
    return {"lock_probes": len(res) * 3, "lock_probes_with_contention_observed": effective}


def f6_replay(ctx):
    """known finding F6: pre_dispatch evaluating to 0 returns [] for a non-empty input"""
    code = ("import sys; from joblib import Parallel, delayed;"
            "r=[Parallel(n_jobs=2, backend='threading', pre_dispatch=p)(delayed(abs)(i) for i in range(5)) for p in (0, '0.4*n_jobs')];"
            "print('F6', r)")
    p = subprocess.run([common.PY, "-c", code], stdout=subprocess.PIPE, stderr=subprocess.PIPE, text=True,
                       env=common.impl_env(), timeout=120)
    line = [l for l in p.stdout.splitlines() if l.startswith("F6")]
    if not line:
        ctx.note("F6 replay did not run: " + p.stderr[-300:])
        return
    if "[[], []]" in line[0]:
        ctx.violation("pre_dispatch evaluating to 0 (0, '0.4*n_jobs' with n_jobs=2): Parallel returns [] for 5 tasks",
                      {"kind": "known-replay", "code": code}, True, finding_key="c01:pre_dispatch-evaluates-to-0:returns-empty")
    elif "[[0, 1, 2, 3, 4], [0, 1, 2, 3, 4]]" not in line[0]:
        ctx.violation("pre_dispatch evaluating to 0 behaves differently from the model: " + line[0],
                      {"kind": "known-replay", "code": code, "output": line[0]}, True)
    else:
        ctx.note("F6 no longer reproduces: the refutation C01_predispatch_zero_refuted is stale")


def auto_batch(ctx, quick):
    """the batch-size oracle of batch_size='auto' (AutoBatchingMixin) against Model/AutoBatch.v; hypothesis b >= 1"""
    rng = ctx.rng
    cases = []
    for i in range(300 if quick else 3000):
        steps = []
        for _ in range(rng.randint(1, 25)):
            dur = rng.choice([0.0001, 0.001, 0.01, 0.05, 0.19, 0.2, 0.21, 0.5, 1.0, 1.9, 2.0, 2.1, 3.0, 7.0, 30.0,
                              rng.random() * 4])
            steps.append([rng.choice([0, 0, 0, 0, 1, -1]), dur])
        cases.append({"steps": steps})
    rc, out, err = common.run_impl("m1_autobatch.py", input_text="\n".join(json.dumps(c) for c in cases) + "\n", timeout=600)
    res = [json.loads(l) for l in out.splitlines() if l.startswith("{")]
    if len(res) != len(cases):
        raise RuntimeError("m1_autobatch: %d results for %d cases: %s" % (len(res), len(cases), err[-1000:]))
    exprs = []
    nv = 0
    branches = {}
    for c, r in zip(cases, res):
        if "harness_error" in r:
            ctx.violation("auto-batching raised: " + r["harness_error"], {"kind": "auto-batch", "case": c}, True)
            continue
        bad = [b for b in r["sizes"] if not (isinstance(b, int) and b >= 1)]
        if bad and nv < 2:
            nv += 1
            ctx.violation("batch_size='auto' produced the batch size %s (< 1): dispatch_one_batch slices nothing and the "
                          "rest of the input is dropped" % bad[0], {"kind": "auto-batch", "case": c, "sizes": r["sizes"]}, True)
        for old, sp, ideal in r["inputs"]:
            branches[sp] = branches.get(sp, 0) + 1
        steps = "[" + "; ".join("(%s, %s)" % (sp, common.zlit(ideal)) for old, sp, ideal in r["inputs"]) + "]"
        exprs.append("run_sizes 1 %s" % steps)
    vals = ctx.coq_eval_lines("From Coq Require Import ZArith List. Require Import JV.Model.AutoBatch. Import ListNotations. Open Scope Z_scope.",
                              "", exprs, name="autobatch", shard=150)
    nd = 0
    it = iter(vals)
    for c, r in zip(cases, res):
        if "harness_error" in r:
            continue
        v = next(it)
        model = [int(x) for x in re.findall(r"-?\d+", v.replace("%Z", ""))]
        if model != r["sizes"]:
            nd += 1
            if nd == 1 and not ctx.violations:
                ctx.violation("model of compute_batch_size and AutoBatchingMixin disagree: model %s, implementation %s" % (model, r["sizes"]),
                              {"kind": "correspondence", "correspondence": "Model/AutoBatch.v vs AutoBatchingMixin", "case": c,
                               "inputs": r["inputs"]}, found_input=False)
    return {"auto_batch_sequences": len(cases), "auto_batch_branches": branches, "auto_batch_disagreements": nd}


STALL_SCENARIOS = [
    {"n_jobs": 2, "pre": "n_jobs", "return_as": "generator", "N": 8, "tfail": None, "ifail": None, "reuse": True},
    {"n_jobs": 3, "pre": 1, "return_as": "list", "N": 7, "tfail": None, "ifail": None, "reuse": True},
    {"n_jobs": 2, "pre": "all", "return_as": "generator_unordered", "N": 6, "tfail": None, "ifail": None, "reuse": True},
    {"n_jobs": 2, "pre": "n_jobs", "return_as": "generator_unordered", "N": 8, "tfail": 3, "ifail": None, "reuse": True},
    {"n_jobs": 2, "pre": "2*n_jobs", "return_as": "generator", "N": 9, "tfail": None, "ifail": 5, "reuse": True},
    {"n_jobs": 3, "pre": "n_jobs", "return_as": "list", "N": 9, "tfail": 4, "ifail": None, "reuse": True},
]


def stall_probe(ctx, quick, prop, only=None):
    """below layer A (a test, never a proof): one thread role is stalled at one source line of the dispatch /
    completion / retrieval code while the real threading backend runs; the outcome must not change"""
    rc, out, err = common.run_impl("m1_stall.py", args=["--points"], timeout=120)
    pts = json.loads([l for l in out.splitlines() if l.startswith("[")][-1])
    rng = ctx.rng
    cases = []
    for at in pts:
        for role in ("cb", "main"):
            critical = at[0].split(".")[-1] in ("_register_outcome", "_raise_error_fast", "_retrieve", "_dispatch_new",
                                                "_return_or_raise", "get_result") or at[0] == "BatchCompletionCallBack.__call__"
            scs = STALL_SCENARIOS if (critical or not quick) else [rng.choice(STALL_SCENARIOS)]
            for sc in scs:
                cases.append(dict(sc, at=at, role=role, hits=list(range(1, 11)), delay=0.025, watchdog=40))
            # a backend whose completion callbacks run concurrently (third-party style, on concurrent.futures): the
            # dispatch path of the callbacks is where two of them can meet
            if role == "cb" and at[0].split(".")[-1] in ("_dispatch_new", "dispatch_next", "dispatch_one_batch", "_dispatch",
                                                          "_register_outcome", "_retrieve_result", "__call__"):
                for sc in (STALL_SCENARIOS[0], STALL_SCENARIOS[1], STALL_SCENARIOS[3]) if (critical or not quick) else (STALL_SCENARIOS[1],):
                    # every visit stalled (order kept) and every other visit stalled (later callbacks overtake)
                    for hits in (list(range(1, 11)), [1, 3, 5, 7, 9, 11]):
                        cases.append(dict(sc, backend="cf", n_jobs=3, pre=rng.choice([2, 3, "2*n_jobs"]), N=max(sc["N"], 10),
                                          at=at, role=role, hits=hits, delay=0.03, watchdog=40))
    # the backend refuses a batch at dispatch in the caller's thread (k-th submit of the initial dispatch raises):
    # the call must end with an error and the object must heal -- no stall involved
    for ra in ("list", "generator", "generator_unordered"):
        for k in (1, 2, 3):
            cases.append({"backend": "cf", "n_jobs": 2, "pre": rng.choice([3, "2*n_jobs", "all"]), "return_as": ra, "N": 7,
                          "tfail": None, "ifail": None, "reuse": True, "submit_fail_at": k, "at": None, "role": "cb",
                          "delay": 0, "watchdog": 40})
    # the call is aborted while a completion callback is inside the input iterator, which then raises (fix F48)
    for ra in ("generator", "generator_unordered"):
        for how in ("close", "taskfail", "late_item"):
            cases.append({"kind": "late_iter", "how": how, "backend": "cf", "n_jobs": 2, "pre": 2, "return_as": ra, "N": 4,
                          "tfail": None, "ifail": None, "reuse": False, "at": None, "role": "cb", "delay": 0, "watchdog": 30})
    # a `with Parallel(...)` block is left while its output generator is only partly consumed and tasks are still running on
    # a backend that cannot recall them: their late completions must not take further items from the input
    for ra in ("generator", "generator_unordered"):
        for pre in (2, 4, "2*n_jobs"):
            cases.append({"kind": "exit_block", "backend": "cf", "n_jobs": 2, "pre": pre, "return_as": ra, "N": 4,
                          "tfail": None, "ifail": None, "reuse": False, "at": None, "role": "cb", "delay": 0, "watchdog": 30})
    # a backend of the documented base-class kind whose completion callback fires INSIDE submit(): results, failures and
    # reuse must be those of any other backend
    for pre in ("all", "2*n_jobs", 1, 5):
        for bsz in ("auto", 1, 3):
            for tf in (None, 4):
                cases.append({"backend": "immediate", "n_jobs": 2, "pre": pre, "return_as": "list", "N": 12, "batch_size": bsz,
                              "tfail": tf, "ifail": None, "reuse": True, "at": None, "role": "cb", "delay": 0, "watchdog": 40})
    if only:
        cases = [c for c in cases if c.get("kind") in only]
    nproc = max(1, min(common.NCPU - 2, 12))
    chunks = [cases[i::nproc] for i in range(nproc)]
    script = os.path.join(common.ROOT, "harness", "impl", "m1_stall.py")
    env = common.impl_env()

    def work(ch):
        res = []
        todo = list(ch)
        while todo:
            p = subprocess.run([common.PY, script], input="\n".join(json.dumps(c) for c in todo) + "\n",
                               stdout=subprocess.PIPE, stderr=subprocess.PIPE, text=True, env=env, timeout=3600)
            got = [json.loads(l) for l in p.stdout.splitlines() if l.startswith("{")]
            if not got:
                got = [{"harness_error": "no output: " + p.stderr[-500:]}]
            res.extend(got)
            todo = todo[len(got):]       # a hang ends the child after the case that hung
        return res
    with ThreadPoolExecutor(nproc) as ex:
        outs = list(ex.map(work, chunks))
    visited = stalled = 0
    nv = 0
    for ch, rs in zip(chunks, outs):
        for c, r in zip(ch, rs):
            if "harness_error" in r:
                ctx.note("stall probe case failed to run: " + r["harness_error"][:200])
                continue
            visited += 1 if r.get("visits") else 0
            stalled += r.get("stalls", 0)
            what = None
            tags = {"C04"}
            if r.get("hang"):
                what = "the call hangs"
            if c.get("kind") == "exit_block" and r.get("taken_late") is not None and r["taken_late"] != r.get("taken_at_exit"):
                what = "%d items had been taken from the input when the with block was left (1 result consumed, the other tasks " \
                       "still running); the completions that arrived afterwards took %d more" % (
                           r["taken_at_exit"], r["taken_late"] - r["taken_at_exit"])
                tags |= {"C16", "C09"}
            if r.get("ran_after_close"):
                what = "a task taken from the input after the generator had been closed was dispatched and executed"
                tags |= {"C16", "C09"}
            for k, call in enumerate(r.get("calls", [])):
                tf = c["tfail"] if k == 0 else None
                jf = c["ifail"] if k == 0 else None
                exp = list(range(c["N"]))
                if c.get("submit_fail_at") is not None and k == 0 and r.get("refused"):
                    if call["raised"] is None:
                        what = what or "the backend refused batch %d at dispatch (submit raised in the caller's thread) but the call returned %s" % (
                            c["submit_fail_at"], call["values"])
                elif tf is None and jf is None:
                    vals = call["values"]
                    okv = vals is not None and (sorted(vals) if c["return_as"] == "generator_unordered" else vals) == exp
                    if not okv:
                        what = what or "call %d gave %s / raised %s instead of 0..%d" % (k + 1, vals, call["raised"], c["N"] - 1)
                        tags |= {"C01", "C16"} if c["return_as"] != "list" else {"C01"}
                elif tf is not None:
                    if call["raised"] != ["TaskFail", [tf]]:
                        what = what or "call %d: task %d failed but the call gave %s / raised %s" % (k + 1, tf, call["values"], call["raised"])
                else:
                    if not call["raised"] or call["raised"][0] != "IterFail":
                        what = what or "call %d: the input failed but the call gave %s / raised %s" % (k + 1, call["values"], call["raised"])
            if what and prop in tags and nv < 2:
                nv += 1
                if c.get("kind") == "exit_block":
                    where = "with block left while the output generator (return_as=%s, pre_dispatch=%s) was partly consumed" % (
                        c["return_as"], c["pre"])
                    what = what.replace("call 1", "the NEXT call (a fresh Parallel object on the same kind of backend)")
                elif c.get("kind") == "late_iter":
                    where = "call aborted (%s) while a completion callback was inside the input iterator, which then raised; return_as=%s" % (
                        c["how"], c["return_as"])
                    what = what.replace("call 1", "the NEXT call on the same object")
                elif c.get("backend") == "immediate":
                    where = "callbacks fired inside submit(), pre_dispatch=%s batch_size=%s" % (c["pre"], c.get("batch_size"))
                elif c.get("at"):
                    where = "%s thread stalled %d ms before %s line %d" % (
                        "callback/worker" if c["role"] == "cb" else "caller", int(c["delay"] * 1000), c["at"][0], c["at"][1])
                else:
                    where = "submit() raising at batch %s in the caller's thread, return_as=%s pre_dispatch=%s" % (
                        c.get("submit_fail_at"), c["return_as"], c["pre"])
                ctx.violation("%s backend, %s: %s" % (
                    {"cf": "concurrent-callback (concurrent.futures)", "immediate": "immediate-result (base-class style)"}.get(
                        c.get("backend"), "threading"), where, what),
                    {"kind": "stall-probe", "case": c, "result": r}, True)
    return {"stall_points": len(pts), "stall_cases": len(cases), "stall_cases_that_reached_their_line": visited,
            "stalls_injected": stalled}


def sync_backend(ctx, quick, prop, profile, scale=1.0):
    """Model/ParallelSync.v against joblib.Parallel with a backend that has supports_retrieve_callback = False"""
    import m1s_common
    return m1s_common.check(ctx, prop, profile, quick, scale)


def pre_dispatch_stage(ctx, quick, prop):
    """joblib._utils.eval_expr (string values of pre_dispatch) against Python's own evaluation of the same arithmetic
    expression (independent reference) and, for C09, against Model/PreDispatch.v over the regenerated operator table"""
    import ast as pyast
    from fractions import Fraction
    rng = ctx.rng
    leaves = ["n_jobs", "1", "2", "3", "4", "8", "1.5", "0.5", "2.5", "0"]
    ops = ["+", "-", "*", "/", "//", "%", "**"]

    def leaf():
        x = rng.choice(leaves)
        return "-" + x if rng.random() < 0.12 else x

    def gen(depth):
        if depth == 0 or rng.random() < 0.25:
            return leaf()
        a, b = gen(depth - 1), gen(depth - 1)
        s = "%s%s%s" % (a, rng.choice(ops), b)
        return "(" + s + ")" if rng.random() < 0.5 else s
    exprs = ["n_jobs", "2*n_jobs", "1.5*n_jobs", "3*n_jobs/2", "1/2*n_jobs", "n_jobs/4*8", "(n_jobs+1)/8*6", "2**n_jobs/2",
             "-(-n_jobs)", "n_jobs%2+2", "3*n_jobs//2", "n_jobs/0", "2.6*n_jobs", "0.29*100"]
    exprs += [gen(rng.choice([1, 2, 2, 3])) for _ in range(1500 if quick else 15000)]
    cases = [(e, n) for e in exprs for n in ((2, 5) if quick else (1, 2, 3, 5))]

    def magnitude_ok(text, limit=3000.0):
        """structural bound on the size of every intermediate value (log2 of its absolute value <= limit): towers of
        powers such as (8**8)**(8**8) would keep BOTH evaluators busy for minutes; they say nothing about pre_dispatch"""
        import math

        def lg(node):   # upper bound of log2(max(1, |value|)); None = not a number we can bound (division by zero ...)
            if isinstance(node, pyast.Constant):
                return math.log2(max(1.0, abs(float(node.value))))
            if isinstance(node, pyast.UnaryOp):
                return lg(node.operand)
            if isinstance(node, pyast.BinOp):
                a, b = lg(node.left), lg(node.right)
                if isinstance(node.op, (pyast.Add, pyast.Sub)):
                    r = max(a, b) + 1
                elif isinstance(node.op, pyast.Mult):
                    r = a + b
                elif isinstance(node.op, pyast.Pow):
                    # |x| ** |y| with |y| <= 2**b; a tiny base raised to a NEGATIVE power is large too: bound 1/x by 2**8
                    r = max(a, 8.0) * (2.0 ** min(b, 64.0))
                else:            # / // %: the result is not larger than the dividend times 2**8 (smallest divisor 1/256)
                    r = a + 8.0
                if r > limit:
                    raise OverflowError
                return r
            raise OverflowError
        try:
            lg(pyast.parse(text, mode="eval").body)
            return True
        except (OverflowError, ValueError, SyntaxError):
            return False
    cases = [(e, n) for e, n in cases if magnitude_ok(e.replace("n_jobs", str(n)))]
    strings = [e.replace("n_jobs", str(n)) for e, n in cases]
    rc, out, err = common.run_impl("c09_expr_impl.py", input_text=json.dumps(strings), timeout=600)
    try:
        res = json.loads(out.strip().splitlines()[-1])
    except Exception:  # noqa
        ctx.violation("pre_dispatch expression stage failed to run: " + err[-300:], {"kind": "pre-dispatch-expr"}, False)
        return {}
    nbad = 0
    agree = 0
    for s, (real, ref) in zip(strings, res):
        if real == ref or (real[0] == "e" and ref[0] == "e"):
            agree += 1
            continue
        if nbad < 2:
            nbad += 1
            ctx.violation("pre_dispatch=%r: joblib evaluates the expression to %s, Python evaluates it to %s (the number of "
                          "items taken up front is int() of that value)" % (s, real, ref),
                          {"kind": "pre-dispatch-expr", "expression": s, "real": real, "reference": ref}, True)
    cov = {"pre_dispatch_expressions": len(strings), "pre_dispatch_expressions_agreeing_with_python": agree}
    if prop != "C09":
        return cov
    # the model: exact rationals over the regenerated table; compared where the float computation is exact
    def to_coq(node):
        if isinstance(node, pyast.Constant):
            fr = Fraction(str(node.value))
            return "(EConst (%d # %d))" % (fr.numerator, fr.denominator)
        if isinstance(node, pyast.UnaryOp) and isinstance(node.op, pyast.USub):
            return "(ENeg %s)" % to_coq(node.operand)
        if isinstance(node, pyast.BinOp):
            o = {pyast.Add: "OAdd", pyast.Sub: "OSub", pyast.Mult: "OMul", pyast.Div: "ODiv", pyast.FloorDiv: "OFloorDiv",
                 pyast.Mod: "OMod", pyast.Pow: "OPow"}[type(node.op)]
            return "(EBin %s %s %s)" % (o, to_coq(node.left), to_coq(node.right))
        raise ValueError(node)
    sel = [i for i in range(len(strings)) if res[i][0][0] in ("i", "f", "e")]
    rng.shuffle(sel)
    sel = sorted(sel[:1200 if quick else 6000])
    terms = [to_coq(pyast.parse(strings[i], mode="eval").body) for i in sel]
    req = ("From Coq Require Import QArith ZArith List.\nRequire Import JV.Model.PreDispatch JV.Gen.T_operators.\n"
           "Import ListNotations.\nOpen Scope Q_scope.")
    vals = ctx.coq_eval_lines(req, "", ["show_eval src_operators src_neg %s" % t for t in terms], name="c09expr", shard=300)
    compared = skipped = dis = 0
    for i, v in zip(sel, vals):
        m = [int(x) for x in re.findall(r"-?\d+", v.replace("%Z", ""))]
        real = res[i][0]
        if real[0] == "e":
            if m[0] == 1 and real[1] == "ZeroDivisionError":
                dis += 1
                if dis <= 1:
                    ctx.violation("Model/PreDispatch.v gives a value for %r, joblib raises %s" % (strings[i], real[1]),
                                  {"kind": "correspondence", "correspondence": "Model/PreDispatch.v eval vs joblib._utils.eval_expr",
                                   "expression": strings[i]}, False)
            else:
                skipped += 1          # (overflow / complex results: outside the model)
            continue
        if m[0] == 0:
            skipped += 1              # the model is partial: non-integral exponents, 0 ** negative
            continue
        val = Fraction(int(real[1])) if real[0] == "i" else None
        if real[0] == "f":
            fl = float.fromhex(real[1])
            if fl != fl or fl in (float("inf"), float("-inf")):
                skipped += 1
                continue
            val = Fraction(fl)
        if val != Fraction(m[1], m[2]):
            skipped += 1              # the float computation was not exact: the rational model does not apply
            continue
        compared += 1
        if int(val) != m[3]:
            dis += 1
            if dis <= 1:
                ctx.violation("pre_dispatch=%r: the model truncates the value to %d, int() gives %d" % (strings[i], m[3], int(val)),
                              {"kind": "correspondence", "correspondence": "Model/PreDispatch.v pre_amount vs int(eval_expr)",
                               "expression": strings[i]}, False)
    cov.update({"pre_dispatch_model_compared": compared, "pre_dispatch_model_not_applicable": skipped,
                "pre_dispatch_model_disagreements": dis})
    return cov


def seq_path(ctx, quick, prop):
    """Model/ParallelSeq.v against joblib.Parallel when n_jobs resolves to 1 (the sequential fast path)"""
    import m1q_common
    return m1q_common.check(ctx, prop, quick)


def extra_c01(ctx, quick):
    f6_replay(ctx)
    cov = real_sampling(ctx, quick, "C01", 0.0)
    cov.update(seq_path(ctx, quick, "C01"))
    cov.update(pre_dispatch_stage(ctx, quick, "C01"))
    cov.update(lock_probe(ctx, quick, "C01"))
    cov.update(auto_batch(ctx, quick))
    cov.update(sync_backend(ctx, quick, "C01", "c01"))
    cov.update(stall_probe(ctx, quick, "C01"))
    return cov


def extra_c04(ctx, quick):
    cov = real_sampling(ctx, quick, "C04", 0.7)
    cov.update(seq_path(ctx, quick, "C04"))
    cov.update(sync_backend(ctx, quick, "C04", "c04"))
    cov.update(stall_probe(ctx, quick, "C04"))
    return cov


def extra_c09(ctx, quick):
    cov = lock_probe(ctx, quick, "C09")
    cov.update(pre_dispatch_stage(ctx, quick, "C09"))
    cov.update(real_sampling(ctx, quick, "C09", 0.7))
    cov.update(seq_path(ctx, quick, "C09"))
    cov.update(sync_backend(ctx, quick, "C09", "c04", 0.5))
    # of the probes below layer A only the ones about input consumption after an abort (a callback inside the input
    # iterator when the call is aborted; a with block left with a partly consumed generator)
    cov.update(stall_probe(ctx, quick, "C09", only=("late_iter", "exit_block")))
    return cov


def extra_c16(ctx, quick):
    cov = real_sampling(ctx, quick, "C16", 0.2)
    cov.update(seq_path(ctx, quick, "C16"))
    cov.update(sync_backend(ctx, quick, "C16", "c01", 0.5))
    cov.update(stall_probe(ctx, quick, "C16"))
    return cov


EXTRA = {"c01": extra_c01, "c04": extra_c04, "c09": extra_c09, "c16": extra_c16}
