"""C12 stage "codecheck": the slow path of MemorizedFunc._check_previous_func_code against the Coq decision
procedure [decide] / [after] (coq/Model/MemoryCodeCheck.v), on the exhaustive product of
  function kind (def / lambda / source-less / doctest-named) x padding x name-collision layout x
  stored func_code.py (absent; header: none / truncated / current line / other line / the twin's line;
  text: same / other / whitespace-variant / the twin's text / garbage).
Independent oracle: the method answers True only if the stored text EQUALS the current text; the planted entry
is wiped exactly when a func_code.py existed whose text differs; a second run answers True.
"""
import json
import os
import sys

sys.path.insert(0, os.path.dirname(os.path.dirname(os.path.abspath(__file__))))
import common  # noqa: E402

REQ = """From Coq Require Import ZArith List Bool Arith.
Require Import JV.Base.PyPrelude JV.Model.MemoryCodeCheck.
Import ListNotations."""
DEFS = """Definition acode (a : answer) : Z := match a with Same => 0 | FirstWrite => 1 | Changed => 2 end%Z.
Definition wcode (w : warning) : Z := match w with CannotDetect => 0 | PossibleCollision => 1 end%Z.
Definition show (stored : option (stored_file nat)) (c : current nat) :=
  (acode (fst (decide Nat.eqb stored c)), map wcode (snd (decide Nat.eqb stored c)),
   snd (after Nat.eqb stored c),
   match fst (after Nat.eqb stored c) with Some f => snd (extract_first_line f) | None => (-99)%Z end)."""


def cases():
    out = []
    for kind in ("def", "lambda", "sourceless", "doctest"):
        for pad in (0, 3):
            for twin in (False, True):
                if twin and kind in ("sourceless", "doctest"):
                    continue
                stored = [None]
                for h in (None, "trunc", "cur", "other", "twin", -1):
                    if h == "twin" and not twin:
                        continue
                    for b in ("same", "other", "ws", "twin", "garbage"):
                        if b == "twin" and not twin:
                            continue
                        stored.append({"hdr": h, "body": b})
                for st in stored:
                    out.append({"kind": kind, "pad": pad, "twin": twin, "stored": st})
    return out


def zlit(n):
    return "(%d)%%Z" % n


def model_expr(c, r):
    b = "true" if True else "false"
    if c["stored"] is None:
        stored = "None"
    else:
        h = c["stored"]["hdr"]
        if h is None:
            hdr = "None"
        elif h == "trunc":
            hdr = "(Some None)"
        else:
            hdr = "(Some (Some %s))" % zlit(r["stored_line"])
        # text identity: 1 = the current text, 2 = another text (any), decided by TEXT EQUALITY of what was planted
        body = {"same": 1, "other": 2, "ws": 3, "twin": 4, "garbage": 5}[c["stored"]["body"]]
        stored = "(Some {| hdr := %s; body := %d%%nat |})" % (hdr, body)
    # the old text still sits at the old line of the source file exactly in the name-collision layout
    disk_has_old = bool(c["twin"] and c["stored"] and c["stored"]["hdr"] == "twin" and c["stored"]["body"] == "twin")
    cur = ("{| cur_code := 1%%nat; cur_line := %s; has_source_file := %s; file_exists := %s; is_doctest := %s; "
           "is_lambda := %s; disk_has_old := %s |}" % (
               zlit(r["cur_line"]), *["true" if x else "false" for x in (
                   r["has_source_file"], r["file_exists"], r["is_doctest"], r["is_lambda"], disk_has_old)]))
    return "show %s %s" % (stored, cur)


def stage(ctx):
    cs = cases()
    rc, out, err = common.run_impl("c12_codecheck_impl.py", input_text="\n".join(json.dumps(c) for c in cs) + "\n",
                                   timeout=900)
    res = [json.loads(l) for l in out.splitlines() if l.strip()]
    if len(res) != len(cs):
        ctx.violation("codecheck driver produced %d results for %d cases: %s" % (len(res), len(cs), err[-500:]),
                      {"kind": "harness-error"}, found_input=False)
        return {"codecheck_cases": 0}
    oracle_bad, usable = [], []
    for c, r in zip(cs, res):
        if "harness_error" in r:
            oracle_bad.append(("harness error " + r["harness_error"][:300], c, r))
            continue
        usable.append((c, r))
        if r["answer"] and r["stored_equals_current"] is not True:
            oracle_bad.append(("_check_previous_func_code answered 'same code' although the stored text differs "
                               "from the current text (or there was none)", c, r))
        wiped = not r["entry_kept"]
        should_wipe = r["stored_equals_current"] is False
        if wiped != should_wipe:
            oracle_bad.append(("the function's cache directory was %s although %s" % (
                "wiped" if wiped else "kept",
                "no differing func_code.py existed" if wiped else "the stored text differs from the current one"),
                c, r))
        if not r["second"] or not r["after_is_current"]:
            oracle_bad.append(("after the check func_code.py does not hold the current text / a second check does "
                               "not answer 'same'", c, r))
    for what, c, r in oracle_bad[:3]:
        ctx.violation("codecheck: " + what, {"kind": "oracle-codecheck", "codecheck_case": c, "impl": r}, True)
    vals = ctx.coq_eval_lines(REQ, DEFS, [model_expr(c, r) for c, r in usable], name="c12_codecheck", shard=100)
    import re
    dis = []
    for (c, r), v in zip(usable, vals):
        nums = [int(x) for x in re.findall(r"-?\d+", v.replace("%Z", ""))]
        kept = "true" in v.split("]")[-1]
        ans = nums[0]
        # list of warnings sits between the brackets
        wl = [int(x) for x in re.findall(r"-?\d+", v[v.index("["):v.index("]")])] if "[" in v else []
        line = nums[-1]
        impl = (0 if r["answer"] else (2 if not r["entry_kept"] else 1),
                sorted({"cannot": 0, "possible": 1}.get(w, 9) for w in r["warnings"]), r["entry_kept"],
                r["after_line"] if r["after_line"] is not None else -99)
        model = (ans, sorted(wl), kept, line)
        if c["stored"] is not None and c["stored"]["body"] != "same" and r["answer"] is False and \
                r["stored_equals_current"] is False:
            pass
        if impl != model:
            dis.append({"case": c, "model": model, "impl": impl, "raw": r})
    if dis and not oracle_bad:
        ctx.violation("codecheck: the decision procedure [decide] and _check_previous_func_code disagree on %d cases "
                      "(first: model %s, impl %s)" % (len(dis), dis[0]["model"], dis[0]["impl"]),
                      {"kind": "correspondence-codecheck", "codecheck_case": dis[0]["case"], "model": dis[0]["model"],
                       "impl": dis[0]["impl"]}, found_input=False)
    answers = {}
    for c, r in usable:
        k = "same" if r["answer"] else ("changed" if not r["entry_kept"] else "first-write")
        answers[k] = answers.get(k, 0) + 1
    return {"codecheck_cases": len(cs), "codecheck_model_evaluations": len(vals), "codecheck_disagreements": len(dis),
            "codecheck_answers": answers,
            "codecheck_warnings": {"cannot": sum(1 for _, r in usable if "cannot" in r["warnings"]),
                                   "possible": sum(1 for _, r in usable if "possible" in r["warnings"])}}


def replay_case(c):
    rc, out, err = common.run_impl("c12_codecheck_impl.py", input_text=json.dumps(c) + "\n")
    r = json.loads(out.splitlines()[0])
    bad = (r.get("answer") and r.get("stored_equals_current") is not True) or \
          ((not r.get("entry_kept")) != (r.get("stored_equals_current") is False)) or not r.get("second")
    print("replay codecheck:", json.dumps(c), "->", json.dumps(r), "=>", "property fails" if bad else "holds")
    return 1 if bad else 0
