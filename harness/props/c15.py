"""C15 -- n_jobs bounds concurrency; nesting never multiplies worker processes.   (partial)

1. regenerate coq/Gen/T_njobs.v from the live effective_n_jobs methods and cpu_count (translator, fail-closed);
2. build Props/C15.vo + Print Assumptions;
3. arithmetic correspondence: the real effective_n_jobs of the four backend classes (cpu_count patched over 1..64,
   n over [-2*cpus, 2*cpus], every combination of the nesting guards, non-main thread realised by a real thread),
   joblib.effective_n_jobs under parallel_config, and loky.cpu_count() in forked children (real affinity masks,
   LOKY_MAX_CPU_COUNT, faked cgroup files, patched os.cpu_count) vs the regenerated functions AND the hand model;
4. independent oracle: the property's wording stated directly in Python;
5. real nested Parallel runs (depth <= 3 x backend combinations): backend class / nesting level / workers of every call vs
   the model's call_outcome / worker_site; pids and thread ids of the tasks; high-water mark of simultaneously running
   tasks per call (deterministic barrier inside the tasks); number of worker processes vs the model's `procs`;
6. known finding (n_jobs=0 accepted by MultiprocessingBackend under a nesting guard) replayed.
"""
import ast
import json
import os
import subprocess
import sys

sys.path.insert(0, os.path.dirname(os.path.dirname(os.path.abspath(__file__))))
import common  # noqa: E402
import gen_c15  # noqa: E402
import gen_c17  # noqa: E402
import translate_c17  # noqa: E402

KINDS = ["seq", "thr", "loky", "mp"]
KCOQ = {"seq": "KSeq", "thr": "KThr", "loky": "KLoky", "mp": "KMp"}
CLASS = {"SequentialBackend": 0, "ThreadingBackend": 1, "LokyBackend": 2, "MultiprocessingBackend": 3}
BNAME = {None: None, "sequential": "seq", "threading": "thr", "loky": "loky", "multiprocessing": "mp"}
K_ZERO_MP = "n_jobs-0-not-rejected:multiprocessing-nesting-guard-before-zero-check"


def z(n):
    if n is None:          # Parallel() without n_jobs: the backend's default_n_jobs = 1
        return "1"
    return "(%d)" % n if n < 0 else "%d" % n


def b(v):
    return "true" if v else "false"


def oz(v):
    return "None" if v is None else "(Some %s)" % z(v)


REQ = """From Coq Require Import ZArith List Bool.
Require Import JV.Base.PyPrelude JV.Model.NJobs JV.Gen.T_njobs.
Import ListNotations. Open Scope Z_scope."""
# the regenerated functions are evaluated directly (not through Proofs/NJobs.vo, which may be stale when a proof broke)
DEFS_GEN = """Definition eff_gen (k : kind) (e : penv) (level n : Z) : result Z :=
  match k with
  | KSeq => seq_effective_n_jobs n
  | KThr => pool_effective_n_jobs (e_mp_none e) (e_cpus e) n
  | KLoky => loky_effective_n_jobs (e_mp_none e) (e_cpus e) (e_daemon e) (e_depth e) (e_main e) level n
  | KMp => mp_effective_n_jobs (e_mp_none e) (e_cpus e) (e_daemon e) (e_depth e) (e_main e) level n
  end."""
REQ_MODEL_ONLY = """From Coq Require Import ZArith List Bool.
Require Import JV.Base.PyPrelude JV.Model.NJobs.
Import ListNotations. Open Scope Z_scope."""
DEFS_COMMON = """Definition showr (r : result Z) : list Z :=
  match r with Ok v => [0; v] | Raise ValueError => [1; 0] | Raise _ => [2; 0] end.
Definition kz (k : kind) : Z := match k with KSeq => 0 | KThr => 1 | KLoky => 2 | KMp => 3 end.
Fixpoint chain_outcomes (s : site) (l : list (option kind * hint * Z)) : list (list Z) :=
  match l with
  | [] => []
  | (bs, h, n) :: t =>
      match call_outcome s bs h n with
      | Raise _ => [[-1; 0; 0]]
      | Ok (bk, eff) => [kz (bkind bk); blevel bk; eff] :: chain_outcomes (worker_site s bk) t
      end
  end.
Fixpoint mk_tree (l : list (option kind * hint * Z * nat)) : list call :=
  match l with
  | [] => []
  | (bs, h, n, m) :: t => [Call bs h n (concat (repeat (mk_tree t) m))]
  end.
Definition tree_procs (cpus : Z) (l : list (option kind * hint * Z * nat)) : Z :=
  match mk_tree l with c :: _ => procs (top_site cpus) c | [] => 0 end."""


def parse(s):
    return ast.literal_eval(s.replace("%Z", "").replace(";", ","))


def env_expr(c):
    return ("{| e_mp_none := %s; e_cpus := %s; e_daemon := %s; e_depth := %s; e_main := %s |}"
            % (b(c["mp_none"]), z(c["cpus"]), b(c["daemon"]), z(c["depth"]), b(c["main"])))


# ------------------------------------------------------------------------------ oracle
def oracle_eff(c, r):
    """the property as worded; returns (problem, finding_key)"""
    n, cpus, kind = c["n"], c["cpus"], c["kind"]
    guarded = False
    if kind in ("loky", "mp"):
        guarded = c["daemon"] or (not c["main"] and c["level"] != 0) or (kind == "mp" and c["depth"] > 0)
    if n == 0:
        if r.get("raise") == "ValueError":
            return None, None
        if kind == "mp" and (guarded or c["mp_none"]) and r.get("ok") == 1:
            return "MultiprocessingBackend.effective_n_jobs(0) returned 1 instead of raising ValueError", K_ZERO_MP
        return "n_jobs=0 not rejected with ValueError: %s" % r, None
    if "raise" in r:
        return "unexpected %s for n_jobs=%d" % (r["raise"], n), None
    v = r["ok"]
    if not isinstance(v, int) or v < 1:
        return "effective n_jobs %r is not an integer >= 1" % (v,), None
    if kind == "seq" or c["mp_none"] or guarded:
        exp = 1
    elif n > 0:
        exp = n
    else:
        exp = max(cpus + 1 + n, 1)
    if v != exp:
        return "effective_n_jobs(%d) = %d with %d cpus, expected %d" % (n, v, cpus, exp), None
    return None, None


def ceil_div(q, p):
    return -((-q) // p)


def oracle_cpu(c, r):
    if "raise" in r or "harness_error" in r:
        return "cpu_count failed: %s" % r
    v = r["ok"]
    cons = [c["os"] if c["os"] else 1, r["aff_seen"]]
    if c["cg"] is not None:
        q, p = (c["cg"][1], c["cg"][2]) if c["cg"][0] == "v1" else (c["cg"][0], c["cg"][1])
        if q != "max" and int(q) > 0 and int(p) > 0:
            cons.append(ceil_div(int(q), int(p)))
    if c["loky_env"] is not None:
        cons.append(int(c["loky_env"]))
    if not isinstance(v, int) or v < 1:
        return "cpu_count() = %r is not >= 1" % (v,)
    if "phys" in c:
        os_c = c["os"] if c["os"] else 1
        user = min(cons[1:]) if len(cons) > 1 else os_c
        exp = max(user, 1) if user < os_c else (c["phys"] if c["phys"] is not None else max(1, min(cons)))
        if v != exp:
            return ("cpu_count(only_physical_cores=True) = %d with %d physical cores, os.cpu_count()=%s and user limits %s: "
                    "expected %d (a limit below the machine's CPU count wins over the physical count)" % (v, c["phys"] or -1, c["os"], cons[1:], exp))
        return None if r.get("joblib") == v else "joblib.cpu_count(only_physical_cores=True) = %r differs from loky's %r" % (r.get("joblib"), v)
    for k in cons:
        if k >= 1 and v > k:
            return "cpu_count() = %d exceeds the constraint %d (constraints %s)" % (v, k, cons)
    if v != max(1, min(cons)):
        return "cpu_count() = %d, the minimum of the constraints %s floored at 1 is %d" % (v, cons, max(1, min(cons)))
    if r.get("joblib") != v:
        return "joblib.cpu_count() = %r differs from loky.cpu_count() = %r" % (r.get("joblib"), v)
    return None


# --------------------------------------------------------------------------- generators
def gen_eff(rng, quick):
    cases = []
    cpus_list = [1, 2, 3, 4, 7, 8, 16, 33, 64] if quick else list(range(1, 65))
    for cpus in cpus_list:
        for n in range(-2 * cpus, 2 * cpus + 1):
            for kind in KINDS:
                cases.append({"mode": "eff", "kind": kind, "cpus": cpus, "n": n, "daemon": False, "depth": 0,
                              "main": True, "level": 0, "mp_none": False})
    for cpus in (1, 4, 16):
        for n in (-40, -3, -1, 0, 1, 2, 5):
            for kind in KINDS:
                for daemon in (False, True):
                    for depth in (0, 1):
                        for main in (True, False):
                            for level in (0, 1, 2):
                                for mp_none in (False, True):
                                    if quick and rng.random() < 0.5:
                                        continue
                                    cases.append({"mode": "eff", "kind": kind, "cpus": cpus, "n": n, "daemon": daemon,
                                                  "depth": depth, "main": main, "level": level, "mp_none": mp_none})
    return cases


def gen_api(rng, quick):
    out = []
    for cpus in (1, 2, 5, 16):
        for n in (-20, -3, -2, -1, 0, 1, 2, 3, 9):
            for kind in KINDS:
                out.append({"mode": "api", "kind": kind, "cpus": cpus, "n": n})
    return out


def gen_cpu(rng, quick, ncores):
    oss = [None, 0, 1, 2, 4, 16, 48, 64]
    affs = [None] + [a for a in (1, 2, 5, 16) if a <= ncores]
    cgs = [None, ["max", 100000], [50000, 100000], [100000, 100000], [150000, 100000], [400000, 100000], [-1, 100000],
           ["v1", 250000, 100000], ["v1", -1, 100000]]
    envs = [None, "0", "1", "3", "1000"]
    out = []
    for o in oss:
        for a in affs:
            for cg in cgs:
                for e in envs:
                    if quick and rng.random() < 0.75:
                        continue
                    out.append({"mode": "cpu", "os": o, "aff": a, "cg": cg, "loky_env": e})
    # only_physical_cores=True with a scripted physical-core count, under limits below and above it
    for o in (16, 64):
        for phys in (8, 16, None):
            for a in [x for x in (None, 2, 5) if x is None or x <= ncores]:
                for e in (None, "1", "3", "12", "1000"):
                    for cg in (None, [150000, 100000]):
                        if quick and rng.random() < 0.5:
                            continue
                        out.append({"mode": "cpu", "os": o, "aff": a, "cg": cg, "loky_env": e, "phys": phys})
    return out


def run_impl_cases(cases, nproc=8, timeout=1500):
    import concurrent.futures as cf
    chunks = [cases[i::nproc] for i in range(nproc)]

    def one(ch):
        if not ch:
            return []
        rc, out, err = common.run_impl("c15_impl.py", input_text="\n".join(json.dumps(c) for c in ch) + "\n", timeout=timeout)
        lines = [json.loads(l) for l in out.splitlines() if l.strip()]
        if len(lines) != len(ch):
            raise RuntimeError("c15_impl produced %d results for %d cases: %s" % (len(lines), len(ch), err[-2000:]))
        return lines
    with cf.ThreadPoolExecutor(nproc) as ex:
        outs = list(ex.map(one, chunks))
    res = [None] * len(cases)
    for k, ch in enumerate(chunks):
        for j, r in enumerate(outs[k]):
            res[k + nproc * j] = r
    return res


def canon_r(r):
    if "raise" in r:
        return [1, 0] if r["raise"] == "ValueError" else [2, 0]
    return [0, r["ok"]]


# ------------------------------------------------------------------------ nested real runs
HINTS = {None: (None, None, 0, 0), "processes": ("processes", None, 2, 0), "threads": ("threads", None, 1, 0),
         "sharedmem": (None, "sharedmem", 0, 1)}


def lvl(l):
    """(backend, n_jobs, ntasks, hint) with hint optional"""
    return (l[0], l[1], l[2], l[3] if len(l) > 3 else None)


def mk_tree(levels):
    t = None
    for l in reversed(levels):
        bk, n, m, hint = lvl(l)
        t = {"backend": bk, "n_jobs": n, "ntasks": m, "child": t, "prefer": HINTS[hint][0], "require": HINTS[hint][1]}
    return t


def coq_hint(hint):
    return "{| h_prefer := %d; h_require := %d |}" % HINTS[hint][2:4]


def chain_expr(lv, cpus):
    sel = lambda l: "None" if l[0] is None else "Some " + KCOQ[BNAME[l[0]]]
    return "(chain_outcomes (top_site %d) [%s], tree_procs %d [%s])" % (
        cpus, "; ".join("(%s, %s, %s)" % (sel(l), coq_hint(lvl(l)[3]), z(l[1])) for l in lv),
        cpus, "; ".join("(%s, %s, %s, %d%%nat)" % (sel(l), coq_hint(lvl(l)[3]), z(l[1]), l[2]) for l in lv))


def nested_guard_trees(rng, quick, full=False):
    """explicit process backends (and the default one) asked for from worker threads and from daemonic multiprocessing
    workers, with n_jobs in {-3,-2,-1,1,2,3,None}: must all run sequentially"""
    out = []
    combos = [(o, i, n) for o in ("threading", "multiprocessing") for i in ("loky", "multiprocessing", None)
              for n in (-3, -2, -1, 1, 2, 3, None)]
    if not full:
        rng.shuffle(combos)
        keep = [c for c in combos if c[2] is not None and c[2] < 0][:4 if quick else 12] + \
               [c for c in combos if c[2] is None or c[2] > 0][:2 if quick else 8]
        combos = keep
    for o, i, n in combos:
        out.append([(o, 2, 3), (i, n, 2)])
    if full or not quick:
        out.append([("threading", 2, 3), ("threading", 2, 3), ("loky", -2, 2)])
    return out


def hint_trees(rng, quick, full=False):
    """outer in {loky(default), threading, multiprocessing} x inner hint x inner n_jobs, inner backend left to the defaults"""
    combos = [(o, hnt, n) for o in (None, "threading", "multiprocessing") for hnt in (None, "processes", "threads", "sharedmem")
              for n in (2, 3, -1, None)]
    if not full:
        must = [c for c in combos if c[1] == "processes" and c[2] == 2]
        rest = [c for c in combos if c not in must]
        rng.shuffle(rest)
        combos = must + rest[:3 if quick else 20]
    out = [[(o, 2, 3), (None, n, 3, hnt)] for o, hnt, n in combos]
    out.append([(None, 2, 3, "processes"), (None, 2, 3, "processes"), (None, 2, 2, "processes")])
    out.append([(None, 2, 3), (None, 2, 2), (None, 3, 2, "sharedmem")])        # require='sharedmem' below two parallel levels
    out.append([("threading", 2, 3), ("threading", 2, 2), (None, 3, 2, "threads")])
    out.append([(None, 2, 3, "threads")])
    out.append([(None, 2, 3, "sharedmem"), ("loky", 2, 2)])
    return out


def gen_trees(rng, quick):
    names = [None, "threading", "loky", "multiprocessing", "sequential"]
    shape = [(2, 4), (2, 3), (2, 3)]   # (n_jobs, tasks): always more tasks than workers
    trees = [[(None, 3, 5), (None, 2, 3), (None, 2, 3)], [(None, 1, 2), (None, 2, 3), (None, 2, 3)],
             [(None, 2, 4)], [(None, 0, 1)], [("threading", 2, 3), ("multiprocessing", 0, 1)],
             [("threading", 1, 2)], [("loky", 1, 2)], [("multiprocessing", 1, 2)], [("sequential", 3, 2)],
             [(None, 2, 3), ("threading", 1, 2)], [("threading", 3, 5), ("threading", 1, 2), (None, 2, 2)],
             [(None, 2, 3), (None, None, 3)], [("threading", 2, 3), (None, None, 3)],
             # depth 4, explicit backends in the middle, a default call at the bottom
             [(None, 2, 3), ("threading", 2, 2), ("threading", 2, 2), (None, 2, 2)],
             [("threading", 2, 3), ("threading", 2, 2), ("loky", 2, 2), (None, 3, 2)]]
    trees += nested_guard_trees(rng, quick)
    trees += hint_trees(rng, quick)
    for a in names:
        for b_ in names:
            trees.append([(a,) + shape[0], (b_,) + shape[1]])
    d3 = [[(a,) + shape[0], (b_,) + shape[1], (c,) + shape[2]] for a in names for b_ in names for c in names]
    if quick:
        rng.shuffle(d3)
        d3 = d3[:6]
    return trees + d3


def run_tree(ctx, idx, levels, timeout=180, payload=None, env=None):
    logdir = os.path.join(ctx.tmp, "nest-%d" % idx)
    for attempt in (0, 1):
        if os.path.isdir(logdir):
            import shutil
            shutil.rmtree(logdir)
        os.makedirs(logdir)
        cmd = [common.PY, os.path.join(common.ROOT, "harness", "impl", "c15_nest.py"), logdir,
               json.dumps(payload if payload is not None else mk_tree(levels))]
        try:
            p = subprocess.run(cmd, env=common.impl_env(env), stdout=subprocess.PIPE, stderr=subprocess.PIPE, text=True,
                               timeout=timeout)
        except subprocess.TimeoutExpired:
            continue
        if p.returncode == 0 and "done" in p.stdout:
            ev = [json.loads(l) for l in open(os.path.join(logdir, "events.jsonl")) if l.strip()]
            return {"events": ev}
        err = p.stderr[-1500:]
    return {"inconclusive": "timeout or crash: %s" % (locals().get("err", "timeout"))}


def judge_tree(levels, run, model_chain, model_procs):
    """returns (violations [(what)], disagreements [..], stats)"""
    bad, dis = [], []
    ev = run["events"]
    calls = [e for e in ev if e["e"] == "call"]
    root_pid = next(e["pid"] for e in calls if e["path"] == "r")
    timeouts = sum(1 for e in ev if e["e"] == "T")
    worker_pids = set()
    hw_all = {}
    for c in calls:
        depth = c["path"].count(".")
        if "raise" in c:
            got = [-1, 0, 0] if c["raise"] == "ValueError" else [-2, 0, 0]
        else:
            got = [CLASS.get(c["kind"], -9), c["level"], c["eff"]]
        if model_chain is not None:
            exp = model_chain[depth] if depth < len(model_chain) else None
            if got != exp:
                dis.append({"path": c["path"], "impl": got, "model": exp})
        if "raise" in c or "kind" not in c:
            continue
        tasks = [e for e in ev if e["e"] in ("S", "E") and e["call"] == c["path"]]
        starts = [e for e in tasks if e["e"] == "S"]
        n_tasks = levels[depth][2]
        if len(starts) != n_tasks or len(tasks) != 2 * n_tasks:
            bad.append("call %s: %d of %d tasks logged start/end exactly once" % (c["path"], len(starts), n_tasks))
            continue
        run_now = hw = 0
        for e in tasks:
            run_now += 1 if e["e"] == "S" else -1
            hw = max(hw, run_now)
        hw_all[c["path"]] = hw
        eff = c["eff"]
        if hw > eff:
            bad.append("call %s (%s, n_jobs resolved to %d): %d tasks were running at the same time" % (
                c["path"], c["kind"], eff, hw))
        elif timeouts == 0 and hw != min(eff, n_tasks):
            bad.append("call %s (%s): resolved n_jobs %d with %d tasks but at most %d ever ran together" % (
                c["path"], c["kind"], eff, n_tasks, hw))
        pids = {e["pid"] for e in starts}
        tids = {(e["pid"], e["tid"]) for e in starts}
        if c["kind"] in ("LokyBackend", "MultiprocessingBackend"):
            worker_pids |= pids
            if c["pid"] in pids:
                bad.append("call %s: a %s task ran in the calling process" % (c["path"], c["kind"]))
            if len(pids) > eff:
                bad.append("call %s: %d worker processes for n_jobs %d" % (c["path"], len(pids), eff))
        elif c["kind"] == "ThreadingBackend":
            if pids != {c["pid"]}:
                bad.append("call %s: thread-pool tasks ran in another process" % c["path"])
            if (c["pid"], c["tid"]) in tids:
                bad.append("call %s: a thread-pool task ran in the calling thread" % c["path"])
            if len(tids) > eff:
                bad.append("call %s: %d worker threads for n_jobs %d" % (c["path"], len(tids), eff))
        else:
            if tids != {(c["pid"], c["tid"])}:
                bad.append("call %s: sequential tasks did not run in the calling thread" % c["path"])
    worker_pids.discard(root_pid)
    if len(worker_pids) > model_procs:
        bad.append("%d distinct worker processes ran tasks, the resolution allows at most %d" % (len(worker_pids), model_procs))
    # nesting never multiplies worker processes: a call made from a pool thread of a parallel threading call, or
    # inside a (daemonic) multiprocessing worker, never starts worker processes, whatever backend and n_jobs it asks for
    by_path = {c["path"]: c for c in calls}
    for c in calls:
        if "." not in c["path"]:
            continue
        parent = by_path.get(c["path"].rsplit(".", 1)[0])
        depth = c["path"].count(".")
        asked_n = levels[depth][1]
        if "raise" in c and not (c["raise"] == "ValueError" and asked_n == 0):
            bad.append("nested call %s (backend=%s, n_jobs=%s) raised %s" % (c["path"], levels[depth][0], asked_n, c["raise"]))
            continue
        if parent is None or "kind" not in parent or "kind" not in c:
            continue
        ancestors = [by_path.get(c["path"].rsplit(".", k)[0]) for k in range(1, c["path"].count(".") + 1)]
        in_worker = any(a is not None and a.get("eff", 1) > 1 for a in ancestors)
        if not in_worker:
            continue      # every enclosing call ran sequentially in the caller's thread: this is still a top-level call
        if parent.get("eff", 1) <= 1:
            parent = next(a for a in ancestors if a is not None and a.get("eff", 1) > 1)
        hint = lvl(levels[depth])[3]
        if levels[depth][0] is None and c["kind"] in ("LokyBackend", "MultiprocessingBackend"):
            # by default (no backend named) a call nested inside a worker never starts worker processes, whatever hint it passes
            bad.append("default-backend call %s (hint %s, n_jobs=%s) nested in a worker of a %s call resolved to %s with %d "
                       "workers: process fan-out below a worker" % (c["path"], hint, asked_n, parent["kind"], c["kind"], c["eff"]))
        elif hint in ("threads", "sharedmem") and levels[depth][0] is None and c["kind"] not in ("ThreadingBackend", "SequentialBackend"):
            bad.append("call %s with hint %s runs on %s" % (c["path"], hint, c["kind"]))
        elif parent["kind"] in ("ThreadingBackend", "MultiprocessingBackend") and c["kind"] in ("LokyBackend", "MultiprocessingBackend"):
            bad.append("call %s (backend=%s, n_jobs=%s) made from a worker of a %s call resolved to %s with %d workers: "
                       "nested worker processes" % (c["path"], levels[depth][0], asked_n, parent["kind"], c["kind"], c["eff"]))
    for c in calls:
        anc = [by_path.get(c["path"].rsplit(".", k)[0]) for k in range(1, c["path"].count(".") + 1)]
        if "." in c["path"] and "kind" in c and levels[c["path"].count(".")][0] is None \
                and any(a is not None and a.get("eff", 1) > 1 for a in anc):
            tp = {e["pid"] for e in ev if e["e"] == "S" and e["call"] == c["path"]}
            if tp and tp != {c["pid"]}:
                bad.append("tasks of the nested default-backend call %s ran in pids %s, not in its worker's pid %d" % (
                    c["path"], sorted(tp), c["pid"]))
    default = all(l[0] is None and lvl(l)[3] in (None, "processes") for l in levels)
    if True:
        # "the first nesting level runs on threads and deeper levels run sequentially" (below calls that went parallel),
        # for every call that leaves the backend to the defaults -- whatever its ancestors chose explicitly
        par = {c["path"] for c in calls if c.get("eff", 1) > 1}
        for c in calls:
            if "kind" not in c or "." not in c["path"]:
                continue
            dl = lvl(levels[c["path"].count(".")])
            if dl[0] is not None:
                continue      # (any hint: below a worker the context backend is thread-based / sequential and has shared memory)
            anc = [c["path"].rsplit(".", k)[0] for k in range(1, c["path"].count(".") + 1)]
            n_par = sum(1 for a in anc if a in par)
            if n_par == 1 and c["kind"] not in ("ThreadingBackend", "SequentialBackend"):
                bad.append("default nested call %s runs on %s, not on threads" % (c["path"], c["kind"]))
            if n_par >= 2 and c["kind"] != "SequentialBackend":
                bad.append("default call %s nested below two parallel levels runs on %s, not sequentially" % (c["path"], c["kind"]))
    top = next((c for c in calls if c["path"] == "r" and "eff" in c), None)
    if default and top is not None and top["eff"] > 1 and len(worker_pids) > top["eff"]:
        bad.append("default nesting multiplied worker processes: %d > outermost n_jobs %d" % (len(worker_pids), top["eff"]))
    return bad, dis, {"timeouts": timeouts, "worker_pids": len(worker_pids), "calls": len(calls), "high_water": hw_all}


def gen_reuse(rng, quick, cpus):
    """loky calls made one after the other in ONE process: the reusable executor is resized between them.
    pinned: same worker environment whatever n_jobs (inner_max_num_threads=1); natural: n_jobs > cpus/2 so that
    cpu_count() // n_jobs == 1 for all of them (the default worker environment is then identical)."""
    seqs = [{"pin": True, "seq": [[4, 6], [2, 6]]}, {"pin": True, "seq": [[2, 4], [4, 6], [2, 6]]},
            {"pin": True, "seq": [[3, 5], [2, 5], [3, 5]]},
            {"pin": True, "seq": [[4, 0], [2, 4], [3, 0], [2, 4]]},   # ntasks 0: configured, nothing submitted (unstarted executor)
            # after a failed call / a dead worker the executor is REPLACED: the replacement has the size of the new call
            {"pin": True, "seq": [[4, 6, "fail"], [2, 4], [3, 5]]},
            {"pin": True, "seq": [[4, 6, "kill"], [2, 4], [4, 6]]},
            {"pin": True, "seq": [[2, 4, "fail"], [4, 6], [2, 4]]}]
    if cpus >= 4:
        a = cpus // 2 + 2
        seqs.append({"pin": False, "seq": [[a, a + 2], [a - 1, a + 2]]})
    if not quick:
        seqs += [{"pin": True, "seq": [[5, 7], [1, 2], [3, 7], [2, 7]]}, {"pin": True, "seq": [[2, 4], [3, 5], [4, 6], [3, 6], [2, 6]]},
                 {"pin": False, "seq": [[4, 6], [2, 6]]}, {"pin": False, "seq": [[2, 6], [4, 6], [3, 6]]}]
        for _ in range(6):
            k = rng.randint(2, 4)
            seqs.append({"pin": rng.random() < 0.8, "seq": [[n, n + 2] for n in (rng.randint(1, 6) for _ in range(k))]})
    return seqs


REQ_EXEC = """From Coq Require Import ZArith List Bool.
Require Import JV.Base.PyPrelude JV.Model.C15Executor.
Import ListNotations. Open Scope Z_scope."""
DEFS_EXEC = """Fixpoint exec_trace (l : list (Z * Z * bool)) (s : estate) : list (list Z) :=
  match l with
  | [] => []
  | (n, args, submit) :: t =>
      let s' := if submit then estep (estep s (OGet n args)) OSubmit else estep s (OGet n args) in
      match s_exec s' with
      | Some e => [x_id e; x_max e; x_alive e] :: exec_trace t s'
      | None => [-1; 0; 0] :: exec_trace t s'
      end
  end."""


def reuse_model_expr(spec, cpus):
    """the loky calls of the sequence as executor operations: (resolved n_jobs, code of the executor arguments); the arguments
    differ only through the worker environment: pinned -> constant, otherwise MAX_NUM_THREADS = max(cpus // n_jobs, 1);
    a call with n_jobs = 1 runs sequentially and does not touch the executor"""
    ops = [(it[0], -1 if spec.get("pin") else max(cpus // it[0], 1), it[1] > 0) for it in spec["seq"] if it[0] != 1]
    return "exec_trace [%s] init_state" % "; ".join("(%s, %s, %s)" % (z(n), z(a), b(sub)) for n, a, sub in ops)


def judge_reuse_model(spec, run, model_trace):
    """executor identity / _max_workers / live workers after every call, against the machine"""
    afters = [e for e in run["events"] if e["e"] == "after"]
    ids, got = {}, []
    for (n, *_), a in zip(spec["seq"], afters):
        if n == 1:
            continue
        if a["exec"] is None:
            got.append([-1, 0, 0])
        else:
            ids.setdefault(a["exec"], len(ids))
            got.append([ids[a["exec"]], a["max_workers"], a["alive"]])
    return None if got == model_trace else {"impl": got, "model": model_trace}


def judge_reuse(spec, run):
    """oracle: each call runs at most ITS OWN resolved n_jobs tasks at the same time, on at most that many worker processes"""
    bad = []
    ev = run["events"]
    timeouts = sum(1 for e in ev if e["e"] == "T")
    stats = {"timeouts": timeouts, "calls": 0, "reused": sum(1 for e in ev if e["e"] == "after" and e["executor_reused"]),
             "high_water": {}}
    prev = None
    for c in [e for e in ev if e["e"] == "call"]:
        stats["calls"] += 1
        k = int(c["path"][1:])
        n, m = spec["seq"][k][0], spec["seq"][k][1]
        if len(spec["seq"][k]) > 2:
            ab = next((e for e in ev if e["e"] == "after" and e["path"] == c["path"]), {})
            if ab.get("raised") in (None, "no-exception"):
                bad.append("abnormal call %s (%s) did not report an error to the caller" % (c["path"], spec["seq"][k][2]))
            prev = n
            prev_abnormal = spec["seq"][k][2]
            continue
        tasks = [e for e in ev if e["e"] in ("S", "E") and e["call"] == c["path"]]
        starts = [e for e in tasks if e["e"] == "S"]
        if len(starts) != m or len(tasks) != 2 * m:
            bad.append("call %s: %d of %d tasks logged start/end exactly once" % (c["path"], len(starts), m))
            continue
        if m == 0:
            prev = n
            continue
        run_now = hw = 0
        for e in tasks:
            run_now += 1 if e["e"] == "S" else -1
            hw = max(hw, run_now)
        stats["high_water"][c["path"]] = hw
        eff = c["eff"]
        exp_eff = 1 if n == 1 else n
        if eff != exp_eff:
            bad.append("call %s: Parallel(n_jobs=%d) resolved to %d workers" % (c["path"], n, eff))
        after = "" if prev is None else (" right after a call with n_jobs=%d on the same executor" % prev if not locals().get("prev_abnormal")
                                         else " right after a call with n_jobs=%d in which %s" % (prev, {"fail": "a task raised", "kill": "a worker was killed"}[prev_abnormal]))
        if hw > eff:
            bad.append("loky call %s with n_jobs=%d%s: %d tasks were running at the same time" % (c["path"], eff, after, hw))
        elif timeouts == 0 and hw != min(eff, m):
            bad.append("loky call %s with n_jobs=%d%s: %d tasks but at most %d ever ran together" % (c["path"], eff, after, m, hw))
        prev_abnormal = None
        # (the number of distinct pids is not judged here: workers may legitimately be replaced while the executor is resized)
        prev = n
    return bad, stats


ZERO_WITNESS = {"mode": "eff", "kind": "mp", "cpus": 4, "n": 0, "daemon": False, "depth": 0, "main": False, "level": 1,
                "mp_none": False}


def search_failing(ctx):
    cases = gen_eff(ctx.rng, True)
    res = run_impl_cases(cases)
    for c, r in zip(cases, res):
        bad, key = oracle_eff(c, r)
        if bad and key is None:
            return bad, c
    cpu = gen_cpu(ctx.rng, True, len(os.sched_getaffinity(0)))
    for c, r in zip(cpu, run_impl_cases(cpu)):
        bad = oracle_cpu(c, r)
        if bad:
            return bad, c
    dfj = [{"mode": "defnjobs", "call_backend": b_} for b_ in ("threading", "sequential", "loky", "multiprocessing", None)]
    for c, r in zip(dfj, run_impl_cases(dfj, nproc=2)):
        want = -1 if c["call_backend"] is None else 1
        if r.get("ok") != want or (r.get("in_caller") and not all(r["in_caller"])):
            return ("inside parallel_config(backend=<backend with default_n_jobs=-1>) and no n_jobs anywhere, Parallel(backend=%r) gave %s, "
                    "expected n_jobs=%d in the calling thread" % (c["call_backend"], r, want)), c
    cus = [{"mode": "custom1", "via": via, "workers": 1, "n_jobs": 3} for via in ("instance", "name", "config")]
    for c, r in zip(cus, run_impl_cases(cus, nproc=3)):
        if "ok" not in r or not all(x == 1 for x in r["ok"]) or r["submitted"]:
            return "a user-defined backend (%s) whose configure() returns 1 did not run its tasks in the calling thread: %s" % (c["via"], r), c
    # real nested shapes x n_jobs in {-3,-2,-1,1,2,3,None} x explicit process backends below threads / daemonic workers,
    # judged by the oracle rules that need no model (high-water, pids, "no worker processes below a worker")
    trees = [[(None, 3, 5), (None, 2, 3), (None, 2, 3)], [(None, 2, 4)], [("threading", 2, 3), ("threading", 2, 3), (None, 2, 3)],
             [("threading", 1, 2)], [("loky", 1, 2)], [("multiprocessing", 2, 4)], [(None, 2, 3), (None, None, 3)],
             [("threading", 2, 3), (None, None, 3)]] + hint_trees(ctx.rng, True, full=True) + nested_guard_trees(ctx.rng, True, full=True)
    import concurrent.futures as cf
    with cf.ThreadPoolExecutor(6) as ex:
        runs = list(ex.map(lambda it: run_tree(ctx, 7000 + it[0], it[1]), list(enumerate(trees))))
    for lv, rr in zip(trees, runs):
        if "inconclusive" in rr:
            continue
        bad, _, _ = judge_tree(lv, rr, None, 10 ** 9)
        if bad:
            return bad[0], {"mode": "nest", "levels": lv}
    # loky executor reuse sequences
    for i, sp in enumerate(gen_reuse(ctx.rng, False, len(os.sched_getaffinity(0)))):
        rr = run_tree(ctx, 7500 + i, None, 180, sp)
        if "inconclusive" in rr:
            continue
        bad, st = judge_reuse(sp, rr)
        if bad and not st["timeouts"]:
            return bad[0], dict(sp, mode="reuse")
    return None


def run(ctx):
    quick = ctx.tier == "quick"
    trusted = [
        "Coq 8.16.1 kernel (coqc); vm_compute used in the witness/examples and in the cases evaluation; no native_compute",
        "harness/translate_c17.py (extended copy of the fail-closed translator) and the reading table in gen_c15.py: n_jobs is an "
        "int, warnings-only statements have no effect, mp/cpu_count/daemon/_CURRENT_DEPTH/in_main_thread/nesting_level are "
        "parameters, super().effective_n_jobs is PoolManagerMixin's, cpu_count on Linux with only_physical_cores=False",
        "NOT PROVED: multiprocessing.pool.ThreadPool(n), MemmappingPool(n) and the loky executor run at most n tasks at once "
        "(library pools) -- measured only (high-water mark with a barrier inside the tasks)",
        "Model/NJobs.v worker_site: which thread/process the tasks of each backend family run in (validated by the pid/thread-id "
        "logs of the nested runs, not proved)",
        "the harness: generators, patching of cpu_count/mp/_CURRENT_DEPTH, forked children for cpu_count, log-based high-water "
        "computation, the Python oracle",
    ]
    translator_ok = True
    gens = [(gen_c15.generate, "T_njobs", "effective_n_jobs / cpu_count"),
            (gen_c15.generate_nested, "T_nested", "get_nested_backend / configure / pool construction"),
            (gen_c15.generate_executor, "T_executor", "_resize / get_reusable_executor / get_memmapping_executor decisions"),
            (gen_c17.generate_active_backend, "T_active_backend", "_get_active_backend"),
            # Props/C15.vo is built on Proofs/Config.vo (the regenerated _get_active_backend), which also needs these two
            (gen_c17.generate, "T_config_param", "_get_config_param"),
            (gen_c17.generate_mp_context, "T_mp_context", "Parallel.__init__ mp context / abort_everything"),
            (gen_c17.generate_backend_attrs, "T_backend_attrs", "class attributes of the backend classes"),
            (gen_c17.generate_pool_settings, "T_pool_settings", "_get_temp_dir / backend kwargs merge"),
            (gen_c15.generate_call, "T_call", "Parallel.__call__ sequential shortcut")]
    rejected = set()
    for gen, fname, label in gens:
        try:
            changed = gen()[1]
            if changed:
                ctx.note("Gen/%s.v changed: the source of %s differs from the last run" % (fname, label))
        except translate_c17.TranslateError as e:
            translator_ok = False
            rejected.add(fname)
            good = os.path.join(common.COQ, "Gen", ".%s.v.good" % fname)
            if os.path.exists(good):   # proofs are then checked against the last translation that was proved, not a stale one
                common.write_if_changed(os.path.join(common.COQ, "Gen", "%s.v" % fname), open(good).read())
            ctx.note("translator rejected the source (%s); falling back to the hand model tie" % e)
    proofs_ok = ctx.standard_proof_stage("C15", search=lambda: search_failing(ctx))
    if proofs_ok:
        for gen, fname, label in gens:
            if fname not in rejected:
                common.write_if_changed(os.path.join(common.COQ, "Gen", ".%s.v.good" % fname),
                                        open(os.path.join(common.COQ, "Gen", "%s.v" % fname)).read())
    ctx.coq_build(["Gen/T_njobs.vo", "Model/NJobs.vo", "Gen/T_nested.vo", "Model/C15Executor.vo"])
    have_gen = "T_njobs" not in rejected and os.path.exists(os.path.join(common.COQ, "Gen", "T_njobs.vo"))
    have_nested = "T_nested" not in rejected and have_gen and os.path.exists(os.path.join(common.COQ, "Gen", "T_nested.vo"))

    ncores = len(os.sched_getaffinity(0))
    eff = gen_eff(ctx.rng, quick)
    api = gen_api(ctx.rng, quick)
    cpu = gen_cpu(ctx.rng, quick, ncores)
    corpus_path = os.path.join(common.ROOT, "corpus", "c15.jsonl")
    corpus = [json.loads(l) for l in open(corpus_path) if l.strip()] if os.path.exists(corpus_path) else []
    eff = [c for c in corpus if c.get("mode") == "eff"] + eff
    real = run_impl_cases([{"mode": "cpu", "os": "real", "aff": None, "cg": "real", "loky_env": None}], nproc=1)[0]
    real_cpus = real.get("ok", 1)
    res_eff = run_impl_cases(eff)
    res_api = run_impl_cases(api)
    res_cpu = run_impl_cases(cpu)

    problems, findings, disagreements = [], {}, []
    dist = {"eff_ok": 0, "eff_valueerror": 0, "eff_guarded": 0, "eff_negative": 0, "api": len(api), "cpu": len(cpu)}
    nontrivial = set()
    for c, r in zip(eff, res_eff):
        bad, key = oracle_eff(c, r)
        if bad:
            (findings.setdefault(key, (bad, c)) if key else problems.append((bad, c, r)))
        dist["eff_valueerror" if "raise" in r else "eff_ok"] += 1
        if c["n"] < 0:
            dist["eff_negative"] += 1
        if c["daemon"] or c["depth"] or not c["main"] or c["mp_none"]:
            dist["eff_guarded"] += 1
        if c["n"] <= 0 or c["daemon"] or c["depth"] or not c["main"] or c["mp_none"]:
            nontrivial.add(json.dumps(c, sort_keys=True))
    for c, r in zip(api, res_api):
        c2 = dict(c, daemon=False, depth=0, main=True, level=0, mp_none=False)
        if c["n"] == 1:
            bad = None if r.get("ok") == 1 else "joblib.effective_n_jobs(1) = %s" % r
        else:
            bad, _ = oracle_eff(c2, r)
        if bad:
            problems.append((bad, c, r))
    for c, r in zip(cpu, res_cpu):
        bad = oracle_cpu(c, r)
        if bad:
            problems.append((bad, c, r))
        elif c["cg"] or c["loky_env"] or c["aff"]:
            nontrivial.add(json.dumps(c, sort_keys=True))

    # ---- model: regenerated functions and hand model
    n_model = 0
    fn_pairs = [("eff_model", REQ_MODEL_ONLY)] + ([("eff_gen", REQ)] if have_gen else [])
    for fn, req in fn_pairs:
        exprs = ["showr (%s %s %s %s %s)" % (fn, KCOQ[c["kind"]], env_expr(c), z(c["level"]), z(c["n"])) for c in eff]
        vals = ctx.coq_eval_lines(req, DEFS_COMMON + ("\n" + DEFS_GEN if fn == "eff_gen" else ""), exprs,
                                  name="c15_" + fn, shard=600)
        n_model += len(vals)
        for c, r, v in zip(eff, res_eff, vals):
            if "harness_error" in r or parse(v) != canon_r(r):
                disagreements.append({"function": fn, "case": c, "impl": r, "model": v})
    exprs = []
    for c in api:
        e = env_expr(dict(c, daemon=False, depth=0, main=True, level=0, mp_none=False))
        exprs.append("showr (if %s =? 1 then Ok 1 else eff_model %s %s 0 %s)" % (z(c["n"]), KCOQ[c["kind"]], e, z(c["n"])))
    vals = ctx.coq_eval_lines(REQ_MODEL_ONLY, DEFS_COMMON, exprs, name="c15_api")
    n_model += len(vals)
    for c, r, v in zip(api, res_api, vals):
        if "harness_error" in r or parse(v) != canon_r(r):
            disagreements.append({"function": "joblib.effective_n_jobs", "case": c, "impl": r, "model": v})
    for fn, req in [("cpu_count_model", REQ_MODEL_ONLY)] + ([("cpu_count", REQ)] if have_gen else []):
        exprs, idx = [], []
        for i, (c, r) in enumerate(zip(cpu, res_cpu)):
            if "ok" not in r:
                continue
            if c["cg"] is None:
                cg = "None"
            else:
                q, p = (c["cg"][1], c["cg"][2]) if c["cg"][0] == "v1" else (c["cg"][0], c["cg"][1])
                cg = "(Some (cgroup_count (os_count %s) %s %s))" % (oz(c["os"]), "None" if q == "max" else "(Some %s)" % z(int(q)), z(int(p)))
            le = None if c["loky_env"] is None else int(c["loky_env"])
            args = "%s %s %s %s" % (oz(c["os"]), oz(r["aff_seen"]), cg, oz(le))
            if "phys" in c:
                exprs.append("showr (Ok (cpu_count_physical_model %s %s))" % (args, oz(c["phys"])) if fn == "cpu_count_model"
                             else "showr (cpu_count %s %s true)" % (args, oz(c["phys"])))
            else:
                exprs.append("showr (Ok (cpu_count_model %s))" % args if fn == "cpu_count_model" else "showr (cpu_count %s None false)" % args)
            idx.append(i)
        vals = ctx.coq_eval_lines(req, DEFS_COMMON, exprs, name="c15_" + fn)
        n_model += len(vals)
        for i, v in zip(idx, vals):
            if parse(v) != canon_r(res_cpu[i]):
                disagreements.append({"function": fn, "case": cpu[i], "impl": res_cpu[i], "model": v})

    # ---- get_nested_backend / configure / pool size: real methods vs the regenerated functions and the hand model
    nst = [{"mode": "nested", "kind": k, "level": l} for k in KINDS for l in (0, 1, 2, 3, 7)]
    cnf = [{"mode": "conf", "kind": k, "level": l, "n": n, "cpus": c} for k in ("seq", "thr") for l in (0, 2)
           for c in (1, 4) for n in (-9, -4, -3, -1, 0, 1, 2, 3, 5)]
    res_nst = run_impl_cases(nst, nproc=2)
    res_cnf = run_impl_cases(cnf, nproc=4)
    for c, r in zip(nst, res_nst):
        exp = [2, 0, None] if c["kind"] == "seq" else ([1, 1, None] if c["level"] == 0 else [0, c["level"] + 1, None])
        if r.get("ok") != exp:
            problems.append(("%s(nesting_level=%d).get_nested_backend() = %s, the property allows %s (threads at the first "
                             "level, sequential below, n_jobs None)" % (c["kind"], c["level"], r, exp), c, r))
    for c, r in zip(cnf, res_cnf):
        n, cpus = c["n"], c["cpus"]
        want = 1 if c["kind"] == "seq" else (n if n > 0 else max(cpus + 1 + n, 1))
        if n == 0:
            ok = r.get("raise") == "ValueError"
        elif want == 1 and c["kind"] == "thr":
            ok = r.get("fallback") == [0, c["level"]]
        else:
            ok = r.get("ok") == want and ("pool" not in r or r["pool"] == want)
        if not ok:
            problems.append(("%s.configure(n_jobs=%d) with %d cpus gave %s: expected %s" % (
                c["kind"], n, cpus, r, "ValueError" if n == 0 else ("fallback to the sequential backend at the same level"
                if want == 1 and c["kind"] == "thr" else "%d workers and a pool of that size" % want)), c, r))
    defs_n = DEFS_COMMON + """
Definition shown (r : result (bk * option Z)) : list Z :=
  match r with Ok (b, None) => [kz (bkind b); blevel b; -1] | Ok (b, Some n) => [kz (bkind b); blevel b; n] | Raise _ => [-9] end.
Definition showc (r : result Z) (pool : Z) : list Z :=
  match r with Ok v => [0; v; pool] | Raise ValueError => [1; 0; 0] | Raise (OtherError 1) => [3; 0; 0] | Raise _ => [2; 0; 0] end."""
    exprs = []
    for c in nst:
        if c["kind"] == "seq":
            exprs.append("shown (%s (default_backend, None))" % ("seq_get_nested_backend" if have_nested else "Ok"))
        else:
            exprs.append("shown (%s)" % ("base_get_nested_backend %s" % z(c["level"]) if have_nested else
                                         "Ok (nested_backend {| bkind := %s; blevel := %s |}, None)" % (KCOQ[c["kind"]], z(c["level"]))))
    for c in cnf:
        envs = "false %s false 0 true %s %s" % (z(c["cpus"]), z(c["level"]), z(c["n"]))
        if have_nested:
            fn = "base_configure" if c["kind"] == "seq" else "thr_configure"
            exprs.append("(let r := %s %s in showc r (match r with Ok v => %s | _ => 0 end))" % (
                fn, envs, "v" if c["kind"] == "seq" else "thr_pool_size v"))
        else:
            exprs.append("(let r := match configure {| bkind := %s; blevel := %s |} (s_env (top_site %s)) %s with "
                         "Ok (b, v) => if kind_eqb (bkind b) %s then Ok v else Raise (OtherError 1) | Raise x => Raise x end in "
                         "showc r (match r with Ok v => v | _ => 0 end))" % (KCOQ[c["kind"]], z(c["level"]), z(c["cpus"]), z(c["n"]), KCOQ[c["kind"]]))
    vals = ctx.coq_eval_lines((REQ.replace("JV.Gen.T_njobs.", "JV.Gen.T_njobs JV.Gen.T_nested.") if have_nested else REQ_MODEL_ONLY),
                              defs_n, exprs, name="c15_nested_fn")
    n_model += len(vals)
    for c, r, v in zip(nst + cnf, res_nst + res_cnf, vals):
        if c["mode"] == "nested":
            iv = None if "ok" not in r else [r["ok"][0], r["ok"][1], -1 if r["ok"][2] is None else r["ok"][2]]
        elif "ok" in r:
            iv = [0, r["ok"], r.get("pool", r["ok"])]
        elif "fallback" in r:
            iv = [3, 0, 0] if r["fallback"] == [0, c["level"]] else [-3, 0, 0]
        else:
            iv = [1, 0, 0] if r.get("raise") == "ValueError" else [2, 0, 0]
        if parse(v) != iv:
            disagreements.append({"function": "get_nested_backend/configure", "case": c, "impl": r, "model": v})

    # ---- a user-defined backend that resolves to one worker: the tasks run in the calling thread (never through submit)
    cus = [{"mode": "custom1", "via": via, "workers": w, "n_jobs": n} for via in ("instance", "name", "config")
           for w in (1, 2) for n in (1, 3)]
    res_cus = run_impl_cases(cus, nproc=3)
    ctx.coq_build(["Gen/T_call.vo"])
    have_call = "T_call" not in rejected and os.path.exists(os.path.join(common.COQ, "Gen", "T_call.vo"))
    cvals = ctx.coq_eval_lines("From Coq Require Import ZArith List Bool.\nRequire Import JV.Base.PyPrelude%s.\nImport ListNotations. Open Scope Z_scope."
                               % (" JV.Gen.T_call" if have_call else ""), "",
                               ["[if %s then 1 else 0]" % (("call_runs_inline %d" % c["workers"]) if have_call else ("%d =? 1" % c["workers"]))
                                for c in cus], name="c15_call")
    n_model += len(cvals)
    for c, r, v in zip(cus, res_cus, cvals):
        if "ok" not in r:
            problems.append(("user-defined backend (%s): %s" % (c["via"], r), c, r))
            continue
        inline = all(x == 1 for x in r["ok"]) and r["submitted"] == 0
        if c["workers"] == 1 and not inline:
            problems.append(("a user-defined backend (%s) whose configure() returns 1: the tasks did not run in the calling thread "
                             "(in-caller %s, submit() called %d times)" % (c["via"], r["ok"], r["submitted"]), c, r))
        if c["workers"] == 2 and inline:
            problems.append(("a user-defined backend (%s) with 2 workers ran everything in the calling thread" % c["via"], c, r))
        if parse(v) != [1 if inline else 0]:
            disagreements.append({"function": "call_runs_inline", "case": c, "impl": r, "model": v})

    # ---- whose default_n_jobs: a context backend with default -1 must not leak its default into a call naming another backend
    dfj = [{"mode": "defnjobs", "call_backend": b_} for b_ in ("threading", "sequential", "loky", "multiprocessing", None)]
    for c, r in zip(dfj, run_impl_cases(dfj, nproc=2)):
        want = -1 if c["call_backend"] is None else 1
        if r.get("ok") != want:
            problems.append(("inside parallel_config(backend=<backend with default_n_jobs=-1>) and no n_jobs anywhere, Parallel(backend=%r) "
                             "resolved n_jobs=%s, expected %d (the default of the backend the call uses)" % (c["call_backend"], r, want), c, r))
        elif r.get("in_caller") and not all(r["in_caller"]):
            problems.append(("Parallel(backend=%r) with n_jobs resolved to 1 did not run its tasks in the calling thread: %s" % (
                c["call_backend"], r["in_caller"]), c, r))

    # ---- real nested runs
    trees = gen_trees(ctx.rng, quick)
    reuse = gen_reuse(ctx.rng, quick, real_cpus)
    import concurrent.futures as cf
    with cf.ThreadPoolExecutor(8) as ex:
        fut_reuse = [ex.submit(run_tree, ctx, 5000 + i, None, 180, sp) for i, sp in enumerate(reuse)]
        runs = list(ex.map(lambda it: run_tree(ctx, it[0], it[1]), list(enumerate(trees))))
        reuse_runs = [f.result() for f in fut_reuse]
    chain_exprs = [chain_expr(lv, real_cpus) for lv in trees]
    chain_vals = ctx.coq_eval_lines(REQ_MODEL_ONLY, DEFS_COMMON, chain_exprs, name="c15_chain")
    n_model += len(chain_vals)
    nest_stats = {"trees": len(trees), "inconclusive": 0, "calls": 0, "barrier_timeouts": 0, "max_worker_pids": 0}
    nest_bad = []
    for lv, run_, cv in zip(trees, runs, chain_vals):
        if "inconclusive" in run_:
            nest_stats["inconclusive"] += 1
            ctx.note("nested run %s inconclusive: %s" % (lv, run_["inconclusive"][:200]))
            continue
        chain, procs = parse(cv)
        bad, dis, st = judge_tree(lv, run_, chain, procs)
        nest_stats["calls"] += st["calls"]
        nest_stats["barrier_timeouts"] += st["timeouts"]
        nest_stats["max_worker_pids"] = max(nest_stats["max_worker_pids"], st["worker_pids"])
        for x in bad:
            nest_bad.append((x, lv))
        for d in dis:
            disagreements.append({"function": "call_outcome/worker_site", "case": {"mode": "nest", "levels": lv}, **d})
        if len(lv) > 1:
            nontrivial.add(json.dumps(lv))
    # real runs under a restricted CPU count (LOKY_MAX_CPU_COUNT smaller than the host): negative n_jobs must follow it
    if real_cpus >= 4:
        for k, (limit, lv) in enumerate([(3, [("threading", -1, 5)]), (2, [(None, -1, 4), (None, -1, 3)]),
                                         (3, [("multiprocessing", -2, 4)])]):
            rr = run_tree(ctx, 8000 + k, lv, env={"LOKY_MAX_CPU_COUNT": str(limit)})
            if "inconclusive" in rr:
                nest_stats["inconclusive"] += 1
                continue
            chain, procs = parse(ctx.coq_eval_lines(REQ_MODEL_ONLY, DEFS_COMMON, [chain_expr(lv, limit)], name="c15_chain_lim%d" % k)[0])
            n_model += 1
            bad, dis, st = judge_tree(lv, rr, chain, procs)
            nest_stats["calls"] += st["calls"]
            top = next((c for c in rr["events"] if c["e"] == "call" and c["path"] == "r"), {})
            want = max(limit + 1 + lv[0][1], 1)
            if top.get("eff") != want:
                bad.insert(0, "Parallel(n_jobs=%d) under LOKY_MAX_CPU_COUNT=%d resolved to %s workers, expected %d" % (
                    lv[0][1], limit, top.get("eff"), want))
            for x in bad:
                r2 = run_tree(ctx, 8100 + k, lv, env={"LOKY_MAX_CPU_COUNT": str(limit)})
                b2 = [] if "inconclusive" in r2 else judge_tree(lv, r2, chain, procs)[0]
                t2 = next((c for c in r2.get("events", []) if c["e"] == "call" and c["path"] == "r"), {})
                if b2 or t2.get("eff") != want:
                    problems.append((x, {"mode": "nest", "levels": lv, "env": {"LOKY_MAX_CPU_COUNT": str(limit)}}, None))
                break
            for d in dis:
                disagreements.append({"function": "call_outcome under LOKY_MAX_CPU_COUNT", "case": {"mode": "nest", "levels": lv,
                                      "env": {"LOKY_MAX_CPU_COUNT": str(limit)}}, **d})

    # a sampled real-backend result alone never decides: confirm by one re-run
    confirmed = []
    for what, lv in nest_bad[:4]:
        rr = run_tree(ctx, 9000 + len(confirmed), lv)
        if "inconclusive" in rr:
            ctx.note("nested-run anomaly not confirmed (re-run inconclusive): %s" % what)
            continue
        cvv = ctx.coq_eval_lines(REQ_MODEL_ONLY, DEFS_COMMON, [chain_exprs[trees.index(lv)]], name="c15_chain_re")[0]
        chain, procs = parse(cvv)
        bad2, _, _ = judge_tree(lv, rr, chain, procs)
        if bad2:
            confirmed.append((bad2[0], lv))
        else:
            ctx.note("nested-run anomaly not reproduced on re-run, reported as inconclusive: %s" % what)

    # ---- loky executor reuse: a call after a larger (or smaller) one in the same process
    reuse_stats = {"sequences": len(reuse), "calls": 0, "executor_reused": 0, "barrier_timeouts": 0, "inconclusive": 0}
    reuse_confirmed = []
    for i, (sp, rr) in enumerate(zip(reuse, reuse_runs)):
        if "inconclusive" in rr:
            reuse_stats["inconclusive"] += 1
            ctx.note("reuse sequence %s inconclusive: %s" % (sp, rr["inconclusive"][:200]))
            continue
        bad, st = judge_reuse(sp, rr)
        if st["timeouts"] and not bad:
            rr = run_tree(ctx, 5500 + i, None, 180, sp)   # a barrier timeout is retried once
            if "inconclusive" in rr:
                reuse_stats["inconclusive"] += 1
                continue
            bad, st = judge_reuse(sp, rr)
            if st["timeouts"]:
                reuse_stats["inconclusive"] += 1
                ctx.note("reuse sequence %s: barrier timeout twice, reported as inconclusive" % sp)
        if not st["timeouts"] and not any(len(it) > 2 for it in sp["seq"]):
            mt = parse(ctx.coq_eval_lines(REQ_EXEC, DEFS_EXEC, [reuse_model_expr(sp, real_cpus)], name="c15_exec_%d" % i)[0])
            n_model += 1
            d = judge_reuse_model(sp, rr, mt)
            if d and not bad:
                r3 = run_tree(ctx, 6500 + i, None, 180, sp)   # confirm once: live-worker counts are sampled after the call
                d = None if "inconclusive" in r3 else judge_reuse_model(sp, r3, mt)
            if d:
                disagreements.append({"function": "reusable executor machine (get_executor/resize)", "case": dict(sp, mode="reuse"), **d})
        reuse_stats["calls"] += st["calls"]
        reuse_stats["executor_reused"] += st["reused"]
        reuse_stats["barrier_timeouts"] += st["timeouts"]
        if len(sp["seq"]) > 1:
            nontrivial.add(json.dumps(sp, sort_keys=True))
        if bad:
            r2 = run_tree(ctx, 6000 + i, None, 180, sp)      # a sampled real run alone never decides: confirm once
            if "inconclusive" in r2:
                ctx.note("reuse anomaly not confirmed (re-run inconclusive): %s" % bad[0])
                continue
            bad2, _ = judge_reuse(sp, r2)
            if bad2:
                reuse_confirmed.append((bad2[0], sp))
            else:
                ctx.note("reuse anomaly not reproduced on re-run, reported as inconclusive: %s" % bad[0])

    # ---- decide
    for what, sp in reuse_confirmed[:2]:
        ctx.violation(what, {"kind": "oracle-loky-reuse", "case": dict(sp, mode="reuse")}, True)
    for bad, c, r in problems[:3]:
        ctx.violation(bad, {"kind": "oracle", "case": c, "impl": r}, True)
    for what, lv in confirmed[:2]:
        ctx.violation(what, {"kind": "oracle-nested-run", "case": {"mode": "nest", "levels": lv}}, True)
    if disagreements and not problems and not confirmed and not reuse_confirmed:
        hit = search_failing(ctx)
        if hit:
            ctx.violation(hit[0], {"kind": "model-disagreement+failing-input", "case": hit[1],
                                   "first_disagreement": disagreements[0]}, True)
        else:
            ctx.violation("model and implementation disagree (%d cases)" % len(disagreements),
                          {"kind": "correspondence", "first_disagreement": disagreements[0],
                           "correspondence": "eff_gen/eff_model/cpu_count/call_outcome vs joblib"}, found_input=False)
    # known finding witness
    r = run_impl_cases([ZERO_WITNESS], nproc=1)[0]
    bad, key = oracle_eff(ZERO_WITNESS, r)
    if key == K_ZERO_MP:
        ctx.violation(bad, {"kind": "known-finding", "case": ZERO_WITNESS}, True, finding_key=key)
    elif bad:
        ctx.violation(bad, {"kind": "oracle", "case": ZERO_WITNESS}, True)
    else:
        ctx.violation("witness of C15_zero_rejected_refuted no longer fails on the implementation: the model is stale",
                      {"kind": "stale-model", "case": ZERO_WITNESS}, found_input=False)
    for key, (bad, c) in findings.items():
        ctx.violation(bad, {"kind": "known-finding", "case": c}, True, finding_key=key)
    if not translator_ok and not disagreements and not problems and proofs_ok:
        ctx.note("translator tie lost, hand-model tie intact")

    ctx.finish({
        "evaluations": len(eff) + len(api) + len(cpu) + len(nst) + len(cnf) + len(cus) + nest_stats["calls"] + reuse_stats["calls"],
        "distinct_nontrivial": len(nontrivial),
        "rule": "effective_n_jobs of the 4 backend classes for cpu_count in %s, every n in [-2*cpus, 2*cpus], plus all combinations "
                "of daemon/_CURRENT_DEPTH/non-main thread/nesting level/mp-disabled on a value grid; joblib.effective_n_jobs under "
                "parallel_config; cpu_count() in forked children over os.cpu_count x real affinity masks x cgroup v1/v2 quotas x "
                "LOKY_MAX_CPU_COUNT in {unset,0,1,3,1000}; real nested runs: all 25 two-level backend combinations, %s three-level "
                "ones, default chains; loky REUSE sequences in one process (n_jobs a then b, b<a and b>a, same worker environment by "
                "pinning inner_max_num_threads or by n_jobs > cpus/2), each call with more barrier-synchronised tasks than workers. non-trivial = n <= 0 or a guard active or a cpu constraint present or a nested tree; "
                "distinct by canonical JSON" % ("{1,2,3,4,7,8,16,33,64}" if quick else "1..64", "6 sampled" if quick else "all 125"),
        "samples": [eff[len(eff) // 3], cpu[len(cpu) // 2] if cpu else None, {"mode": "nest", "levels": trees[0]}],
        "traces_validated_against_impl": n_model,
        "model_evaluations": n_model,
        "distribution": dist,
        "nested_runs": nest_stats,
        "loky_reuse_runs": reuse_stats,
        "host_cpu_count": real_cpus,
        "disagreements": len(disagreements),
        "translator_ok": translator_ok,
        "exhaustive": "n over [-2*cpus, 2*cpus] for every listed cpu count (thorough: 1..64)",
        "trusted_base": trusted,
    }, assumptions=[
        "the library pools (ThreadPool, MemmappingPool, loky executor) run at most the number of workers they are created with "
        "(measured, not proved)",
        "n_jobs is an int; warnings are not turned into errors",
        "Linux; cpu_count(only_physical_cores=False)",
        "tasks of a loky call run in the worker's main thread with _CURRENT_DEPTH+1; multiprocessing workers are daemonic",
    ])


def replay(ctx, path):
    obj = json.load(open(path))
    rep = obj.get("replay", obj)
    c = rep.get("case") or rep.get("input")
    if not c or "mode" not in c:
        print("replay file names a broken proof/correspondence, nothing to execute:", rep.get("kind"))
        return 1
    if c["mode"] == "reuse":
        rr = run_tree(ctx, 2, None, 180, {"pin": c.get("pin", False), "seq": c["seq"]})
        if "inconclusive" in rr:
            print("replay inconclusive:", rr["inconclusive"])
            return 1
        bad, st = judge_reuse(c, rr)
        print("replay loky reuse sequence:", json.dumps(c), "=>", bad or "property holds", st)
        return 1 if bad else 0
    if c["mode"] == "nest":
        lv = [tuple(l) for l in c["levels"]]
        rr = run_tree(ctx, 1, lv, env=c.get("env"))
        if "inconclusive" in rr:
            print("replay inconclusive:", rr["inconclusive"])
            return 1
        expr = chain_expr(lv, int(c["env"]["LOKY_MAX_CPU_COUNT"]) if c.get("env") else 16)
        chain, procs = parse(ctx.coq_eval_lines(REQ_MODEL_ONLY, DEFS_COMMON, [expr], name="c15_replay")[0])
        bad, _, st = judge_tree(lv, rr, chain, procs)
        print("replay nested run:", lv, "=>", bad or "property holds", st)
        return 1 if bad else 0
    r = run_impl_cases([c], nproc=1)[0]
    if c["mode"] == "defnjobs":
        want = -1 if c["call_backend"] is None else 1
        bad = None if (r.get("ok") == want and all(r.get("in_caller") or [1])) else "n_jobs / thread of the call: %s, expected n_jobs=%d" % (r, want)
        print("replay:", json.dumps(c), "->", json.dumps(r), "=>", bad or "property holds")
        return 1 if bad else 0
    if c["mode"] == "custom1":
        ok = "ok" in r and ((all(x == 1 for x in r["ok"]) and r["submitted"] == 0) == (c["workers"] == 1))
        print("replay:", json.dumps(c), "->", json.dumps(r), "=>", "property holds" if ok else "tasks ran in the wrong thread")
        return 0 if ok else 1
    if c["mode"] == "cpu":
        bad = oracle_cpu(c, r)
    elif c["mode"] == "api":
        bad, _ = oracle_eff(dict(c, daemon=False, depth=0, main=True, level=0, mp_none=False), r) if c["n"] != 1 else (
            None if r.get("ok") == 1 else "effective_n_jobs(1) != 1", None)
    else:
        bad, _ = oracle_eff(c, r)
    print("replay:", json.dumps(c), "->", json.dumps(r), "=>", bad or "property holds")
    return 1 if bad else 0
