"""C03 -- dump/load round-trips under every compressor/target; the format is recognised from the content.

1. regenerate coq/Gen/C03_Constants.v from the live registry (prefixes, extensions, availability, compat
   marker, lz4 flag) and CPython's opcode table;
2. build Props/C03.vo (the table-dependent theorems are re-checked against the regenerated constants)
   + Print Assumptions;
3. correspondence on the FULL finite domain: the real joblib.dump decision (recorded at
   _write_fileobject / compressor_file) vs the model's `resolve`, for all compress forms x target kinds
   x file names; the real _detect_compressor vs the model's `detect` on all 256*256 two-byte heads and
   on structured heads (every magic, truncated, mutated, with tails, at offsets, peekable or not);
4. independent oracle: the bytes written must be what the stdlib codec named by the DOCUMENTED table
   produces at the documented level (byte-exact for the small fixed value), must load back equal;
   differential round trip of generated object graphs (shared/recursive references, sizes around
   8 KiB / 64 KiB / 1 MiB, protocols 0-5, every compressor, path / raw file / BytesIO targets,
   misleading names on dump and on load) compared structurally including aliasing; every sampled
   (object, compressor, protocol) additionally goes through every kind of open file object (TemporaryFile,
   os.fdopen/open(fd), a pipe pair, SpooledTemporaryFile in memory and rolled over, a nameless reader, a file
   opened by a bytes path -- i.e. .name an int, None, absent, bytes);
5. evidence.
"""
import ast
import bz2
import json
import lzma
import os
import re
import sys
import zlib
import concurrent.futures as cf

sys.path.insert(0, os.path.dirname(os.path.dirname(os.path.abspath(__file__))))
import common  # noqa: E402
import gen_c03  # noqa: E402

VALUE = {"k": [1, 2.5, "three", None, (4, 5)], "b": b"\x00\xff" * 7}
STD_NAMES = ["zlib", "gzip", "bz2", "lzma", "xz", "lz4"]


# ------------------------------------------------------------------ running the implementation
def run_impl_cases(cases, timeout=1500):
    """one child interpreter for the batch.  If the child dies (crash, kill) the case it died on gets that as its
    outcome and the rest of the batch is run in a fresh child: a dead child is never the verdict of the run."""
    results = []
    rest = list(cases)
    while rest:
        try:
            rc, out, err = common.run_impl("c03_impl.py", input_text="\n".join(json.dumps(c) for c in rest) + "\n",
                                           timeout=timeout)
        except Exception as e:  # noqa  (timeout of the whole batch)
            rc, out, err = -1, "", "%s: %s" % (type(e).__name__, e)
        lines = []
        for l in out.splitlines():
            if l.strip():
                try:
                    lines.append(json.loads(l))
                except ValueError:
                    break
        lines = lines[:len(rest)]
        results.extend(lines)
        if len(lines) == len(rest):
            break
        results.append({"harness_error": "the child interpreter died on this case (exit status %s)" % rc,
                        "tb": err[-600:]})
        rest = rest[len(lines) + 1:]
    return results


def run_parallel(cases, workers=None):
    workers = workers or min(common.NCPU, 12)
    if len(cases) < 2 * workers:
        return run_impl_cases(cases)
    chunks = [cases[i::workers] for i in range(workers)]
    with cf.ThreadPoolExecutor(workers) as ex:
        outs = list(ex.map(lambda ch: run_impl_cases(ch) if ch else [], chunks))
    res = [None] * len(cases)
    for k in range(workers):
        for j, r in enumerate(outs[k]):
            res[k + workers * j] = r
    return res


# ------------------------------------------------------------------ the finite domain
def forms(k):
    names = [e["name"] for e in k["registry"]]
    fs = [{"t": "true"}, {"t": "false"}, {"t": "none"}]
    fs += [{"t": "int", "v": n} for n in [-1, 0, 1, 2, 3, 4, 5, 6, 7, 8, 9, 10, 100]]
    fs += [{"t": "str", "v": s} for s in names + ["unknown", "", "ZLIB", "gz"]]
    for m in names + ["unknown", {"nonstr": 5}]:
        for l in [None, True, False, -1, 0, 1, 3, 9, 10]:
            fs.append({"t": "tuple", "v": [m, l]})
    fs += [{"t": "tuplen", "n": n} for n in (0, 1, 3)]
    return fs


def targets(k):
    exts = [e["ext"] for e in k["registry"]]
    names = ["f.pkl", "noext", "f.joblib"] + ["f" + x for x in exts] + [x for x in exts]
    names += ["f" + a + b for a in exts[:3] for b in exts[:3] if a != b]          # double extensions
    names += ["f.GZ", "f.z.", "fz", "f.gzz", "f.pkl.gz", "f.gz.pkl", "f.xz.lzma", "é.bz2"]
    ts = [{"k": "path", "name": n} for n in names]
    ts += [{"k": "pathlib", "name": n} for n in ["f.pkl", "f.gz", "f.lzma"]]
    ts += [{"k": "raw", "name": n} for n in ["f.pkl", "f.gz", "f.bz2"]]
    ts += [{"k": "bytesio"}, {"k": "invalid"}]
    return ts


# ------------------------------------------------------------------ the documented table (independent oracle)
def level_of(x):
    """level as an int, None for 'use the default', 'bad' when not in 0..9"""
    if x is None:
        return None
    if isinstance(x, bool):
        x = int(x)
    if isinstance(x, int) and 0 <= x <= 9:
        return x
    return "bad"


def documented(form, target, k):
    """What joblib.dump's documentation says: ('raise', 'ValueError') | ('plain',) | (codec, level|None)."""
    reg = {e["name"]: e for e in k["registry"]}
    t = form["t"]
    explicit = False
    if t in ("true", "none"):
        method, lvl = "zlib", None
    elif t == "false":
        method, lvl = "zlib", 0
    elif t == "int":
        method, lvl = "zlib", level_of(form["v"])
    elif t == "str":
        method, lvl, explicit = form["v"], None, True
    elif t == "tuplen":
        return ("raise", "ValueError")
    else:
        method, lvl, explicit = form["v"][0], level_of(form["v"][1]), True
    if method == "lz4" and not k["lz4_installed"]:
        return ("raise", "ValueError")
    if lvl == "bad":
        return ("raise", "ValueError")
    if not isinstance(method, str) or method not in reg:
        return ("raise", "ValueError")
    if target["k"] == "invalid":
        return ("raise", "ValueError")
    if target["k"] in ("path", "pathlib") and not explicit:
        # "The compression method corresponding to one of the supported filename extensions will be used"
        hit = [e["name"] for e in k["registry"] if target["name"].endswith(e["ext"])]
        if hit:
            method = hit[-1]
            if lvl == 0:
                lvl = None
        else:
            method = "zlib"
    if lvl == 0:
        return ("plain",)
    if not reg[method]["avail"]:
        return ("raise", "ValueError")
    return (method, lvl)


def std_encode(codec, level, payload):
    if codec in ("zlib", "gzip"):
        c = zlib.compressobj(3 if level is None else level, zlib.DEFLATED, 15 if codec == "zlib" else 31,
                             zlib.DEF_MEM_LEVEL, 0)
        return c.compress(payload) + c.flush()
    if codec == "bz2":
        return bz2.compress(payload, 9 if level is None else level)
    if codec == "xz":
        return lzma.compress(payload, format=lzma.FORMAT_XZ, preset=level)
    if codec == "lzma":
        return lzma.compress(payload, format=lzma.FORMAT_ALONE, preset=level)
    raise ValueError(codec)


def std_decode(codec, data):
    if codec == "zlib":
        return zlib.decompress(data)
    if codec == "gzip":
        return zlib.decompress(data, 31)
    if codec == "bz2":
        return bz2.decompress(data)
    return lzma.decompress(data)


def stream_state_failure(c, r):
    """dump()/load() on a caller-owned file object must leave it open, positioned after the written data"""
    kind = c.get("carrier") or (c.get("target") or {}).get("k")
    if r.get("stream_closed"):
        return "after %s() the caller's file object (%s) is closed" % (r["stream_closed"], kind)
    st = r.get("after_dump")
    if st and not r.get("raise") and not r.get("dump_raise"):
        if st["closed"]:
            return "after dump() the caller's file object (%s) is closed" % kind
        if "expected_pos" in st and st["pos"] != st["expected_pos"]:
            return "after dump() the caller's file object (%s) is at position %s, the written data ends at %s" % (
                kind, st["pos"], st["expected_pos"])
    if r.get("closed_after_load"):
        return "after load() the caller's file object (%s) is closed" % kind
    return None


def judge_resolve(c, r, k):
    """property oracle on one dump; returns a description of the failure or None"""
    if "harness_error" in r:
        return "the case could not be run to its end: " + r["harness_error"] + " " + r.get("tb", "")[-300:]
    bad = stream_state_failure(c, r)
    if bad:
        return bad
    exp = documented(c["form"], c["target"], k)
    if exp[0] == "raise":
        if r["raise"] != exp[1]:
            return "dump should raise %s, got %s" % (exp[1], r["raise"])
        return None
    if r["raise"] is not None:
        return "dump raised %s, documented outcome %s" % (r["raise"], exp)
    want_ret = "none" if c["target"]["k"] in ("raw", "bytesio") else "list"
    if r["ret"] != want_ret:
        return "dump returned %s, expected %s" % (r["ret"], want_ret)
    data = bytes.fromhex(r["bytes"])
    import pickle
    if exp[0] == "plain":
        payload = data
    else:
        try:
            payload = std_decode(exp[0], data)
        except Exception as e:  # noqa
            return "file is not a %s stream (%s); documented outcome %s" % (exp[0], type(e).__name__, exp)
        if data != std_encode(exp[0], exp[1], payload):
            return "file is a %s stream but not at the documented level %s" % (exp[0], exp[1])
    try:
        back = pickle.loads(payload)
    except Exception as e:  # noqa
        return "payload does not unpickle (%s); documented outcome %s" % (type(e).__name__, exp)
    if back != VALUE:
        return "payload unpickles to another value"
    if not r.get("load_ok"):
        return "joblib.load did not give the value back: %s" % r.get("load_raise")
    return None


# ------------------------------------------------------------------ model side
REQ = """From Coq Require Import ZArith List Bool.
Require Import JV.Base.PyPrelude JV.Gen.C03_Constants JV.Model.Persist.
Import ListNotations. Open Scope Z_scope."""
DEFS = """Definition show_level (l : level) : Z := match l with LNone => (-100) | LInt n => n end.
Definition show_res (r : result wcfg) : Z * list Z * Z :=
  match r with
  | Raise ValueError => (1, [], 0) | Raise _ => (2, [], 0)
  | Ok WPlain => (0, [], 0)
  | Ok (WComp None l) => (3, [], show_level l)
  | Ok (WComp (Some m) l) => (4, m, show_level l)
  end.
Definition show_eff (r : result wcfg) : list Z * Z * bool :=
  match r with
  | Ok w => match effective w with Some (c, l) => (c, show_level l, codec_available c) | None => ([], 0, true) end
  | Raise _ => ([], 0, true)
  end.
Definition kind_code (k : kind) : list Z := match k with KCompat => [(-1)] | KPlain => [] | KCodec n => n end.
Definition sweep2 : list (Z * Z * list Z) :=
  flat_map (fun b0 => flat_map (fun b1 => match detect 5 [b0; b1] with KPlain => [] | k => [(b0, b1, kind_code k)] end)
                               byte_values) byte_values."""


def zstr(s):
    return "[" + "; ".join(str(ord(ch)) for ch in s) + "]"


def zbytes(b):
    return "[" + "; ".join(str(x) for x in b) + "]"


def coq_level(l):
    if l is None:
        return "LNone"
    return "(LInt %s)" % common.zlit(int(l))


def coq_form(f):
    t = f["t"]
    if t == "true":
        return "CTrue"
    if t == "none":
        return "CNone"
    if t == "false":
        return "(CInt 0)"
    if t == "int":
        return "(CInt %s)" % common.zlit(f["v"])
    if t == "str":
        return "(CName %s)" % zstr(f["v"])
    if t == "tuplen":
        return "CTupleBad"
    m, l = f["v"]
    if isinstance(m, dict):
        m = "\x01nonstr"            # any name that is not registered
    return "(CTuple2 %s %s)" % (zstr(m), coq_level(l))


def coq_target(t):
    if t["k"] in ("path", "pathlib"):
        return "(TPath %s)" % zstr(t["name"])
    if t["k"] in ("raw", "bytesio"):
        return "TFileObj"
    return "TInvalid"


def parse_coq(s):
    s = s.replace("%Z", "").replace("%nat", "").replace(";", ",")
    s = re.sub(r"\btrue\b", "True", s)
    s = re.sub(r"\bfalse\b", "False", s)
    return ast.literal_eval(s)


def name_of(codes):
    return "".join(chr(c) for c in codes)


def model_resolve(ctx, cases):
    exprs = []
    for c in cases:
        e = "resolve %s %s" % (coq_form(c["form"]), coq_target(c["target"]))
        exprs.append("(show_res (%s), show_eff (%s))" % (e, e))
    vals = ctx.coq_eval_lines(REQ, DEFS, exprs, name="c03_resolve", shard=300)
    out = []
    for v in vals:
        tag, m, l, (eff_c, eff_l, avail) = parse_coq(v)      # Coq prints ((a, b, c), d) as (a, b, c, d)
        lv = None if l == -100 else l
        if tag == 1:
            out.append({"raise": "ValueError"})
        elif tag == 2:
            out.append({"raise": "other"})
        elif tag == 0:
            out.append({"wf": None, "calls": []})
        else:
            meth = None if tag == 3 else name_of(m)
            eff = name_of(eff_c)
            elv = None if eff_l == -100 else eff_l
            d = {"wf": [meth, lv], "calls": [[eff, elv]]}
            if not avail:
                d["raise"] = "ValueError"      # compressor_file's _check_versions
            out.append(d)
    return out


def impl_view(c, r):
    """the implementation's decision in the model's vocabulary"""
    if r.get("raise") is not None and not r.get("calls"):
        return {"raise": r["raise"] if r["raise"] == "ValueError" else "other"}
    wf = r.get("wf")
    if wf is not None:
        wf = [wf[0] if isinstance(wf[0], str) or wf[0] is None else "?", int(wf[1]) if isinstance(wf[1], bool) else wf[1]]
    d = {"wf": wf, "calls": [[n, int(l) if isinstance(l, bool) else l] for n, l in r.get("calls", [])]}
    if r.get("raise") is not None:
        d["raise"] = r["raise"]
    return d


# ------------------------------------------------------------------ detection cases
def detect_heads(k, rng):
    heads = [b"", b"\x00", b"\x80\x04", b"x", b"Z", b"ZF", b"ZFx", b"B", b"BZ", b"\x1f", b"\x1f\x8b", b"]", b"]\x00",
             b"]q\x00.", b"(lp0\n.", b"\x80\x02]q\x00.", b"N.", b"\x04\x22\x4d", b"\x04\x22\x4d\x18", b"\xfd7zXZ",
             b"\xfd7zX", b"\xfd7zXY", b"x\x9c", b"x\x01zzzz", b"ZFBZ", b"BZZF"]
    for e in k["registry"]:
        p = bytes(e["prefix"])
        for cut in range(len(p) + 1):
            heads.append(p[:cut])
        for i in range(len(p)):
            heads.append(p[:i] + bytes([(p[i] + 1) % 256]) + p[i + 1:])
        heads.append(p + bytes(rng.randrange(256) for _ in range(rng.randrange(0, 9))))
        heads.append(p + bytes(k["zfile_prefix"]))
        heads.append(bytes(k["zfile_prefix"]) + p)
        for e2 in k["registry"]:
            heads.append(p + bytes(e2["prefix"]))
    for _ in range(60):
        heads.append(bytes(rng.randrange(256) for _ in range(rng.randrange(0, 8))))
    seen, out = set(), []
    for h in heads:
        if h not in seen:
            seen.add(h)
            out.append(h)
    return out


# ------------------------------------------------------------------ round-trip cases
def gen_roundtrip(rng, n, k, big):
    avail = [e["name"] for e in k["registry"] if e["avail"]]
    exts = [e["ext"] for e in k["registry"] if e["avail"]]
    cases = []
    sizes = ["tiny"] * 2 + ["small"] * 6 + ["8k"] * 3 + ["64k"] * 2 + (["1m"] if big else [])
    for i in range(n):
        size = rng.choice(sizes)
        proto = rng.choice([0, 1, 2, 3, 4, 5, None, -1, -2])
        if size == "1m" and proto in (0, 1):
            proto = rng.choice([2, 4])
        fk = rng.randrange(7)
        if fk == 0:
            form = {"t": rng.choice(["true", "false", "none"])}
        elif fk == 1:
            form = {"t": "int", "v": rng.randrange(0, 10)}
        elif fk == 2:
            form = {"t": "str", "v": rng.choice(avail)}
        elif fk in (3, 4):
            form = {"t": "tuple", "v": [rng.choice(avail), rng.choice([None, 0, 1, 3, 6, 9, True])]}
        else:
            form = {"t": "int", "v": rng.choice([0, 0, 1, 3])}
        if size == "1m" and form["t"] == "tuple" and form["v"][1] in (6, 9):
            form["v"][1] = 1
        tk = rng.choice(["path", "path", "path", "pathlib", "raw", "bytesio"])
        name = "obj" + rng.choice([".pkl", "", ".joblib", ".dat"] + exts + exts)
        target = {"k": tk}
        c = {"mode": "roundtrip", "seed": rng.randrange(10 ** 9), "size": size, "proto": proto, "form": form,
             "target": target}
        if tk in ("path", "pathlib", "raw"):
            target["name"] = name
            # the file is renamed before loading: misleading extension, or none
            if rng.random() < 0.6:
                c["load_name"] = "renamed" + rng.choice(exts + [".pkl", ""])
        if tk in ("path", "pathlib"):
            c["load_via"] = rng.choice(["path", "fileobj", "pathlib"])
        if tk == "raw" and rng.random() < 0.5:
            c["pre"] = rng.choice([1, 5, 16, 8191])      # peekable file object at a non-zero position
        cases.append(c)
    return cases


CARRIERS = ["tempfile", "fdopen", "fd_open", "pipe", "spooled_mem", "spooled_disk", "noname", "bytesname", "unbuffered",
            "bytesio", "zlibfile_w", "gzipfile_w", "zlibfile_r", "gzipfile_r"]
JOBLIB_FILE_CARRIERS = ("zlibfile_w", "gzipfile_w", "zlibfile_r", "gzipfile_r")
N_TINY = 13


def gen_tiny(k):
    """pickles of 2..12 bytes (None, True, False, (), 0, 1, "", b"", [], {}, ...) are shorter than the longest magic
    number: every tiny object x every protocol x every carrier without peek() (and two with), stored uncompressed,
    plus every compressor once"""
    cases = []
    for t in range(N_TINY):
        for proto in (0, 1, 2, 3, 4, 5):
            for car in ("bytesio", "noname", "unbuffered", "spooled_mem", "tempfile", "pipe") + JOBLIB_FILE_CARRIERS:
                cases.append({"mode": "roundtrip", "seed": 0, "size": {"tiny": t}, "proto": proto,
                              "form": {"t": "int", "v": 0}, "carrier": car})
        for e in k["registry"]:
            if e["avail"]:
                cases.append({"mode": "roundtrip", "seed": 0, "size": {"tiny": t}, "proto": None,
                              "form": {"t": "str", "v": e["name"]}, "carrier": "bytesio"})
    return cases


def gen_carriers(rng, n, k):
    """every sampled (object, compressor, protocol) goes through EVERY kind of open file object: TemporaryFile
    (.name is the fd), os.fdopen / open(fd), a pipe pair written from a thread (not seekable), SpooledTemporaryFile
    in memory (.name None) and rolled over, an object with read/seek but no name, a file opened by a bytes path"""
    avail = [e["name"] for e in k["registry"] if e["avail"]]
    cases = []
    for _ in range(n):
        fk = rng.randrange(4)
        if fk == 0:
            form = {"t": "int", "v": rng.choice([0, 0, 1, 3, 9])}
        elif fk == 1:
            form = {"t": "str", "v": rng.choice(avail)}
        elif fk == 2:
            form = {"t": "tuple", "v": [rng.choice(avail), rng.choice([None, 1, 2, 6])]}
        else:
            form = {"t": rng.choice(["true", "false"])}
        base = {"mode": "roundtrip", "seed": rng.randrange(10 ** 9), "size": rng.choice(["tiny", "small", "small", "8k", "64k"]),
                "proto": rng.choice([0, 1, 2, 3, 4, 5, None, -1]), "form": form}
        for car in CARRIERS:
            cases.append(dict(base, carrier=car))
    return cases


def gen_compressible(rng, n, with_lists=False):
    """several MiB of one repeated value x zlib / gzip at levels 4, 7, 9 (a single 8 KiB block of the compressed
    file then inflates to MiBs) x targets and carriers"""
    cases = []
    for i in range(n):
        kind = ["bytes", "bytearray", "str", "bytes", "str", "bytearray"][i % 6]
        if with_lists and i % 10 == 9:
            kind = "list"                      # a million pickled zeros: slow in the pure-Python pickler, thorough tier only
        codec = rng.choice(["zlib", "gzip"])
        lvl = [4, 7, 9][i % 3]
        form = rng.choice([{"t": "tuple", "v": [codec, lvl]}, {"t": "tuple", "v": [codec, lvl]}, {"t": "int", "v": lvl}])
        c = {"mode": "roundtrip", "seed": rng.randrange(10 ** 9), "size": {"zeros": kind, "mib": rng.choice([5, 6, 8])},
             "proto": rng.choice([2, 3, 4, 5, None, -1]), "form": form}
        way = rng.choice(["path", "pathlib", "raw", "bytesio", "tempfile", "pipe", "noname", "unbuffered", "fdopen"])
        if way in ("path", "pathlib", "raw", "bytesio"):
            c["target"] = {"k": way}
            if way != "bytesio":
                c["target"]["name"] = "zeros" + rng.choice([".pkl", ".gz", ".z", ""])
            if way in ("path", "pathlib"):
                c["load_via"] = rng.choice(["path", "fileobj", "pathlib"])
        else:
            c["carrier"] = way
        cases.append(c)
    return cases


def judge_roundtrip(c, r):
    if "harness_error" in r:
        return "harness error " + r["harness_error"] + " " + r.get("tb", "")
    if "unpicklable" in r:
        return None                      # pickle.dumps itself refuses the object: outside the property
    bad = stream_state_failure(c, r)
    if bad:
        return bad
    form_txt = describe_form(c["form"])
    if c.get("carrier") in JOBLIB_FILE_CARRIERS:     # the given form is not used: the file object decides
        form_txt = "0, written through the open file object" if c["carrier"].endswith("_w") else "the file object's codec"
    what = "load(dump(%s, protocol=%s, compress=%s) via %s)" % (
        r.get("obj_repr", "x"), c.get("proto"), form_txt, c.get("carrier") or c["target"]["k"])
    if "dump_raise" in r:
        return what + ": dump raised " + r["dump_raise"]
    if "load_raise" in r:
        return what + " raised " + r["load_raise"]
    if r.get("diff"):
        return what + " differs from x: " + r["diff"]
    return None


def describe_form(f):
    t = f["t"]
    if t in ("true", "false", "none"):
        return {"true": "True", "false": "False", "none": "None"}[t]
    if t in ("int", "str"):
        return repr(f["v"])
    return repr(tuple(f["v"])) if t == "tuple" else "tuple of length %d" % f["n"]


# ------------------------------------------------------------------ load(): the dispatch matrix (shared with C19)
LOAD_FORMS = [{"t": "int", "v": 0}, {"t": "int", "v": 3}, {"t": "str", "v": "gzip"}, {"t": "str", "v": "bz2"},
              {"t": "str", "v": "lzma"}, {"t": "str", "v": "xz"}]
SRC_COQ = {"path": "SPath", "pathlib": "SPath", "rawfile": "SRawFile", "bytesio": "SBytesIO", "other": "SOtherObj"}
NA_COQ = {"auto": "NAuto", "True": "NTrue", "False": "NFalse"}
LOAD_DEFS = """Definition warn_code (w : warn) : Z := match w with WNone => 0 | WBytesIO => 1 | WCompressed => 2 | WNotRaw => 3 end.
Definition show_plan (r : result load_plan) : Z * bool * bool * Z :=
  match r with
  | Raise ValueError => (1, false, false, 0) | Raise _ => (2, false, false, 0)
  | Ok p => (0, lp_mmap p, lp_native p, warn_code (lp_warn p))
  end."""
WARN_NAMES = {0: [], 1: ["bytesio"], 2: ["compressed"], 3: ["notraw"]}


def load_documented(src, mm, na, codec):
    """joblib.load's documentation, independent of the model: outcome for one combination"""
    native = (mm is None) if na == "auto" else bool(na)
    if native and mm is not None:
        return {"raise": "ValueError"}
    warn = []
    if mm is not None:
        if codec != "plain":
            warn = ["compressed"]          # "This mode has no effect for compressed files"
        elif src == "bytesio":
            warn = ["bytesio"]
        elif src == "other":
            warn = ["notraw"]
    return {"warn": warn, "memmap": mm is not None and codec == "plain" and src in ("path", "pathlib"), "native": native}


def load_matrix_check(ctx, mat_cases, mat_res, k, payload_kind):
    """returns (oracle failures, disagreements, n_model) for loadmatrix results"""
    fails, dis = [], []
    exprs, meta = [], []
    for c, r in zip(mat_cases, mat_res):
        if "harness_error" in r:
            fails.append(("the load() matrix for compress=%r could not be run: %s %s" % (c["form"], r["harness_error"],
                                                                                     r.get("tb", "")[-300:]), c, r))
            continue
        exp_codec = documented(c["form"] if isinstance(c["form"], dict) else form_of(c["form"]), {"k": "path", "name": "f.bin"}, k)
        codec = "plain" if exp_codec[0] == "plain" else exp_codec[0]
        for x in r["res"]:
            doc = load_documented(x["src"], x["mmap"], x["native"], codec)
            what = None
            if "raise" in doc or "raise" in x:
                if doc.get("raise") != x.get("raise"):
                    what = "load should %s, it %s" % ("raise " + doc["raise"] if "raise" in doc else "succeed",
                                                      "raised " + x["raise"] if "raise" in x else "succeeded")
            else:
                if not x.get("ok"):
                    what = "load gave another value back"
                elif x.get("warn") != doc["warn"]:
                    what = "warnings %s, documented %s" % (x.get("warn"), doc["warn"])
                elif payload_kind == "array" and x.get("memmap") != doc["memmap"]:
                    what = "memory-mapped: %s, documented %s" % (x.get("memmap"), doc["memmap"])
                elif payload_kind == "array" and not doc["memmap"] and x.get("native_applied") != doc["native"]:
                    what = "byte order coerced: %s, documented %s" % (x.get("native_applied"), doc["native"])
                elif payload_kind == "object" and x.get("memmap"):
                    what = "an object array came back memory-mapped"
            if what:
                fails.append(("load(%s, mmap_mode=%r, ensure_native_byte_order=%r) of a %s file: %s"
                              % (x["src"], x["mmap"], x["native"], codec, what),
                              dict(c, only={"src": x["src"], "mmap": x["mmap"], "native": x["native"]}), x))
            kind = "KPlain" if codec == "plain" else "(KCodec %s)" % zstr(codec)
            exprs.append("show_plan (load_decide %s %s %s %s)" % (SRC_COQ[x["src"]], "true" if x["mmap"] is not None else "false",
                                                                NA_COQ[str(x["native"])], kind))
            meta.append((c, x))
    uniq = sorted(set(exprs))
    vals = dict(zip(uniq, ctx.coq_eval_lines(REQ, LOAD_DEFS, uniq, name="load_matrix_" + payload_kind, shard=200)))
    for e, (c, x) in zip(exprs, meta):
        tag, mmap, native, w = parse_coq(vals[e])
        if tag != 0:
            m = {"raise": "ValueError" if tag == 1 else "other"}
            i = {"raise": x.get("raise")}
        else:
            m = {"warn": WARN_NAMES[w]}
            i = {"warn": x.get("warn")}
            if payload_kind == "array":
                m["memmap"] = mmap
                i["memmap"] = x.get("memmap")
                if not mmap:
                    m["native"] = native
                    i["native"] = x.get("native_applied")
            i["raise"] = x.get("raise")
            m["raise"] = None
        if m != i:
            dis.append({"function": "load dispatch (load_decide)", "case": dict(c, only=x), "model": m, "impl": i})
    return fails, dis, len(uniq)


def form_of(f):
    if isinstance(f, dict):
        return f
    if f is True:
        return {"t": "true"}
    if f is False or f is None:
        return {"t": "false"} if f is False else {"t": "none"}
    if isinstance(f, int):
        return {"t": "int", "v": f}
    if isinstance(f, str):
        return {"t": "str", "v": f}
    return {"t": "tuple", "v": list(f)}


def lz4_cases():
    """lz4 is not installed: every way of asking for it must raise ValueError"""
    return [{"mode": "resolve", "form": f, "target": t} for f, t in [
        ({"t": "str", "v": "lz4"}, {"k": "bytesio"}), ({"t": "tuple", "v": ["lz4", 3]}, {"k": "path", "name": "a.pkl"}),
        ({"t": "int", "v": 0}, {"k": "path", "name": "a.lz4"}), ({"t": "true"}, {"k": "pathlib", "name": "a.lz4"}),
        ({"t": "int", "v": 5}, {"k": "path", "name": "a.lz4"})]]


def search_failing(ctx, k, n=400):
    """look for a concrete input on which the property (documented table / round trip) fails"""
    fs, ts = forms(k), targets(k)
    cases = [{"mode": "resolve", "form": f, "target": t} for f in fs for t in ts]
    res = run_parallel(cases)
    for c, r in zip(cases, res):
        bad = judge_resolve(c, r, k)
        if bad:
            return bad, c
    rt = gen_tiny(k) + gen_compressible(ctx.rng, 6) + gen_carriers(ctx.rng, 12, k) + gen_roundtrip(ctx.rng, n, k, big=False)
    for c, r in zip(rt, run_parallel(rt)):
        bad = judge_roundtrip(c, r)
        if bad:
            return bad, c
    return None


def run(ctx):
    quick = ctx.tier == "quick"
    trusted = [
        "Coq 8.16.1 kernel (coqc); vm_compute in the table sweeps (256*256 two-byte heads) and the cases evaluation",
        "harness/gen_c03.py prints the live _COMPRESSORS registry / _ZFILE_PREFIX / lz4 flag / constants and "
        "pickletools' opcode table into Gen/C03_Constants.v",
        "Model/Persist.v is a hand model of numpy_pickle.dump / load, _detect_compressor, _write_fileobject "
        "(tied by the full-domain correspondence below); str.endswith / bytes.startswith as list functions",
        "external, as hypotheses of C03_roundtrip_stream: the codecs round-trip and emit their magic; CPython's "
        "pickle round-trips every object and starts a stream as pickle_startb says; BufferedReader.peek returns "
        "at least the requested bytes when the file has them (sampled by the differential run)",
    ]
    # 1. regenerate
    _, changed, k = gen_c03.generate()
    if changed:
        ctx.note("Gen/C03_Constants.v changed: the live registry/constants differ from the last run")
    if k.get("literals_error"):
        ctx.note("literals of dump()/_write_fileobject could not be read off the source (%s); the documented values are used "
                 "and the behavioural tie decides" % k["literals_error"])
    # 2. proofs
    proofs_ok = ctx.standard_proof_stage("C03", search=lambda: search_failing(ctx, k))
    # 3. correspondence: resolve on the full finite domain
    fs, ts = forms(k), targets(k)
    rcases = [{"mode": "resolve", "form": f, "target": t} for f in fs for t in ts]
    corpus_path = os.path.join(common.ROOT, "corpus", "c03.jsonl")
    if os.path.exists(corpus_path):
        rcases = [json.loads(l) for l in open(corpus_path) if l.strip()] + rcases
    rres = run_parallel(rcases)
    oracle_fail, disagreements = [], []
    outcome = {}
    nontrivial = set()
    for c, r in zip(rcases, rres):
        bad = judge_resolve(c, r, k)
        if bad:
            oracle_fail.append((bad, c, r))
        key = "raise" if r.get("raise") else ("plain" if not r.get("calls") else r["calls"][0][0])
        outcome[key] = outcome.get(key, 0) + 1
        if key not in ("plain",):
            nontrivial.add(json.dumps(c, sort_keys=True))
    n_model = 0
    if proofs_ok or os.path.exists(os.path.join(common.COQ, "Model", "Persist.vo")):
        mres = model_resolve(ctx, rcases)
        n_model += len(mres)
        for c, r, m in zip(rcases, rres, mres):
            iv = impl_view(c, r)
            if iv != m:
                disagreements.append({"function": "resolve", "case": c, "model": m, "impl": iv})
        # detection: structured heads, both kinds of file object, at offsets
        heads = detect_heads(k, ctx.rng)
        dcases = []
        for peek in (True, False):
            hs = [{"hex": h.hex(), "pre": (0 if not peek else ctx.rng.choice([0, 0, 3, 17]))} for h in heads]
            dcases.append({"mode": "detect", "peekable": peek, "heads": hs})
        dcases += [{"mode": "detect2", "peekable": True}, {"mode": "detect2", "peekable": False}]
        dres = run_impl_cases(dcases)
        for dc, r in zip(dcases, dres):
            if "harness_error" in r:         # the whole batch could not be run: reported as this case's outcome
                oracle_fail.append(("_detect_compressor could not be exercised: " + r["harness_error"] + " " + r.get("tb", "")[-300:],
                                    dc, r))
                r.setdefault("res", [["raise:harness", -1]] * len(dc.get("heads", [])))
                r.setdefault("hits", [])
        # totality: _detect_compressor must give a verdict for EVERY byte string, on every kind of file object
        for peek, r in ((True, dres[2]), (False, dres[3])):
            bad_hits = [h for h in r["hits"] if str(h[2]).startswith("raise:")]
            if bad_hits:
                b0, b1, nm = bad_hits[0]
                oracle_fail.append(("_detect_compressor raised %s on a %s file object holding the %d bytes %s (%d of the 65536 "
                                    "two-byte files)" % (nm[6:], "peekable" if peek else "non-peekable", 2,
                                                         bytes([b0, b1]).hex(), len(bad_hits)),
                                    {"mode": "detect", "peekable": peek, "heads": [{"hex": bytes([b0, b1]).hex()}]}, [nm, -1]))
        exprs = ["kind_code (detect %d %s)" % (got, zbytes(h)) for h in heads for got in (k["max_prefix_len"], 64)]
        vals = ctx.coq_eval_lines(REQ, DEFS, exprs + ["sweep2"], name="c03_detect", shard=200)
        n_model += len(vals)
        sweep_model = sorted((a, b, "compat" if c == [-1] else name_of(c)) for a, b, c in parse_coq(vals[-1]))
        for peek, r in ((True, dres[2]), (False, dres[3])):
            sweep_impl = sorted((a, b, n) for a, b, n in r["hits"])
            if sweep_impl != sweep_model:
                diff = sorted(set(sweep_impl) ^ set(sweep_model))[:5]
                disagreements.append({"function": "_detect_compressor (two-byte sweep, peekable=%s)" % peek,
                                      "case": {"mode": "detect2"}, "model": "%d hits" % len(sweep_model),
                                      "impl": "%d hits, first differences %s" % (len(sweep_impl), diff)})
        for i, h in enumerate(heads):
            mk = [parse_coq(vals[2 * i]), parse_coq(vals[2 * i + 1])]
            names = ["not-compressed" if v == [] else ("compat" if v == [-1] else name_of(v)) for v in mk]
            for peek, r in ((True, dres[0]), (False, dres[1])):
                got_name, pos_after = r["res"][i]
                pre = dcases[0 if peek else 1]["heads"][i]["pre"]
                want_pos = pre if peek else 0          # model: pos_after_detect
                if got_name != names[0] or got_name != names[1] or pos_after != want_pos:
                    disagreements.append({"function": "_detect_compressor", "case": {"head": h.hex(), "peekable": peek,
                                                                                   "pre": pre},
                                          "model": [names, want_pos], "impl": [got_name, pos_after]})
            for peek, r in ((True, dres[0]), (False, dres[1])):
                if str(r["res"][i][0]).startswith("raise:") and r["res"][i][0] != "raise:harness":
                    oracle_fail.append(("_detect_compressor raised %s on a %s file object holding the %d bytes %s"
                                        % (r["res"][i][0][6:], "peekable" if peek else "non-peekable", len(h), h.hex()),
                                        {"mode": "detect", "peekable": peek, "heads": [{"hex": h.hex()}]}, r["res"][i]))
            # oracle on detection: a stream that starts with a registered magic is that codec, whatever follows
            for e in k["registry"]:
                if h.startswith(bytes(e["prefix"])) and dres[0]["res"][i][0] != e["name"]:
                    oracle_fail.append(("a stream starting with the %s magic is detected as %s"
                                        % (e["name"], dres[0]["res"][i][0]),
                                        {"mode": "detect", "peekable": True, "heads": [{"hex": h.hex()}]}, dres[0]["res"][i]))
    # 3b. load(): the dispatch matrix (5 source kinds x 5 mmap modes x 3 ensure_native values x 6 compress forms)
    mat = [{"mode": "loadmatrix", "form": f} for f in LOAD_FORMS]
    mat_res = run_impl_cases(mat)
    if os.path.exists(os.path.join(common.COQ, "Model", "Persist.vo")):
        lf, ld, ln = load_matrix_check(ctx, mat, mat_res, k, "plain")
        for what, c, x in lf:
            oracle_fail.append((what, c, x))
        disagreements.extend(ld)
        n_model += ln
    # 4. differential round trip of object graphs
    n_rt = 260 if quick else 3000
    n_car = 30 if quick else 300
    rt = (gen_roundtrip(ctx.rng, n_rt, k, big=True) + gen_carriers(ctx.rng, n_car, k) + gen_tiny(k)
          + gen_compressible(ctx.rng, 9 if quick else 60, with_lists=not quick) + lz4_cases())
    rtres = run_parallel(rt)
    kinds = {}
    size_dist, proto_dist, target_dist, codec_dist = {}, {}, {}, {}
    head_exprs, head_idx = [], []
    unpicklable = 0
    name_types = {}
    for i, (c, r) in enumerate(zip(rt, rtres)):
        if c["mode"] == "resolve":
            bad = judge_resolve(c, r, k)
            if bad:
                oracle_fail.append((bad, c, r))
            continue
        bad = judge_roundtrip(c, r)
        if bad:
            oracle_fail.append((bad, c, r))
            continue
        if "unpicklable" in r:
            unpicklable += 1
            continue
        for kk, v in r.get("kinds", {}).items():
            kinds[kk] = kinds.get(kk, 0) + v
        skey = ("tiny" if "tiny" in c["size"] else "compressible") if isinstance(c["size"], dict) else c["size"]
        size_dist[skey] = size_dist.get(skey, 0) + 1
        proto_dist[str(c["proto"])] = proto_dist.get(str(c["proto"]), 0) + 1
        tkind = c.get("carrier") or c["target"]["k"]
        target_dist[tkind] = target_dist.get(tkind, 0) + 1
        if c.get("carrier"):
            name_types[r.get("name_type")] = name_types.get(r.get("name_type"), 0) + 1
        if r.get("kinds", {}).get("shared") or r.get("kinds", {}).get("recursive"):
            nontrivial.add(json.dumps(c, sort_keys=True))
        if "head" not in r:          # a pipe: the written bytes cannot be looked at again
            continue
        head_exprs.append("(kind_code (detect %d %s), pickle_startb %s)" % (
            k["max_prefix_len"], zbytes(bytes.fromhex(r["head"])), zbytes(bytes.fromhex(r["plain_head"]))))
        head_idx.append(i)
    if head_exprs and os.path.exists(os.path.join(common.COQ, "Model", "Persist.vo")):
        vals = ctx.coq_eval_lines(REQ, DEFS, head_exprs, name="c03_heads", shard=300)
        n_model += len(vals)
        for i, v in zip(head_idx, vals):
            kc, ps = parse_coq(v)
            c, r = rt[i], rtres[i]
            tspec = {"k": "raw"} if c.get("carrier") else {"k": c["target"]["k"], "name": c["target"].get("name", "")}
            exp = documented(c["form"], tspec, k)
            if c.get("carrier") in JOBLIB_FILE_CARRIERS:       # the file on disk is the file object's own format
                exp = ("zlib" if c["carrier"].startswith("zlib") else "gzip", 3)
            want = [] if exp[0] == "plain" else [ord(ch) for ch in exp[0]]
            codec_dist[exp[0]] = codec_dist.get(exp[0], 0) + 1
            if kc != want:
                disagreements.append({"function": "detect on the real file head", "case": c,
                                      "model": kc, "impl": "written with %s, head %s" % (exp[0], r["head"])})
            if not ps:
                disagreements.append({"function": "pickle_startb (hypothesis on CPython's pickler)", "case": c,
                                      "model": "pickle_startb = false", "impl": "payload head " + r["plain_head"]})
    # 4b. numpy leg (interpreter common.PYNP): arrays are picklable objects too -- records mixing byte orders, nested and
    # sub-array fields, object fields, and MiBs of zeros under zlib/gzip 4/7/9, through the C19 implementation driver
    np_cases, np_fail = [], 0
    try:
        from props import c19 as c19mod          # lazy: c19 imports this module
        mixed = [d for d in c19mod.DTYPES if isinstance(d, list) and not c19mod.is_object(d)]
        for i in range(24 if quick else 240):
            np_cases.append({"mode": "array", "seed": ctx.rng.randrange(10 ** 9), "dtype": ctx.rng.choice(mixed),
                             "shape": ctx.rng.choice([[5], [3, 4], [2, 3, 2], [1]]), "layout": ctx.rng.choice(["C", "F", "strided", "T"]),
                             "target": ctx.rng.choice(["path", "raw", "bytesio"]), "form": ctx.rng.choice(c19mod.FORMS),
                             "proto": ctx.rng.choice([None, 2, 4, 5, -1, -2]), "filler": ctx.rng.choice([0, 5, 17]),
                             "nested": ctx.rng.random() < 0.5, "ensure_native": ["auto", True, False][i % 3],
                             "load_via": ctx.rng.choice(["path", "fileobj"])})
            if i % 4 == 3:       # joblib's own file objects as dump TARGETS, loaded back through every route
                np_cases[-1].update(target=["zlibfile", "gzipfile"][(i // 4) % 2], form=0,
                                    load_via=["path", "fileobj", "jfile"][(i // 8) % 3])
        # item sizes around BUFFER_SIZE (just below, equal, just above, several times): one read per item
        bs = k["buffer_size"]
        for dt in ("V%d" % (bs - 1), "V%d" % bs, "V%d" % (bs + 1), "S%d" % (bs + 37856), "<U%d" % (bs // 4 + 4464), "V%d" % (3 * bs)):
            np_cases.append({"mode": "array", "seed": ctx.rng.randrange(10 ** 9), "dtype": dt, "shape": [ctx.rng.choice([1, 2, 3])],
                             "layout": "C", "target": ctx.rng.choice(["path", "raw", "bytesio"]),
                             "form": ctx.rng.choice([0, 0, ["zlib", 1], "gzip"]), "proto": None, "filler": ctx.rng.choice([0, 9]),
                             "nested": False, "ensure_native": "auto", "load_via": ctx.rng.choice(["path", "fileobj"])})
        for dt in ("<f8", ">i4", "u1"):
            for tgt in ("zlibfile", "gzipfile"):
                for via in ("path", "fileobj", "jfile"):
                    np_cases.append({"mode": "array", "seed": ctx.rng.randrange(10 ** 9), "dtype": dt, "shape": [3, 5],
                                     "layout": "C", "target": tgt, "form": 0, "proto": ctx.rng.choice([None, 2, 4, -1]),
                                     "filler": ctx.rng.choice([0, 3, 16]), "nested": ctx.rng.random() < 0.5,
                                     "ensure_native": "auto", "load_via": via})
        np_cases += [c for c in c19mod.gen_big(ctx.rng) if c["layout"] == "zeros"]
        np_res = c19mod.run_parallel(np_cases, workers=6)
        for c, r in zip(np_cases, np_res):
            bad = c19mod.judge_array(c, r, k["alignment"])
            if bad and bad[1] is None:
                np_fail += 1
                oracle_fail.append(("numpy array round trip (%s, ensure_native_byte_order=%r, compress=%r): %s"
                                    % (c["dtype"], c.get("ensure_native"), c.get("form"), bad[0]), dict(c, via="c19_impl"),
                                    {kk: vv for kk, vv in r.items() if kk in ("geom", "diff", "load_raise", "dump_raise")}))
    except FileNotFoundError as e:
        ctx.note("numpy interpreter %s not available, numpy leg skipped: %s" % (common.PYNP, e))
    # decide
    # report up to 4 failing inputs, one per kind of case first (end-to-end round trips before the unit-level ones)
    rank = {"roundtrip": 0, "array": 0, "resolve": 1, "loadmatrix": 2, "detect": 3}
    picked, seen_kinds = [], set()
    for item in sorted(oracle_fail, key=lambda x: rank.get(x[1].get("mode"), 9)):
        tgt = item[1].get("target")
        kind = (item[1].get("mode"), item[1].get("carrier") or (tgt if isinstance(tgt, str) else (tgt or {}).get("k")))
        if kind not in seen_kinds:
            seen_kinds.add(kind)
            picked.append(item)
    for item in oracle_fail:
        if len(picked) >= 4:
            break
        if item not in picked:
            picked.append(item)
    for bad, c, r in picked[:4]:
        if isinstance(r, dict):
            r = {kk: vv for kk, vv in r.items() if kk not in ("bytes", "res", "hits")}
        ctx.violation(bad, {"kind": "oracle", "case": c, "impl": r}, True)
    if disagreements and not oracle_fail:
        hit = search_failing(ctx, k, 400 if quick else 3000)
        if hit:
            ctx.violation(hit[0], {"kind": "model-disagreement+failing-input", "case": hit[1],
                                   "first_disagreement": disagreements[0]}, True)
        else:
            ctx.violation("model and implementation disagree (%d cases): %s" % (len(disagreements),
                                                                               disagreements[0]["function"]),
                          {"kind": "correspondence", "first_disagreement": disagreements[0],
                           "correspondence": "Model/Persist.v resolve/detect vs numpy_pickle.dump / _detect_compressor"},
                          found_input=False)
    if k.get("literals_error") and not ctx.violations:
        # the regenerated part of the model could not be read off the source and no behavioural stage found a failing
        # input: the property is no longer SHOWN to hold for this source
        ctx.violation("source tie lost: %s" % k["literals_error"],
                      {"kind": "translator", "correspondence": "harness/gen_c03.py source_literals (dump / _write_fileobject literals) -> Gen/C03_Constants.v",
                       "detail": k["literals_error"]}, found_input=False)
    ctx.finish({
        "evaluations": len(rcases) + len(rt) + 2 * 65536 + 75 * len(mat) + len(np_cases),
        "load_dispatch_combinations": 75 * len(mat),
        "distinct_nontrivial": len(nontrivial),
        "rule": "resolve: ALL compress forms (bool, None, ints -1..10 and 100, every registered name and unknown ones, "
                "(name, level) for every name x {None, True, False, -1, 0, 1, 3, 9, 10}, tuples of length 0/1/3) x ALL "
                "target kinds and names (every extension, bare extensions, double extensions, look-alikes, pathlib, raw "
                "file, BytesIO, invalid); detect: all 256*256 two-byte heads + structured heads (magic cut / mutated / "
                "with tails / concatenated) on peekable and non-peekable objects; round trip: seeded recursive object "
                "generator. non-trivial = dump compresses or raises (resolve) / graph has shared or recursive references "
                "(round trip); distinct by canonical JSON",
        "samples": [rcases[0], rcases[len(rcases) // 2], rt[0]],
        "traces_validated_against_impl": n_model,
        "model_evaluations": n_model,
        "resolve_domain": {"forms": len(fs), "targets": len(ts), "cases": len(rcases)},
        "resolve_outcomes": outcome,
        "roundtrip_cases": n_rt,
        "carrier_cases": n_car * len(CARRIERS),
        "numpy_leg_cases": len(np_cases),
        "carrier_name_attribute_types": name_types,
        "roundtrip_skipped_not_picklable_by_cpython": unpicklable,
        "roundtrip_object_kinds": kinds,
        "roundtrip_sizes": size_dist, "roundtrip_protocols": proto_dist, "roundtrip_targets": target_dist,
        "roundtrip_codecs": codec_dist,
        "disagreements": len(disagreements),
        "live_registry": [[e["name"], bytes(e["prefix"]).hex(), e["ext"], e["avail"]] for e in k["registry"]],
        "trusted_base": trusted,
        "exhaustive": "resolve and two-byte detection domains are enumerated completely; object round trip is sampled",
    }, assumptions=[
        "codec_roundtrip: decode c (encode c l x) = x for every available codec (zlib/gzip through BinaryZlibFile, bz2, lzma, xz)",
        "codec_magic: every stream a codec writes starts with its registered prefix",
        "pickle_startb: a CPython pickle of protocol 0..5 starts with 0x80+protocol, or with a protocol<=1 opcode "
        "followed (when it takes no argument) by another such opcode",
        "CPython's pickle/unpickle round-trips the object graph (differential only)",
        "peek()/read() hand back at least max_prefix_len bytes when the file has them",
        "a non-peekable file object is loaded from position 0 (_detect_compressor rewinds it)",
    ])


def replay(ctx, path):
    obj = json.load(open(path))
    rep = obj.get("replay", obj)
    c = rep.get("case") or rep.get("input")
    if not c or "mode" not in c:
        print("replay file names a broken proof/correspondence, nothing to execute:", rep.get("kind"))
        return 1
    k = gen_c03.live_constants()
    if c["mode"] == "array":
        from props import c19 as c19mod
        c = {kk: vv for kk, vv in c.items() if kk != "via"}
        r = c19mod.run_impl_cases([c])[0]
        b = c19mod.judge_array(c, r, k["alignment"])
        bad = b[0] if b and b[1] is None else None
        print("replay:", json.dumps(c), "=>", bad or "property holds")
        return 1 if bad else 0
    r = run_impl_cases([c])[0]
    if c["mode"] == "resolve":
        bad = judge_resolve(c, r, k)
    elif c["mode"] == "roundtrip":
        bad = judge_roundtrip(c, r)
    elif c["mode"] == "array":
        pass
    elif c["mode"] == "loadmatrix":
        fails, _, _ = load_matrix_check(ctx, [c], [r], k, "plain")
        only = c.get("only")
        fails = [f for f in fails if not only or all(f[2].get(kk) == vv for kk, vv in only.items())]
        bad = fails[0][0] if fails else None
        r = {"n": len(r["res"])}
    elif c["mode"] == "detect":
        bad = None
        for h, (name, _) in zip(c["heads"], r["res"]):
            if str(name).startswith("raise:"):
                bad = "_detect_compressor raised %s on the bytes %s" % (name[6:], h["hex"])
            for e in k["registry"]:
                if bytes.fromhex(h["hex"]).startswith(bytes(e["prefix"])) and name != e["name"]:
                    bad = "a stream starting with the %s magic is detected as %s" % (e["name"], name)
    else:
        bad = "unknown replay mode"
    r.pop("bytes", None)
    print("replay:", json.dumps(c), "->", json.dumps(r)[:400], "=>", bad or "property holds")
    return 1 if bad else 0
