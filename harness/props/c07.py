"""C07 -- argument canonicalisation (joblib.func_inspect.filter_args) binds exactly as Python does.

1. build Props/C07.vo (theorems about Model/FilterArgs.v) + Print Assumptions;
2. extract the model to OCaml (ocaml/c07/build.sh, ExtrOcamlBasic only) into a fresh directory;
3. EXHAUSTIVE enumeration: every well-formed signature with <= 4 (quick) / <= 5 (thorough) parameters over
   the 5 kinds x default/no default (functions created with exec), plain functions and bound methods, x every
   call shape (0 .. #positional+2 positionals, every subset of the named parameters passed by keyword, 0/1/2
   surplus keywords), plus ignore-list variants of every accepted call, plus a seeded random stream of larger
   signatures (6-8 parameters).  For each case:
     (a) py_bind (the Coq specification)    ==  REALLY CALLING the function  (and inspect.Signature.bind)
     (b) filter_args_model (the Coq model)  ==  joblib.func_inspect.filter_args  (dict or exception class)
     (o) independent oracle: whenever Python accepts the call, filter_args must return the canonical dict of
         Python's own binding.  A deviation is a VIOLATION unless the shape of signature+call falls into one
         of the known classes below (computed from the shape only), which are the refuted theorems of
         Props/C07.v; those are reported as KNOWN-FINDING.
4. the witnesses of the C07_agree_refuted_* theorems are replayed on the implementation.
"""
import itertools
import json
import multiprocessing
import os
import subprocess
import sys
import zlib

sys.path.insert(0, os.path.dirname(os.path.dirname(os.path.abspath(__file__))))
import common  # noqa: E402

PO, PK, VP, KO, VK = range(5)
KIND_COQ = ["PosOnly", "PosOrKw", "VarPos", "KwOnly", "VarKw"]
NAMES = ["b", "d", "f", "h", "j", "l", "n", "p"]  # parameter names by position
SELF_NAME, SELF_VALUE = "s", 999
UNKNOWN = "q"  # a name that is never a parameter
KEYS = ["posonly-dropped", "method-self-name-in-kwargs", "varargs-with-kwonly",
        "kwonly-default-before-required", "default-index-merged"]
WHAT = {
    "posonly-dropped": "signature has a positional-only parameter: filter_args drops it from the key "
                       "(and shifts the following positional arguments)",
    "method-self-name-in-kwargs": "bound method with positional-only self and **kwargs called with a keyword "
                                  "named like self: the keyword overwrites self and is lost from '**'",
    "varargs-with-kwonly": "*args combined with keyword-only parameters and surplus positionals: ValueError",
    "kwonly-default-before-required": "omitted defaulted parameter followed by a required keyword-only one, "
                                      "fewer defaults than remaining names: ValueError",
    "default-index-merged": "omitted defaulted parameter followed by a required keyword-only one: the default "
                            "of an EARLIER parameter is used (index into the merged defaults list)",
}


# keyword NAMES that are not identifiers (legal through f( **{'*': 5} )): among them the two spellings that
# filter_args uses as keys of its result.  All sort before every lowercase letter; codes keep the string order.
ODD_NAMES = {"": -60, " ": -50, " b": -49, "*": -40, "**": -39, "0": -30}
ODD_CODES = {v: k for k, v in ODD_NAMES.items()}
assert sorted(ODD_NAMES) == sorted(ODD_NAMES, key=ODD_NAMES.get)


def code(name):
    """name -> integer of the model; order of integers = order of the strings (single lowercase letters and the
    non-identifier names above)"""
    if name in ODD_NAMES:
        return ODD_NAMES[name]
    assert len(name) == 1 and "a" <= name <= "z", name
    return ord(name) - 96


def uncode(n):
    return ODD_CODES[n] if n in ODD_CODES else chr(n + 96)


# ------------------------------------------------------------------------------------ enumeration
def wf_sigs(maxn):
    """every well-formed signature with <= maxn parameters: list of [kind, name, default|None]"""
    out = []

    def rec(prefix, lastkind, seen_default):
        out.append([list(p) for p in prefix])
        if len(prefix) == maxn:
            return
        i = len(prefix)
        for k in range(5):
            if k < lastkind or lastkind == VK or (k in (VP, VK) and k == lastkind):
                continue
            for hasd in (False, True):
                if k in (VP, VK) and hasd:
                    continue
                if k in (PO, PK) and seen_default and not hasd:
                    continue
                rec(prefix + [[k, NAMES[i], 300 + i if hasd else None]], k,
                    seen_default or (hasd and k in (PO, PK)))
    rec([], -1, False)
    return out


def calls_for(sig, meth):
    npospar = sum(1 for p in sig if p[0] in (PO, PK))
    named = [p[1] for p in sig if p[0] in (PO, PK, KO)]
    extras = [[], ["e"], ["z", "a"]]
    if meth:
        extras.append([SELF_NAME])
    for npos in range(0, npospar + 3):
        for r in range(len(named) + 1):
            for sub in itertools.combinations(named, r):
                for ex in extras:
                    yield [[100 + i for i in range(npos)], [[n, 200 + code(n)] for n in list(sub) + ex], None]


def random_sig(rng, n):
    """a random well-formed signature with n parameters"""
    while True:
        kinds = sorted(rng.choice([PO, PK, PK, VP, KO, KO, VK]) for _ in range(n))
        if kinds.count(VP) > 1 or kinds.count(VK) > 1:
            continue
        sig, seen = [], False
        for i, k in enumerate(kinds):
            hasd = k not in (VP, VK) and rng.random() < 0.5
            if k in (PO, PK):
                hasd = hasd or seen
                seen = seen or hasd
            sig.append([k, NAMES[i], 300 + i if hasd else None])
        return sig


def random_calls(rng, sig, meth, k):
    npospar = sum(1 for p in sig if p[0] in (PO, PK))
    named = [p[1] for p in sig if p[0] in (PO, PK, KO)]
    out = []
    for _ in range(k):
        npos = rng.randint(0, npospar + 1)
        # mostly well-formed calls: keywords for parameters not covered positionally
        rest = [p[1] for p in sig if p[0] in (PO, PK)][npos:] + [p[1] for p in sig if p[0] == KO]
        kwn = [n for n in rest if rng.random() < 0.6]
        if rng.random() < 0.15:
            kwn += [n for n in named if n not in kwn and rng.random() < 0.3]
        kwn += rng.choice([[], [], ["e"], ["z", "a"], [SELF_NAME] if meth else ["a"]])
        rng.shuffle(kwn)
        out.append([[100 + i for i in range(npos)], [[n, 200 + code(n)] for n in kwn], None])
    return out


def full_sig(sig, meth):
    if not meth:
        return sig
    selfkind = PO if (meth == "po" or any(p[0] == PO for p in sig)) else PK
    return [[selfkind, SELF_NAME, None]] + [list(p) for p in sig]


# ----------------------------------------------------------- streams beyond "one fresh function, small ints"
# value codes understood by c07_impl.py: -1 None, -2 False, -3 '', -4 (), an int is itself
# -10 ==everything, -11 ==nothing (NaN-like), -12 comparisons raise, -13 comparisons return an object without a
# truth value (array-like), -14 inspect.Parameter.empty (as an argument only); compared by identity
SPECIAL_VALUES = [-1, 0, -2, -3, 7, -4, -10, -11, -12, -13]
ARG_VALUES = SPECIAL_VALUES + [-14]


def special_defaults(sig, rot):
    """the same signature with falsy/None defaults (pairwise distinct codes)"""
    out, j = [], 0
    for k, nm, d in sig:
        if d is not None:
            d = SPECIAL_VALUES[(j + rot) % len(SPECIAL_VALUES)]
            j += 1
        out.append([k, nm, d])
    return out


def value_stream(rng, sigs):
    """every call shape of every signature, argument values drawn from {None, 0, False, '', 7, ()}:
    all-None, a rotation through the set, and a seeded random choice"""
    groups = []
    for meth in (None, "pk", "po"):
        for si, sig0 in enumerate(sigs):
            if meth and len(sig0) > 2:
                continue
            sig = special_defaults(sig0, si)
            calls = []
            for ci, (pos, kw, _) in enumerate(calls_for(sig, meth)):
                n = len(pos) + len(kw)
                for variant in range(3):
                    if variant == 0:
                        vals = [-1] * n
                    elif variant == 1:
                        vals = [ARG_VALUES[(ci + j) % len(ARG_VALUES)] for j in range(n)]
                    else:
                        vals = [rng.choice(ARG_VALUES) for _ in range(n)]
                    calls.append([vals[:len(pos)], [[k, v] for (k, _), v in zip(kw, vals[len(pos):])], None])
            groups.append({"sig": sig, "meth": meth, "calls": calls, "stream": "values"})
    return groups


def odd_keyword_stream(sigs):
    """functions with **kwargs (with and without *args), plain and as methods: surplus keywords whose NAMES are not
    identifiers -- in particular '*' and '**', the spellings filter_args uses for its own keys -- on every call shape"""
    groups = []
    extras = [["*"], ["**"], ["**", "*"], ["", " "], ["0", " b", "*"]]
    for meth in (None, "pk"):
        for sig in sigs:
            if not any(p[0] == VK for p in sig) or (meth and len(sig) > 2):
                continue
            calls = []
            for pos, kw, _ in calls_for(sig, meth):
                if any(k in ("e", "z", "a", SELF_NAME) for k, _ in kw):
                    continue   # shapes without the ordinary surplus keywords: replaced by the odd ones
                for ex in extras:
                    calls.append([pos, kw + [[n, 200 + code(n)] for n in ex], None])
                calls.append([pos, kw + [["*", 160], ["**", 161]], ["**"]])
            groups.append({"sig": sig, "meth": meth, "calls": calls, "stream": "odd-keyword-names"})
    return groups


def hostile_stream(sigs):
    """argument values whose __repr__/__str__ raise (-15) or are counted (-16), on every call shape of small
    signatures, plain and as methods, without an ignore list and ignoring a parameter that holds such a value;
    and the ways a caller can hand over the positional arguments: fresh list, range, and ONE list object reused
    for consecutive calls (same receiver twice; for `share` families: several receivers)"""
    groups = []
    for meth in (None, "pk", "po"):
        for sig in sigs:
            if len(sig) > (1 if meth else 2):
                continue
            named = [p[1] for p in sig if p[0] in (PK, KO)]
            calls = []
            for ci, (pos, kw, _) in enumerate(calls_for(sig, meth)):
                for base in (-15, -16):
                    vals = [base if (ci + j) % 3 else (-31 - base) for j in range(len(pos) + len(kw))]  # mix -15/-16
                    c = [vals[:len(pos)], [[k, v] for (k, _), v in zip(kw, vals[len(pos):])]]
                    calls.append(c + [None])
                    if named:
                        calls.append(c + [[named[0]]])
                    if any(p[0] == VP for p in sig):
                        calls.append(c + [["*"]])
            groups.append({"sig": sig, "meth": meth, "calls": calls, "stream": "hostile-repr"})
            for mode in ("list", "range", "shared_list"):
                calls = []
                for pos, kw, _ in calls_for(sig, meth):
                    if any(k in ("z", "a") for k, _ in kw):
                        continue
                    calls += [[pos, kw, None]] * (2 if mode == "shared_list" else 1)
                groups.append({"sig": sig, "meth": meth, "args_as": mode, "calls": calls, "stream": "args-sequences"})
            if meth == "pk" and any(p[0] in (PO, PK, KO) for p in sig):
                fam = [sig, with_defaults(sig, "all", 400), with_defaults(sig, "shift", 500)]
                calls = []
                for pos, kw, _ in calls_for(sig, meth):
                    if not any(k in ("z", "a") for k, _ in kw):
                        calls += [[pos, kw, None, 0], [pos, kw, None, 1], [pos, kw, None, 2], [pos, kw, None, 0]]
                groups.append({"sig": sig, "meth": meth, "args_as": "shared_list", "family": {"kind": "share", "sigs": fam},
                               "calls": calls, "stream": "args-sequences"})
    return groups


RECEIVERS = ["repr_raises", "repr_counts", "falsy_bool", "len0", "bool_raises", "eq_all", "emptylist", "emptydict", "zero", "slots", "classmethod"]


def receiver_stream(sigs):
    """bound methods whose receiver has a non-standard truth value / equality, is an instance of a class with
    __slots__, or is the class itself (bound classmethod); every call shape, without and with ignore=[self]"""
    groups = []
    for recv in RECEIVERS:
        for meth in ("pk", "po"):
            for sig in sigs:
                if len(sig) > (2 if meth == "pk" else 1):
                    continue
                calls = []
                for pos, kw, _ in calls_for(sig, meth):
                    calls.append([pos, kw, None])
                    if not kw and len(pos) <= 1:
                        calls.append([pos, kw, [SELF_NAME]])
                groups.append({"sig": sig, "meth": meth, "receiver": recv, "calls": calls, "stream": "receivers"})
    return groups


def with_defaults(sig, mode, base):
    """same kinds and names, other defaults (what another function object on the same code can have)"""
    out = []
    for i, (k, nm, d) in enumerate(sig):
        if k in (VP, VK):
            out.append([k, nm, None])
        elif mode == "all":
            out.append([k, nm, base + i])
        elif mode == "none":
            out.append([k, nm, None])
        else:  # "shift": same parameters defaulted, other values
            out.append([k, nm, None if d is None else base + i])
    return out


def share_families(sigs):
    """functions sharing ONE code object but not their defaults, canonicalised alternately in one interpreter"""
    groups = []
    for meth in (None, "pk"):
        for sig in sigs:
            if not any(p[0] in (PO, PK, KO) for p in sig) or (meth and len(sig) > 2):
                continue
            fam = [sig, with_defaults(sig, "all", 400), with_defaults(sig, "none", 0), with_defaults(sig, "shift", 500)]
            calls = []
            for pos, kw, _ in calls_for(sig, meth):
                for idx in (0, 1, 2, 3):  # the next shape starts with f0 again: f3 -> f0 is covered too
                    calls.append([pos, kw, None, idx])
            groups.append({"sig": sig, "meth": meth, "family": {"kind": "share", "sigs": fam}, "calls": calls,
                           "stream": "shared-code"})
    return groups


def wraps_families(rng, sigs):
    """different functions -- and METHODS -- behind functools.wraps decorators (four wrapper signatures, see
    c07_impl.DECORATORS: the wrappers' own variable names 'b' / 'd' coincide with generated parameter names),
    canonicalised alternately; bound methods also with ignore=[receiver name]"""
    groups = []
    for meth in (None, "pk", "po"):
        pool = [sg for sg in sigs if not meth or len(sg) <= 2]
        n = len(pool)
        for i, sig in enumerate(pool):
            fam = [sig, pool[(7 * i + 3) % n], pool[rng.randrange(n)]]
            shapes = []
            for sg in fam:
                for pos, kw, _ in calls_for(sg, meth):
                    if len(kw) <= 2 and not any(k in ("z", "a") for k, _ in kw):
                        shapes.append((pos, kw))
            calls = []
            for pos, kw in shapes[:60]:
                for idx in (0, 1, 2):
                    calls.append([pos, kw, None, idx])
                    if meth and not kw:
                        calls.append([pos, kw, [SELF_NAME], idx])
            wrappers = [i % 4, (i + 1) % 4, (i + 2) % 4] if meth else [0, 0, 0] if i % 2 == 0 else [1, 3, 0]
            groups.append({"sig": sig, "meth": meth, "family": {"kind": "wraps", "sigs": fam, "wrappers": wrappers},
                           "calls": calls, "stream": "wraps"})
    return groups


# ------------------------------------------------------------------- independent oracle, classes
def canon_py(fsig, real):
    """canonical dict of Python's OWN binding (the result of really calling the function)"""
    out = {}
    for k, nm, _ in fsig:
        if k == VP:
            out["*"] = list(real[nm])
        elif k == VK:
            out["**"] = dict(real[nm])
        else:
            out[nm] = real[nm]
    return out


def classify(sig, meth, pos, kw):
    """Known deviation classes, computed from the SHAPE of signature and call only (never from a result).
    Returns the list of applicable keys, most specific cause first; [] = the code must be right."""
    kwd = dict((k, v) for k, v in kw)
    if any(p[0] == PO for p in sig):
        return ["posonly-dropped"]
    keys = []
    if meth and SELF_NAME in kwd:
        keys.append("method-self-name-in-kwargs")
    named = [p for p in sig if p[0] in (PK, KO)]
    npk = sum(1 for p in sig if p[0] == PK)
    if any(p[0] == VP for p in sig) and any(p[0] == KO for p in sig) and len(pos) > npk:
        keys.append("varargs-with-kwonly")
        return keys
    ndef = sum(1 for p in sig if p[2] is not None)
    for i, p in enumerate(named):
        if i < len(pos) or p[1] in kwd:
            continue
        later = named[i:]
        if all(q[2] is not None for q in later):
            continue
        keys.append("kwonly-default-before-required" if ndef < len(later) else "default-index-merged")
        break
    return keys


def oracle(sig, meth, pos, kw, ign, r):
    """Judge ONE implementation result by Python's own binding.  Returns None (holds / not applicable)
    or a description of the failure."""
    real = r["real"]
    if real is None:
        return None  # Python rejects the call: the property says nothing
    exp = canon_py(full_sig(sig, meth), real)
    if ign:
        if len(set(ign)) != len(ign) or any(k not in exp for k in ign):
            # not a removal of existing names: the documented outcome is ValueError
            return None if r["fa"].get("raise") == "ValueError" else \
                "ignore list %s names a missing/duplicate key, expected ValueError, got %s" % (ign, r["fa"])
        exp = {k: v for k, v in exp.items() if k not in ign}
    if r["fa"].get("ok") == exp:
        # the result is right; two more things a caller can observe on a valid call
        if r["fa"].get("args_modified"):
            return "filter_args modified the caller's sequence of positional arguments"
        if r["fa"].get("repr_calls"):
            return "filter_args called repr()/str() of an argument or of the receiver %d times on a valid call" % \
                r["fa"]["repr_calls"]
        return None
    txt = "filter_args gives %s, Python binds %s" % (json.dumps(r["fa"].get("ok", r["fa"])), json.dumps(exp))
    if any(v < 0 for v in list(pos) + [v for _, v in kw]) or any((p[2] or 0) < 0 for p in sig):
        txt += ("  (value codes: -1 None, -2 False, -3 '', -4 (), -10 object equal to everything, -11 object equal "
                "to nothing, -12 comparisons raise, -13 comparisons have no truth value, -14 Parameter.empty, "
                "-15 repr/str raise, -16 repr/str counted)")
    return txt


# ------------------------------------------------------------------------------- model encoding
def driver_line(sig, meth, pos, kw, ign):
    fs = full_sig(sig, meth)
    t = [1 if meth else 0, fs[0][0] if meth else 0, code(SELF_NAME), SELF_VALUE, len(sig)]
    for k, nm, d in sig:
        t += [k, code(nm), 0 if d is None else 1, 0 if d is None else d]
    t.append(len(pos))
    t += pos
    t.append(len(kw))
    for n, v in kw:
        t += [code(n), v]
    ign = ign or []
    t.append(len(ign))
    t += [-1 if k == "*" else -2 if k == "**" else code(k) for k in ign]
    return " ".join(map(str, t))


def coq_sig(sig):
    return common.coq_list("mkParam %s %d %s" % (KIND_COQ[k], code(nm), "None" if d is None else "(Some %s)" % common.zlit(d))
                           for k, nm, d in sig)


def coq_call(pos, kw):
    return "(mkCall %s %s)" % (common.coq_list(map(common.zlit, pos)),
                               common.coq_list("(%s, %s)" % (common.zlit(code(n)), common.zlit(v)) for n, v in kw))


def coq_expr(sig, meth, pos, kw, ign):
    fs = full_sig(sig, meth)
    fpos = ([SELF_VALUE] + pos) if meth else pos
    ik = common.coq_list("KStar" if k == "*" else "KStarStar" if k == "**" else "KName %d" % code(k) for k in (ign or []))
    m = "(Some (%d, %d))" % (code(SELF_NAME), SELF_VALUE) if meth else "None"
    return "run_case %s %s %s %s %s %s" % (coq_sig(fs), coq_call(fpos, kw), coq_sig(sig), ik, m, coq_call(pos, kw))


REQ = """From Coq Require Import ZArith List Bool.
Require Import JV.Base.PyPrelude JV.Model.FilterArgs JV.Model.FilterArgsEnc.
Import ListNotations. Open Scope Z_scope."""


def av(x):
    if "o" in x:
        return x["o"]
    if "t" in x:
        return list(x["t"])
    return {uncode(k): v for k, v in x["d"]}


def model_binding(m):
    return None if m["bind"] is None else {uncode(n): av(x) for n, x in m["bind"]}


def model_adict(lst):
    return {(k if isinstance(k, str) else uncode(k)): av(x) for k, x in lst}


def model_fa(m):
    if "raise" in m["fa"]:
        return {"raise": m["fa"]["raise"]}
    return {"ok": model_adict(m["fa"]["ok"])}


# ----------------------------------------------------------------------------------- one shard
def run_impl_groups(groups, timeout=3000):
    rc, out, err = common.run_impl("c07_impl.py", input_text="\n".join(json.dumps(g) for g in groups) + "\n",
                                   timeout=timeout)
    lines = [json.loads(l) for l in out.splitlines() if l.strip()]
    if len(lines) != len(groups):
        raise RuntimeError("c07_impl produced %d results for %d groups: %s" % (len(lines), len(groups), err[-2000:]))
    for ln in lines:
        if "harness_error" in ln:
            raise RuntimeError("c07_impl: " + ln["harness_error"])
    return lines


def run_driver(driver, lines):
    p = subprocess.run([driver], input="\n".join(lines) + "\n", stdout=subprocess.PIPE, stderr=subprocess.PIPE,
                       text=True, timeout=3000)
    out = [json.loads(l) for l in p.stdout.splitlines() if l.strip()]
    if p.returncode != 0 or len(out) != len(lines):
        raise RuntimeError("c07_driver: rc=%s, %d results for %d cases: %s" % (p.returncode, len(out), len(lines),
                                                                                p.stderr[-1000:]))
    return out


def ignore_variants(exp_keys):
    """ignore lists tried on an accepted call whose canonical dict has these keys"""
    ks = list(exp_keys)
    out = [[k] for k in ks]
    if len(ks) > 1:
        out.append(ks)
        out.append(list(reversed(ks))[:2])
    out.append([UNKNOWN])
    if ks:
        out.append([ks[0], ks[0]])
        out.append([ks[-1], UNKNOWN])
    return out


def case_sig(g, c):
    """signature of the function a call of a group goes to"""
    fam = g.get("family")
    return fam["sigs"][c[3]] if fam else g["sig"]


def case_src(r, c):
    return r["srcs"][c[3]] if len(c) > 3 and "srcs" in r else r["src"]


def case_obj(sig, meth, pos, kw, ign):
    return {"sig": sig, "meth": meth, "pos": pos, "kw": kw, "ign": ign}


def case_size(x):
    c = x.get("case", x) if isinstance(x, dict) else {}
    if not isinstance(c, dict) or "sig" not in c:
        return (99, 0, "")
    return (len(c["sig"]) + (1 if c.get("meth") else 0) + len(c.get("ign") or []), len(c["pos"]) + len(c["kw"]),
            json.dumps(c, sort_keys=True))


def shard_worker(job):
    """groups -> implementation, model, judgement.  Runs in a worker process; returns a summary."""
    driver, groups, with_ignore, keep_enc = job
    S = {"cases": 0, "accepted": 0, "groups": len(groups), "spec_bad": [], "insp_bad": [], "model_bad": [],
         "oracle_bad": [], "frag_bad": [], "known": {}, "known_example": {}, "insp_known_anomaly": 0,
         "dist": {}, "nontrivial": 0, "order_same": 0, "order_diff": 0, "samples": [], "enc": [],
         "theorem_instances": 0, "ignore_cases": 0, "wf_bad": [], "rejected_diff": [], "rejected_diff_n": 0}

    def count(k):
        S["dist"][k] = S["dist"].get(k, 0) + 1

    def judge(groups, results):
        lines, index = [], []
        for gi, (g, r) in enumerate(zip(groups, results)):
            for ci, (c, rr) in enumerate(zip(g["calls"], r["res"])):
                lines.append(driver_line(case_sig(g, c), g["meth"], c[0], c[1], c[2]))
                index.append((gi, ci))
        models = run_driver(driver, lines) if lines else []
        for (gi, ci), m in zip(index, models):
            g, r = groups[gi], results[gi]
            call = g["calls"][ci]
            sig, meth = case_sig(g, call), g["meth"]
            pos, kw, ign = call[0], call[1], call[2]
            rr = r["res"][ci]
            co = case_obj(sig, meth, pos, kw, ign)
            if g.get("receiver"):
                co["receiver"] = g["receiver"]
            r = dict(r, src=case_src(r, call))
            if g.get("args_as"):
                co["args_as"] = g["args_as"]
            if g.get("family") or g.get("args_as") == "shared_list":
                # the outcome may depend on what the interpreter canonicalised before: keep the history
                co["group"] = {"meth": meth, "calls": g["calls"][max(0, ci - 11):ci + 1]}
                for k_ in ("family", "args_as", "receiver"):
                    if g.get(k_):
                        co["group"][k_] = g[k_]
            if g.get("family"):
                count("family:" + g["family"]["kind"])
            if g.get("stream"):
                count("stream:" + g["stream"])
            S["cases"] += 1
            if keep_enc and (S["cases"] % keep_enc == 0):
                S["enc"].append((co, m["enc"]))
            if len(S["samples"]) < 3 and S["cases"] % 997 == 1:
                S["samples"].append({"case": co, "src": r["src"], "impl": rr})
            if m["wf"] != 1 or m["wfc"] != 1:
                S["wf_bad"].append(co)
            # (a) specification vs CPython
            mb = model_binding(m)
            if mb != rr["real"]:
                S["spec_bad"].append({"case": co, "src": r["src"], "py_bind": mb, "real_call": rr["real"]})
            if rr["insp"] != rr["real"]:
                # known CPython 3.12 discrepancy: a defaulted positional-only parameter whose NAME is passed by
                # keyword next to **kwargs is accepted by the interpreter but rejected by Signature.bind
                po_names = [p[1] for p in full_sig(sig, meth) if p[0] == PO]
                if rr["insp"] is None and rr["real"] is not None and any(n in dict(map(tuple, kw)) for n in po_names):
                    S["insp_known_anomaly"] += 1
                elif (rr["real"] is None and rr["insp"] is not None and meth and SELF_NAME in dict(map(tuple, kw))):
                    # inspect.signature(bound method) has no `self`: it cannot see the duplicate
                    S["insp_known_anomaly"] += 1
                else:
                    S["insp_bad"].append({"case": co, "src": r["src"], "inspect": rr["insp"], "real_call": rr["real"]})
            # (b) model vs implementation
            mf = model_fa(m)
            fa = {k: v for k, v in rr["fa"].items() if k in ("ok", "raise")}
            if mf != fa:
                if rr["real"] is None:
                    # Python rejects this call: outside the property; reported, not a violation
                    S["rejected_diff_n"] += 1
                    if len(S["rejected_diff"]) < 2:
                        S["rejected_diff"].append({"case": co, "src": r["src"], "model": mf, "impl": fa})
                else:
                    S["model_bad"].append({"case": co, "src": r["src"], "model": mf, "impl": fa})
            elif "ok" in fa:
                morder = [(k if isinstance(k, str) else uncode(k)) for k, _ in m["fa"]["ok"]]
                if morder == rr["fa"]["order"]:
                    S["order_same"] += 1
                else:
                    S["order_diff"] += 1
            count("fa:" + (fa.get("raise") or "dict"))
            if ign is not None:
                S["ignore_cases"] += 1
            # (o) independent oracle
            if rr["real"] is None:
                count("python:rejects")
                continue
            count("python:accepts")
            count("nparams:%d" % len(full_sig(sig, meth)))
            S["accepted"] += 1
            bad = oracle(sig, meth, pos, kw, ign, rr)
            keys = classify(sig, meth, pos, kw)
            if not keys:
                S["nontrivial"] += 1
            if ign is None:
                in_frag = m["frag"] == 1 and not (meth and SELF_NAME in dict(map(tuple, kw)))
                if in_frag != (not keys):
                    S["frag_bad"].append({"case": co, "model_in_fragment": m["frag"], "classes": keys})
                if in_frag:
                    S["theorem_instances"] += 1
                    if m["canon"] is None or {"ok": model_adict(m["canon"])} != mf:
                        S["frag_bad"].append({"case": co, "note": "instance of C07_agree_partial fails in the "
                                                                  "extracted model"})
                if bool(bad) != bool(keys):
                    if bad:
                        S["oracle_bad"].append({"what": bad, "case": co, "src": r["src"], "impl": rr})
                    else:
                        S["model_bad"].append({"case": co, "src": r["src"], "note": "known-deviation class %s "
                                               "no longer deviates" % keys, "model": mf, "impl": fa})
            elif bad and not keys:
                S["oracle_bad"].append({"what": bad, "case": co, "src": r["src"], "impl": rr})
            if bad and keys:
                S["known"][keys[0]] = S["known"].get(keys[0], 0) + 1
                S["known_example"].setdefault(keys[0], {"what": bad, "case": co, "src": r["src"]})
        return models

    results = run_impl_groups(groups)
    judge(groups, results)
    if with_ignore:
        g2 = []
        for g, r in zip(groups, results):
            calls = []
            if g.get("family") or g.get("stream"):
                continue
            fs = full_sig(g["sig"], g["meth"])
            for c, rr in zip(g["calls"], r["res"]):
                if rr["real"] is None:
                    continue
                if with_ignore < 1.0 and (zlib.crc32(json.dumps(c).encode()) % 1000) / 1000.0 >= with_ignore:
                    continue
                keys = list(canon_py(fs, rr["real"]).keys())
                for ig in ignore_variants(keys):
                    calls.append([c[0], c[1], ig])
            if calls:
                g2.append({"sig": g["sig"], "meth": g["meth"], "calls": calls})
        if g2:
            judge(g2, run_impl_groups(g2))
    for k in ("spec_bad", "insp_bad", "model_bad", "oracle_bad", "frag_bad", "wf_bad"):
        S[k + "_n"] = len(S[k])
        S[k] = sorted(S[k], key=case_size)[:3]  # report the smallest inputs
    return S


# ------------------------------------ callables that are not walked: builtins, classes, partials, instances
OPAQUE_CALLS = {
    "len": [[[[1, 2, 3]], {}], [[[1]], {}], [["ab"], {}], [[], {}]],
    "abs": [[[3], {}], [[-3], {}]],
    "sorted": [[[[3, 1]], {}], [[[3, 1]], {"reverse": True}], [[[1, 3]], {}], [[[3, 1]], {"key": None}]],
    "max": [[[1, 2], {}], [[[1, 2]], {}], [[2, 1], {}], [[1, 2], {"key": None}], [[[]], {"default": 0}]],
    "pow": [[[2, 3], {}], [[2, 3, 5], {}], [[3, 2], {}], [[2], {"exp": 3}]],
    "divmod": [[[7, 2], {}], [[2, 7], {}]],
    "print": [[["a"], {}], [["a", "b"], {"sep": "-"}], [[], {}], [["b"], {"end": ""}]],
    "list.count": [[[1], {}], [[2], {}]],
    "str.join": [[[["x", "y"]], {}], [[["y", "x"]], {}]],
    "dict.get": [[["k"], {}], [["z"], {}], [["z", 0], {}]],
    "int": [[["3"], {}], [["11", 2], {}], [["11"], {"base": 2}], [[], {}]],
    "dict": [[[], {"a": 1}], [[[["a", 1]]], {}], [[], {}], [[], {"a": 2}]],
    "KlassWithMethod": [[[], {}]],
    "partial(pyf,1)": [[[2], {}], [[3], {}], [[2], {"c": 3}], [[], {"b": 2}]],
    "partial(len)": [[[[1, 2, 3]], {}], [[[1]], {}]],
    "partial(pow,2)": [[[3], {}], [[4], {}]],
    "partial(bound)": [[[1], {}], [[2], {}]],
    "instance.__call__": [[[1], {}], [[1], {"y": 2}], [[2], {}], [[], {"x": 1}]],
    "pyf": [[[1, 2], {}], [[1, 2, 3], {}]],
    "bound": [[[1], {}]],
}


def opaque_stage(ctx):
    """builtins / classes / partial objects / callable instances: filter_args must succeed on every call Python
    accepts and return a form that contains ALL the arguments (the {'*': args, '**': kwargs} fallback), so that
    different arguments never share a canonical form; which callables take the fallback is the model's
    takes_fallback(inspect.ismethod, inspect.isfunction)."""
    cases = [{"callable": name, "args": a, "kwargs": k} for name, calls in sorted(OPAQUE_CALLS.items()) for a, k in calls]
    rc, out, err = common.run_impl("c07_opaque_impl.py", input_text="\n".join(json.dumps(c) for c in cases) + "\n")
    res = [json.loads(l) for l in out.splitlines() if l.strip()]
    if len(res) != len(cases) or any("harness_error" in r for r in res):
        raise RuntimeError("c07_opaque_impl: %s %s" % (err[-1500:], [r for r in res if "harness_error" in r][:1]))
    tf = ctx.coq_eval_lines(REQ, "", ["takes_fallback %s %s" % (m, f) for m in ("false", "true") for f in ("false", "true")],
                            name="c07_fallback")
    table = {(m, f): v.strip() == "true" for (m, f), v in zip([(a, b) for a in (False, True) for b in (False, True)], tf)}
    n_acc, bad_o, bad_m, forms = 0, [], [], {}
    for c, r in zip(cases, res):
        fallback = table[(r["ismethod"], r["isfunction"])]
        full = {"*": c["args"], "**": c["kwargs"]}
        if fallback and r["fa"] != {"ok": full}:
            (bad_o if r["accepted"] else bad_m).append((c, r))      # the model says: fallback form, always
        if not r["accepted"]:
            continue
        n_acc += 1
        if "ok" not in r["fa"]:
            if fallback:
                continue  # already recorded
            bad_o.append((c, r))
            continue
        # two accepted calls of one callable with different arguments must not share a form
        key = (c["callable"], json.dumps(r["fa"]["ok"], sort_keys=True))
        prev = forms.setdefault(key, c)
        if prev is not c and (prev["args"], prev["kwargs"]) != (c["args"], c["kwargs"]) and fallback:
            bad_o.append((c, dict(r, same_form_as=prev)))
    for c, r in bad_o[:2]:
        ctx.violation("%s(*%s, **%s): Python accepts the call; filter_args gives %s, the canonical form must contain all "
                      "the arguments: %s" % (c["callable"], c["args"], c["kwargs"], json.dumps(r["fa"]),
                                             json.dumps({"*": c["args"], "**": c["kwargs"]})),
                      {"kind": "oracle-opaque", "opaque_case": c, "impl": r}, True)
    if bad_m and not bad_o:
        ctx.note("filter_args differs from the fallback form on %d calls that Python rejects (outside the property)" % len(bad_m))
    return {"opaque_cases": len(cases), "opaque_accepted": n_acc, "opaque_oracle_failures": len(bad_o),
            "opaque_callables": sorted(OPAQUE_CALLS), "takes_fallback_table": {"%s,%s" % k: v for k, v in table.items()}}


# ------------------------------------------------------- get_func_name / func_id (model M2b, Model/FuncName.v)
NAME_MODS = ["pkg.mod", "pkg", "", None, "__main__", "a..b", ".a", "m-x", "__main__.x"]
NAME_NAMES = ["f", "<lambda>", "a.b", "x-y", "/abs", "", "wrapper", None]
NAME_FILES = ["/d/e/f.py", "/a-b/c.py", "/a/b-c.py", "/t/<ipython-input-3-abc>", "/t/<ipython-input-12-abc-x>",
              "/t/<ipython-input", "/t/ipykernel_123456/789.py", "/ipykernel_1/2.py", "/x.py.py", "/my.proj/s.py",
              "/nowhere/z.py", "/p/.py"]
NAME_REQ = """From Coq Require Import ZArith List.
Require Import JV.Model.FuncName.
Import ListNotations. Open Scope Z_scope."""
NAME_WITNESSES = {
    "func-id-module-boundary": [{"module": "pkg.mod", "name": "f", "qualname": "f", "file": "/d/e/f.py"},
                                {"module": "pkg", "name": "f", "qualname": "mod.f", "file": "/d/e/f.py"}],
    "func-id-closure-collision": [{"module": "m", "name": "g", "qualname": "make.<locals>.g", "file": "/d/e/f.py"},
                                  {"module": "m", "name": "g", "qualname": "make.<locals>.g", "file": "/d/e/g.py"}],
    "func-id-main-path-mangling": [{"module": "__main__", "name": "f", "qualname": "f", "file": "/a-b/c.py"},
                                   {"module": "__main__", "name": "f", "qualname": "f", "file": "/a/b-c.py"}],
}
NAME_WHAT = {
    "func-id-module-boundary": "function f of module pkg.mod and method f of class mod in module pkg get the same "
                               "func_id pkg/mod/f (theorem C07_func_id_refuted_module_boundary)",
    "func-id-closure-collision": "get_func_name reads only __module__/__name__/__qualname__: two closures of one "
                                 "factory (two functions behind one decorator without functools.wraps, two lambdas, two "
                                 "partial objects) share the func_id and the source text, so Memory serves one's cached "
                                 "value for the other (theorem C07_func_id_refuted_closure)",
    "func-id-main-path-mangling": "scripts /a-b/c.py and /a/b-c.py run as __main__ get the same func_id: os.sep is "
                                  "mangled to '-' (theorem C07_func_id_refuted_main_path)",
}


def name_cases(rng, n_random):
    cases = []

    def quals(n):
        return [None] if n is None else [n, "K." + n, "deco.<locals>." + n, "mod." + n, n + ".g", "." + n]
    for m in NAME_MODS:
        for n in NAME_NAMES:
            for q in quals(n):
                for fl in (NAME_FILES if m == "__main__" else ["/d/e/f.py"]):
                    cases.append({"module": m, "name": n, "qualname": q, "file": fl})
    alpha = "ab./-<_"

    def rs(k):
        return "".join(rng.choice(alpha) for _ in range(rng.randint(0, k)))
    for _ in range(n_random):
        n = rng.choice([rs(4), "f", "g"])
        q = rng.choice([n, rs(3) + "." + n, rs(5), "a.b." + n])
        m = rng.choice(["__main__", "__main__", rs(6), "p." + rs(3), None])
        fl = "/" + rng.choice(["t/", "ipykernel_77/", "a-b/", ""]) + rng.choice(
            ["<ipython-input-%d-%s>" % (rng.randint(0, 99), rs(4).replace("/", "_")), rs(5).replace("/", "_") + ".py",
             "s.py"])
        cases.append({"module": m, "name": n, "qualname": q, "file": fl})
    return cases


def coq_str(s_):
    return "None" if s_ is None else "(Some %s)" % common.coq_list(str(ord(ch)) for ch in s_)


def name_model(ctx, cases):
    import ast as _ast
    exprs = []
    for c in cases:
        sf = c["file"] if c["name"] is not None else None   # getsourcefile fails for an instance
        exprs.append("let f := mkCallable %s %s %s %s 0 in (get_func_name_model f, func_id_model f)" % (
            coq_str(c["module"]), coq_str(c["name"]), coq_str(c["qualname"]), coq_str(sf)))
    out = []
    for v in ctx.coq_eval_lines(NAME_REQ, "", exprs, name="c07_names"):
        mods, name, fid = _ast.literal_eval(v.replace(";", ",").replace("%Z", ""))
        out.append({"modules": ["".join(map(chr, x)) for x in mods], "name": "".join(map(chr, name)),
                    "func_id": "".join(map(chr, fid))})
    return out


def run_name_impl(cases):
    rc, out, err = common.run_impl("c07_name_impl.py", input_text="\n".join(json.dumps(c) for c in cases) + "\n")
    res = [json.loads(l) for l in out.splitlines() if l.strip()]
    if len(res) != len(cases) or any("harness_error" in r for r in res):
        raise RuntimeError("c07_name_impl: %s %s" % (err[-1500:], [r for r in res if "harness_error" in r][:1]))
    return res


def name_oracle(c, r):
    """independent statement for ordinary callables: the identifier is the dotted path with '/' for '.'"""
    m, n, q = c["module"], c["name"], c["qualname"]
    if m is None or m == "__main__" or n is None or q is None or q.split(".")[-1] != n:
        return None
    segs = (m + "." + q).split(".")
    if any(sg == "" or "/" in sg for sg in segs):
        return None
    exp = "/".join(segs)
    return None if r.get("func_id") == exp else "func_id is %r, the dotted path %s.%s gives %r" % (r.get("func_id"), m, q, exp)


def names_stage(ctx, quick):
    cases = name_cases(ctx.rng, 300 if quick else 3000)
    res = run_name_impl(cases)
    mod = name_model(ctx, cases)
    bad_model = [{"case": c, "impl": r, "model": m} for c, r, m in zip(cases, res, mod) if r != m]
    bad_oracle = [(name_oracle(c, r), c, r) for c, r in zip(cases, res) if name_oracle(c, r)]
    n_ord = sum(1 for c, r in zip(cases, res) if name_oracle(c, {"func_id": None}) is not None)
    for bad, c, r in bad_oracle[:2]:
        ctx.violation("get_func_name/func_id: " + bad, {"kind": "oracle-func-id", "name_case": c, "impl": r}, True)
    if bad_model and not bad_oracle:
        ctx.violation("model and implementation disagree (%d cases): get_func_name_model/func_id_model vs "
                      "joblib.func_inspect.get_func_name + memory._build_func_identifier" % len(bad_model),
                      {"kind": "correspondence", "first_disagreement": bad_model[0]}, found_input=False)
    # witnesses of the refuted injectivity statements, on the implementation
    for key, pair in NAME_WITNESSES.items():
        r1, r2 = run_name_impl(pair)
        extra = ""
        still = r1.get("func_id") is not None and r1.get("func_id") == r2.get("func_id")
        if key == "func-id-closure-collision":
            e2e = run_name_impl([{"mode": "e2e_closures"}])[0]
            still = still and e2e["func_ids"][0] == e2e["func_ids"][1]
            extra = "; end to end: g1 = cache(make(1)), g2 = cache(make(1000)): g1(1) = %s, g2(1) = %s (expected %s)" % (
                e2e["g1(1)"], e2e["g2(1)"], e2e["expected_g2(1)"])
        if still:
            msg = "%s: both get %r%s" % (NAME_WHAT[key], r1["func_id"], extra)
            # func_id collisions are not violations of C07's statement (argument binding); they are the refuted
            # injectivity statements that C02/C12 build on: KNOWN-FINDING when listed, otherwise a note
            if any(k["property"] == ctx.prop and k["kind"] == "known" and k["key"] == key for k in ctx.known):
                ctx.violation(msg, {"kind": "known-finding", "key": key, "name_pair": pair}, True, finding_key=key)
            else:
                ctx.note("refuted func_id injectivity reproduced on the implementation [%s] %s" % (key, msg))
        else:
            ctx.violation("witness of the refuted func_id statement (%s) no longer collides on the implementation: "
                          "the model is stale" % key, {"kind": "stale-witness", "key": key, "impl": [r1, r2]},
                          found_input=False)
    return {"name_cases": len(cases), "name_cases_ordinary_judged_by_oracle": n_ord,
            "name_model_disagreements": len(bad_model), "name_oracle_failures": len(bad_oracle),
            "name_samples": [dict(c, impl=r) for c, r in list(zip(cases, res))[:2]]}


# ------------------------------------------------------------------------------------ witnesses
# the witnesses of Props/C07.v  (C07_agree_refuted_<...>), as implementation cases
WITNESSES = {
    "posonly-dropped": case_obj([[PO, "b", None], [PK, "d", None]], None, [1, 2], [], None),
    "default-index-merged": case_obj([[PK, "b", 1], [PK, "d", 2], [KO, "f", None]], None, [5], [["f", 0]], None),
    "varargs-with-kwonly": case_obj([[PK, "b", None], [VP, "d", None], [KO, "f", None]], None, [1, 2, 3], [["f", 4]], None),
    "kwonly-default-before-required": case_obj([[PK, "b", None], [KO, "d", 1], [KO, "f", None]], None, [0], [["f", 5]], None),
    "method-self-name-in-kwargs": case_obj([[VK, "b", None]], "po", [], [[SELF_NAME, 3]], None),
}


def run_case_on_impl(c):
    if c.get("group"):
        # a call to one of several functions sharing a code object / a decorator: replay the recorded history
        # in one interpreter and judge the last call
        g = dict(c["group"], sig=c["sig"])
        r = run_impl_groups([g])[0]
        return case_src(r, g["calls"][-1]), r["res"][-1]
    g = {"sig": c["sig"], "meth": c["meth"], "calls": [[c["pos"], c["kw"], c["ign"]]]}
    for k_ in ("receiver", "args_as"):
        if c.get(k_):
            g[k_] = c[k_]
    r = run_impl_groups([g])[0]
    return r["src"], r["res"][0]


def search_failing(ctx, maxn=3):
    """implementation + oracle only (no model): first deviation outside the known classes"""
    groups = []
    for meth in (None, "pk", "po"):
        for sig in wf_sigs(maxn):
            groups.append({"sig": sig, "meth": meth, "calls": list(calls_for(sig, meth))})
    for g, r in zip(groups, run_impl_groups(groups)):
        for c, rr in zip(g["calls"], r["res"]):
            bad = oracle(g["sig"], g["meth"], c[0], c[1], c[2], rr)
            if bad and not classify(g["sig"], g["meth"], c[0], c[1]):
                return "%s: %s" % (r["src"], bad), case_obj(g["sig"], g["meth"], c[0], c[1], c[2])
    return None


# ------------------------------------------------------------------------------------------ run
def run(ctx):
    quick = ctx.tier == "quick"
    maxn = 4 if quick else 5
    trusted = [
        "Coq 8.16.1 kernel (coqc); vm_compute in the refuted/Example proofs and in the in-Coq cross-check; no native_compute",
        "extraction (Require Extraction, ExtrOcamlBasic only) + ocaml/c07/driver.ml (parsing/printing, ~70 lines); a "
        "sample of the driver's answers is re-evaluated inside Coq (Model/FilterArgsEnc.run_case) on every run",
        "harness/props/c07.py: enumeration, the name<->integer map (single letters, order preserving), the oracle "
        "canon_py and the shape classifier `classify` of the known finding classes",
        "functions are created with exec from generated `def` lines; parameter values are distinct small integers",
        "modelled, not verified: inspect.signature/ismethod/isfunction, get_func_name (only used for messages)",
    ]
    import time
    import gen_c07
    phase = {}
    t0 = time.time()
    # the loops of filter_args, regenerated from the live source (fail-closed translator)
    source_tie = "proved"
    try:
        _, changed = gen_c07.generate()
        if changed:
            ctx.note("Gen/T_filter_args.v changed: the source of filter_args differs from the last run")
    except (gen_c07.TranslateError, SyntaxError, OSError) as e:
        source_tie = "translator rejected the source: %s" % e
    proofs_ok = ctx.standard_proof_stage("C07", extra_targets=["Model/FilterArgsEnc.vo"],
                                         search=lambda: search_failing(ctx))
    if source_tie == "proved":
        ok_gen, log_gen = ctx.coq_build(["Proofs/FilterArgsGen.vo"])
        if ok_gen:
            ok_pa, out_pa = ctx.coq_run("Require Import JV.Proofs.FilterArgsGen.\nPrint Assumptions source_matches_model.\nPrint Assumptions takes_fallback_gen_eq.\n",
                                        "assum_c07_gen")
            if not (ok_pa and out_pa.count("Closed under the global context") == 2):
                source_tie = "Print Assumptions of source_matches_model is not closed"
        else:
            source_tie = "Proofs/FilterArgsGen.v no longer proves the regenerated loops equal to the hand model"
    if source_tie != "proved":
        # not a violation by itself: the behavioural tie below decides (the tie is broken only if BOTH routes fail)
        ctx.note("source tie lost (%s); relying on the behavioural correspondence alone" % source_tie)
    phase["proofs"] = round(time.time() - t0, 1)
    t0 = time.time()
    drvdir = os.path.join(ctx.tmp, "drv")
    p = subprocess.run([os.path.join(common.ROOT, "ocaml", "c07", "build.sh"), drvdir], stdout=subprocess.PIPE,
                       stderr=subprocess.STDOUT, text=True)
    driver = os.path.join(drvdir, "c07_driver")
    if p.returncode != 0 or not os.path.exists(driver):
        raise RuntimeError("ocaml/c07/build.sh failed: " + p.stdout[-2000:])

    phase["extract+ocaml"] = round(time.time() - t0, 1)
    t0 = time.time()
    # ---- cases
    groups = []
    corpus_path = os.path.join(common.ROOT, "corpus", "c07.jsonl")
    if os.path.exists(corpus_path):
        for l in open(corpus_path):
            if l.strip():
                c = json.loads(l)
                groups.append({"sig": c["sig"], "meth": c["meth"], "calls": [[c["pos"], c["kw"], c.get("ign")]]})
    for c in WITNESSES.values():
        groups.append({"sig": c["sig"], "meth": c["meth"], "calls": [[c["pos"], c["kw"], c["ign"]]]})
    n_corpus = len(groups)
    sigs = wf_sigs(maxn)
    for meth in (None, "pk", "po"):
        for sig in sigs:
            if meth and len(sig) > maxn - 1:
                continue  # self counts as a parameter
            groups.append({"sig": sig, "meth": meth, "calls": list(calls_for(sig, meth))})
    n_exh = sum(len(g["calls"]) for g in groups)
    n_rand_sigs = 300 if quick else 4000
    for _ in range(n_rand_sigs):
        meth = ctx.rng.choice([None, None, "pk", "po"])
        sig = random_sig(ctx.rng, ctx.rng.randint(6, 8 if not meth else 7))
        groups.append({"sig": sig, "meth": meth, "calls": random_calls(ctx.rng, sig, meth, 8)})
    small = wf_sigs(3)
    n_before = sum(len(g["calls"]) for g in groups)
    groups += value_stream(ctx.rng, small)
    groups += share_families(small)
    groups += wraps_families(ctx.rng, small)
    groups += receiver_stream(small)
    groups += odd_keyword_stream(small)
    groups += hostile_stream(small)
    n_streams = sum(len(g["calls"]) for g in groups) - n_before
    # partial objects: filter_args does not look at the signature at all
    pgroups = [{"sig": sig, "meth": None, "partial": True, "calls": list(calls_for(sig, None))[:40]}
               for sig in sigs[:40]]
    pgroups += [{"sig": sig, "meth": "pk", "receiver": recv, "partial": True, "calls": list(calls_for(sig, "pk"))[:12]}
                for sig in sigs[:6] for recv in ["plain"] + RECEIVERS]

    # ---- shards: balance by number of calls
    nshard = max(1, min(4 * common.NCPU, len(groups)))
    order = sorted(range(len(groups)), key=lambda i: -len(groups[i]["calls"]))
    shards = [[] for _ in range(nshard)]
    load = [0] * nshard
    for i in order:
        j = load.index(min(load))
        shards[j].append(groups[i])
        load[j] += len(groups[i]["calls"])
    with_ignore = 1.0
    keep_enc = 400 if quick else 150
    jobs = [(driver, sh, with_ignore, keep_enc) for sh in shards if sh]
    with multiprocessing.get_context("fork").Pool(min(common.NCPU, len(jobs))) as pool:
        sums = pool.map(shard_worker, jobs, chunksize=1)

    phase["shards"] = round(time.time() - t0, 1)
    t0 = time.time()
    opaque_cov = opaque_stage(ctx)
    name_cov = names_stage(ctx, quick)
    phase["names"] = round(time.time() - t0, 1)
    t0 = time.time()
    # ---- partial objects (opaque branch)
    opaque_bad = []
    n_opaque = 0
    pres = run_impl_groups(pgroups)
    plines, pidx = [], []
    for gi, g in enumerate(pgroups):
        for ci, c in enumerate(g["calls"]):
            plines.append(driver_line(g["sig"], None, c[0], c[1], None))
            pidx.append((gi, ci))
    for (gi, ci), m in zip(pidx, run_driver(driver, plines)):
        n_opaque += 1
        got = pres[gi]["res"][ci]["fa"].get("ok")
        if model_adict(m["opaque"]) != got:
            opaque_bad.append({"case": pgroups[gi]["calls"][ci], "model": model_adict(m["opaque"]), "impl": got})

    # ---- merge
    tot = {k: 0 for k in ("cases", "accepted", "nontrivial", "order_same", "order_diff", "insp_known_anomaly",
                          "theorem_instances", "ignore_cases", "rejected_diff_n", "spec_bad_n", "insp_bad_n", "model_bad_n",
                          "oracle_bad_n", "frag_bad_n", "wf_bad_n")}
    dist, known, known_ex, samples, enc = {}, {}, {}, [], []
    firsts = {k: [] for k in ("spec_bad", "insp_bad", "model_bad", "oracle_bad", "frag_bad", "wf_bad")}
    for S in sums:
        for k in tot:
            tot[k] += S[k]
        for k, v in S["dist"].items():
            dist[k] = dist.get(k, 0) + v
        for k, v in S["known"].items():
            known[k] = known.get(k, 0) + v
        for k, v in S["known_example"].items():
            known_ex.setdefault(k, v)
        for k in firsts:
            firsts[k].extend(S[k])
        samples.extend(S["samples"])
        enc.extend(S["enc"])

    if tot["rejected_diff_n"]:
        ex = [x for S in sums for x in S["rejected_diff"]][:1]
        ctx.note("model and implementation differ on %d calls that Python REJECTS (outside the property; not a "
                 "violation), e.g. %s" % (tot["rejected_diff_n"], json.dumps(ex)))
    for k in firsts:
        firsts[k].sort(key=case_size)
    # ---- in-Coq cross-check of the extracted driver
    enc = enc[: (400 if quick else 6000)]
    vals = ctx.coq_eval_lines(REQ, "", [coq_expr(c["sig"], c["meth"], c["pos"], c["kw"], c["ign"]) for c, _ in enc],
                              name="c07_vm")
    phase["in-coq cross-check"] = round(time.time() - t0, 1)
    extraction_bad = []
    for (c, e), v in zip(enc, vals):
        got = [int(x.strip().strip("()")) for x in v.replace("%Z", "").strip().strip("[]").split(";") if x.strip()]
        if got != e:
            extraction_bad.append({"case": c, "coq": got, "ocaml": e})

    # ---- decide
    for o in firsts["oracle_bad"][:3]:
        ctx.violation("%s  %s" % (o["src"], o["what"]), {"kind": "oracle", "case": o["case"], "impl": o["impl"]}, True)
    corr = []
    if tot["model_bad_n"]:
        corr.append(("filter_args_model vs joblib.func_inspect.filter_args", tot["model_bad_n"], firsts["model_bad"][0]))
    if tot["spec_bad_n"]:
        corr.append(("py_bind vs really calling the function", tot["spec_bad_n"], firsts["spec_bad"][0]))
    if tot["insp_bad_n"]:
        corr.append(("really calling the function vs inspect.Signature.bind", tot["insp_bad_n"], firsts["insp_bad"][0]))
    if tot["frag_bad_n"]:
        corr.append(("in_fragment (Coq) vs the shape classifier of the known classes", tot["frag_bad_n"], firsts["frag_bad"][0]))
    if tot["wf_bad_n"]:
        corr.append(("wf_sig/wf_call rejects an enumerated Python signature/call", tot["wf_bad_n"], firsts["wf_bad"][0]))
    if opaque_bad:
        corr.append(("filter_args_opaque vs filter_args on functools.partial", len(opaque_bad), opaque_bad[0]))
    if extraction_bad:
        corr.append(("extracted OCaml driver vs vm_compute inside Coq", len(extraction_bad), extraction_bad[0]))
    if corr and not tot["oracle_bad_n"]:
        for name, n, first in corr[:3]:
            ctx.violation("model and implementation disagree (%d cases): %s" % (n, name),
                          {"kind": "correspondence", "correspondence": name, "first_disagreement": first},
                          found_input=False)
    # known findings: every witness of a refuted theorem must still fail on the implementation
    for key, c in WITNESSES.items():
        src, rr = run_case_on_impl(c)
        bad = oracle(c["sig"], c["meth"], c["pos"], c["kw"], c["ign"], rr)
        if bad and key in classify(c["sig"], c["meth"], c["pos"], c["kw"]):
            ctx.violation("%s [%d enumerated calls in this class]  witness %s called (%s; %s): %s" % (
                WHAT[key], known.get(key, 0), src, c["pos"], c["kw"], bad),
                {"kind": "known-finding", "key": key, "case": c}, True, finding_key=key)
        else:
            ctx.violation("witness of C07_agree_refuted (%s) no longer fails on the implementation: the model "
                          "is stale" % key, {"kind": "stale-witness", "key": key, "case": c, "impl": rr},
                          found_input=False)
    for key in known:
        if key not in WITNESSES:
            ctx.violation("unlisted known class " + key, {"kind": "oracle", "case": known_ex[key]["case"]}, True)

    ctx.finish({
        "evaluations": tot["cases"] + n_opaque + name_cov["name_cases"] + opaque_cov["opaque_cases"],
        "distinct_nontrivial": tot["nontrivial"],
        "rule": "exhaustive: every well-formed signature with <= %d parameters (5 kinds x default/no default; %d "
                "signatures), plain functions and bound methods (self positional-or-keyword and positional-only; self "
                "counts as a parameter), x calls with 0..#positional+2 positionals x every subset of named parameters "
                "by keyword x {no, 1, 2 surplus keywords (+ a keyword named like self for methods)}; ignore-list "
                "variants (each key, all keys, two keys, unknown key, duplicate key) of %s accepted calls; %d random "
                "signatures with 6-8 parameters x 8 calls; %d calls through functools.partial; over all signatures with <= 3 "
                "parameters additionally: (values) every call shape with arguments and defaults drawn from {None, 0, "
                "False, '', 7, (), objects with non-standard ==/!= (always equal, never equal, raising, no truth value), "
                "Parameter.empty} (all-None, rotation, seeded random); (shared-code) four function objects on ONE code "
                "object with different __defaults__/__kwdefaults__, plain and as methods, every call shape on f0,f1,f2,"
                "f3,f0,... alternately in one interpreter; (wraps) triples of different functions behind one functools.wraps "
                "decorator called alternately; (receivers) over signatures with <= 2 parameters, methods bound to "
                "receivers with non-standard truthiness/equality (__bool__ False, __len__ 0, __bool__ raising, __eq__ always "
                "True, empty list/dict subclass, int subclass 0), to an instance of a __slots__ class and to the class "
                "(bound classmethod), every call shape without and with ignore=[self]; (odd-keyword-names) functions with "
                "**kwargs: surplus keywords named '*', '**', '', ' ', ' b', '0' on every call shape; (hostile-repr) argument values and receivers whose __repr__/__str__ raise or "
                "are counted, every call shape, with and without ignoring them: the result must be Python's binding and "
                "repr/str must not be called on a valid call; (args-sequences) positional arguments handed over as a fresh "
                "list, a range, and ONE list object reused for consecutive calls and for several receivers: same result "
                "as for a tuple and the caller's list unchanged. distinct_nontrivial = "
                "calls Python accepts that lie in the fragment of C07_agree_partial (all enumerated cases are "
                "distinct by construction)" % (maxn, len(sigs), "all" if with_ignore >= 1 else "35% of the",
                                               n_rand_sigs, n_opaque),
        "samples": samples[:3],
        "traces_validated_against_impl": tot["cases"],
        "phase_seconds": phase,
        "source_tie_filter_args_loops": source_tie,
        "func_name_model": name_cov,
        "opaque_callables": opaque_cov,
        "exhaustive_cases": n_exh,
        "stream_cases_values_sharedcode_wraps_receivers": n_streams,
        "corpus_and_witness_cases": n_corpus,
        "accepted_by_python": tot["accepted"],
        "ignore_list_cases": tot["ignore_cases"],
        "instances_of_C07_agree_partial_observed": tot["theorem_instances"],
        "known_finding_classes": known,
        "outcome_distribution": dist,
        "dict_insertion_order_same_as_model": tot["order_same"],
        "dict_insertion_order_differs": tot["order_diff"],
        "inspect_bind_known_anomalies": tot["insp_known_anomaly"],
        "in_coq_crosscheck_cases": len(enc),
        "disagreements": {k + "_n": tot[k + "_n"] for k in firsts},
        "model_vs_impl_differences_on_calls_python_rejects": tot["rejected_diff_n"],
        "trusted_base": trusted,
        "exhaustive": True,
    }, assumptions=[
        "keyword arguments of a call have distinct names (wf_call; guaranteed by Python)",
        "the signature is one Python accepts (wf_sig; checked: every enumerated signature satisfies wf_sigb)",
        "bound methods: the first parameter of the underlying function is a plain positional parameter",
        "values are opaque (the model never inspects them); names are compared and sorted as Python strings",
    ])


def replay(ctx, path):
    obj = json.load(open(path))
    rep = obj.get("replay", obj)
    if rep.get("opaque_case"):
        c = rep["opaque_case"]
        rc, out, err = common.run_impl("c07_opaque_impl.py", input_text=json.dumps(c) + "\n")
        r = json.loads(out.splitlines()[0])
        bad = r.get("accepted") and r.get("fa") != {"ok": {"*": c["args"], "**": c["kwargs"]}} and not r.get("isfunction") \
            and not r.get("ismethod")
        print("replay:", json.dumps(c), "->", json.dumps(r), "=>", "arguments lost from the canonical form" if bad
              else "property holds")
        return 1 if bad else 0
    if rep.get("name_case"):
        r = run_name_impl([rep["name_case"]])[0]
        bad = name_oracle(rep["name_case"], r)
        print("replay:", json.dumps(rep["name_case"]), "->", json.dumps(r), "=>", bad or "property holds")
        return 1 if bad else 0
    if rep.get("name_pair"):
        r1, r2 = run_name_impl(rep["name_pair"])
        same = r1.get("func_id") == r2.get("func_id")
        print("replay:", json.dumps(rep["name_pair"]), "->", r1.get("func_id"), r2.get("func_id"),
              "=> the two callables %s a func_id" % ("SHARE" if same else "do not share"))
        return 1 if same else 0
    c = rep.get("case") or rep.get("input")
    if not c or "sig" not in c:
        print("replay file names a broken proof/correspondence, nothing to execute:", rep.get("kind"))
        return 1
    src, rr = run_case_on_impl(c)
    bad = oracle(c["sig"], c["meth"], c["pos"], c["kw"], c.get("ign"), rr)
    print("replay:", src, "called", c["pos"], c["kw"], "ignore", c.get("ign"), "->", json.dumps(rr["fa"]),
          "=>", bad or "property holds")
    return 1 if bad else 0
