"""C08 -- joblib.hash is a deterministic, order-insensitive, type-discriminating digest.

1. build Props/C08.vo (theorems about Model/HashEnc.v) + Print Assumptions;
2. implementation-only oracle: a generated universe of values (gen_c08.universe) is hashed in four fresh
   interpreters -- PYTHONHASHSEED 0 / 1 / 2 / random, every dict/set/frozenset filled in the given /
   reversed / two shuffled insertion orders, strings rebuilt as distinct objects, md5 and sha1.  Equal
   values (structural equality WITH type, gen_c08.canon) must get equal digests in all runs, different
   values different digests (all pairs, by sorting digests).  Deviations that fall in the class of a known
   finding (F12, F13) are KNOWN-FINDINGs, everything else is a VIOLATION;
3. correspondence: the bytes `Hasher().dump(v); stream.getvalue()` of the live code vs `enc_top md5_hex v`
   of the model evaluated in Coq (vm_compute), byte for byte (md5-of-stream for streams > 300 bytes);
4. the refutation witnesses of the known findings are replayed on the implementation.
"""
import concurrent.futures as cf
import hashlib
import json
import os
import re
import sys

sys.path.insert(0, os.path.dirname(os.path.dirname(os.path.abspath(__file__))))
import common  # noqa: E402
import gen_c08 as g  # noqa: E402

KEY_F12 = "F12:unordered-frozenset-keys"
KEY_F13 = "F13:digest-string-masquerade"

REQ = """From Coq Require Import ZArith List Bool.
Require Import JV.Base.C08_MD5 JV.Model.HashEnc.
Import ListNotations. Open Scope Z_scope."""
DEFS = """Definition poly (b : list Z) : Z := fold_left (fun acc x => Z.land (acc * 257 + x + 1) 4294967295) b 0.
Definition show (r : option (list Z)) : Z * Z * list Z :=
  match r with
  | None => (2, 0, [])
  | Some b => if (length b <=? 300)%nat then (0, zlen b, b)
              else if (length b <=? 4096)%nat then (1, zlen b, md5_hex b)
              else (3, zlen b, [poly b] ++ firstn 24 b ++ skipn (length b - 24) b)
  end."""

RUNS = [("0", "id"), ("1", "rev+share"), ("2", "shuf:1"), ("random", "shuf:2+share")]


# ------------------------------------------------------------------ implementation runs
def run_impl(specs, seed, perm, want):
    text = "\n".join(json.dumps({"v": s, "perm": perm, "want": want}) for s in specs) + "\n"
    rc, out, err = common.run_impl("c08_impl.py", input_text=text, env=common.impl_env(hashseed=seed), timeout=3000)
    lines = [json.loads(l) for l in out.splitlines() if l.strip()]
    if rc != 0 or len(lines) != len(specs) + 1 or "const" not in lines[0]:
        raise RuntimeError("c08_impl (seed %s) rc=%s produced %d lines for %d cases: %s"
                           % (seed, rc, len(lines), len(specs), err[-1500:]))
    return lines[0]["const"], lines[1:]


def run_all(specs):
    """the four fresh interpreters, concurrently; returns (const, [results per run])"""
    with cf.ThreadPoolExecutor(len(RUNS)) as ex:
        futs = [ex.submit(run_impl, specs, seed, perm, ["stream", "iter", "md5", "sha1"] if i == 0 else ["md5", "sha1"])
                for i, (seed, perm) in enumerate(RUNS)]
        outs = [f.result() for f in futs]
    return outs[0][0], [o[1] for o in outs]


# ------------------------------------------------------------------ the oracle (implementation only)
def judge(specs, runs):
    """returns (violations, known) ; each entry = (what, replay_obj, key)"""
    viol, known = [], []
    n = len(specs)
    # every run must produce a digest
    for k, res in enumerate(runs):
        for i, r in enumerate(res):
            if "harness_error" in r:
                viol.append(("harness error in run %s: %s" % (RUNS[k], r["harness_error"]),
                             {"kind": "determinism", "spec": specs[i]}, None))
            elif "raise" in r:
                viol.append(("joblib.hash raised %s (seed %s, insertion order %s)" % (r["raise"], RUNS[k][0], RUNS[k][1]),
                             {"kind": "determinism", "spec": specs[i]}, None))
    if viol:
        return viol, known
    # determinism: same value, other seed / insertion order / string objects / second call => same digest
    unstable = set()
    for i in range(n):
        for algo in ("md5", "sha1"):
            ds = [runs[k][i][algo] for k in range(len(RUNS))] + ([runs[k][i]["twice"] for k in range(len(RUNS))] if algo == "md5" else [])
            if len(set(ds)) != 1:
                unstable.add(i)
                what = ("joblib.hash(v, %r) is not a function of the value: %s over (PYTHONHASHSEED, insertion order) %s"
                        % (algo, sorted(set(ds)), RUNS))
                rep = {"kind": "determinism", "spec": specs[i]}
                if g.unordered_frozenset_keys(specs[i]):
                    known.append((what, rep, KEY_F12))
                else:
                    viol.append((what, rep, None))
                break
        b = bytes.fromhex(runs[0][i]["stream"])
        if hashlib.md5(b).hexdigest() != runs[0][i]["md5"] or hashlib.sha1(b).hexdigest() != runs[0][i]["sha1"]:
            viol.append(("joblib.hash(v) is not the digest of the bytes written by Hasher.dump(v)",
                         {"kind": "determinism", "spec": specs[i]}, None))
    # discrimination, all pairs: equal values <=> equal digests
    canons = [g.canon(s) for s in specs]
    for algo in ("md5", "sha1"):
        by_digest = {}
        by_canon = {}
        for i in range(n):
            if i in unstable:
                continue
            by_digest.setdefault(runs[0][i][algo], []).append(i)
            by_canon.setdefault(canons[i], set()).add(runs[0][i][algo])
        for c, ds in by_canon.items():
            if len(ds) > 1:
                i = next(i for i in range(n) if canons[i] == c)
                viol.append(("equal values, different %s digests %s" % (algo, sorted(ds)),
                             {"kind": "determinism", "spec": specs[i]}, None))
        for d in sorted(by_digest):
            idx = by_digest[d]
            distinct = {}
            for i in idx:
                distinct.setdefault(canons[i], i)
            if len(distinct) > 1:
                ii = sorted(distinct.values())
                a, b = specs[ii[0]], specs[ii[1]]
                what = "different values, same %s digest %s" % (algo, d)
                rep = {"kind": "collision", "a": a, "b": b}
                if g.masq_skeleton(a) == g.masq_skeleton(b) and (g.uses_fallback(a) or g.uses_fallback(b)):
                    known.append((what, rep, KEY_F13))
                else:
                    viol.append((what, rep, None))
    return viol, known


def report(ctx, viol, known, limit=3):
    shown = {}
    for what, rep, key in known:
        shown[key] = shown.get(key, 0) + 1
        if shown[key] <= 2:      # the class is reported, not every member of it
            ctx.violation(what + " -- value %s" % json.dumps(rep.get("spec", rep))[:300], rep, True, finding_key=key)
    for what, rep, _ in viol[:limit]:
        ctx.violation(what, rep, True)


def search_failing(ctx, n_random=3000):
    """independent oracle over a fresh, larger universe; first deviation that is not a known finding"""
    uni, _ = g.universe(ctx.rng, n_random)
    specs = [s for s, _ in uni]
    _, runs = run_all(specs)
    viol, _ = judge(specs, runs)
    if viol:
        return viol[0][0], viol[0][1]
    return None


# ------------------------------------------------------------------ model side
def parse_show(s):
    s = s.replace("%Z", "")
    m = re.match(r"\((\d+), (\d+), \[(.*)\]\)$", s)
    if not m:
        raise RuntimeError("cannot parse model output %r" % s[:200])
    body = m.group(3).strip()
    return int(m.group(1)), int(m.group(2)), [int(x) for x in body.split(";")] if body else []


def model_streams(ctx, iters, name="c08"):
    """[(tag, length, bytes-or-md5hex)] for the specs (as iterated by the implementation)"""
    exprs = ["show (enc_top md5_hex %s)" % g.coq_value(s) for s in iters]
    k = max(1, min(4 * common.NCPU, len(exprs) // 40 + 1))     # many small shards: short processes, small pipes
    order = [i for r in range(k) for i in range(r, len(exprs), k)]       # interleave: balance the shards
    shard = (len(exprs) + k - 1) // k
    vals = ctx.coq_eval_lines(REQ, DEFS, [exprs[i] for i in order], name=name, shard=max(shard, 1), timeout=1500)
    out = [None] * len(exprs)
    for pos, i in enumerate(order):
        out[i] = parse_show(vals[pos])
    return out


def agree(model, stream_hex):
    tag, n, bs = model
    b = bytes.fromhex(stream_hex)
    if tag == 0:
        return bytes(bs) == b
    if tag == 1:
        return n == len(b) and bytes(bs).decode("ascii") == hashlib.md5(b).hexdigest()
    if tag == 3:          # long streams: length, polynomial checksum, both ends (md5 in Gallina costs ~10 CPU-s per 64 KiB)
        acc = 0
        for x in b:
            acc = (acc * 257 + x + 1) & 4294967295
        return n == len(b) and bs == [acc] + list(b[:24]) + list(b[-24:])
    return False


# ------------------------------------------------------------------ known-finding witnesses
def f13_specs(digest_of):
    a = g.F13_WITNESS
    b = g.D([(g.S(digest_of[json.dumps(k)]), v) for k, v in a[1]])
    sa = g.F13_WITNESS_SET
    sb = g.E([g.S(digest_of[json.dumps(k)]) for k in sa[1]])
    return [(a, b), (sa, sb)]


def replay_witnesses(ctx):
    """F12 / F13 refutation witnesses on the implementation; returns extra (spec) cases for the model tie"""
    extra = []
    # F12: the two insertion orders of the same set / dict, one interpreter
    stale = []
    for w in (g.F12_WITNESS, g.F12_WITNESS_DICT):
        _, r1 = run_impl([w], "0", "id", ["md5", "iter", "stream"])
        _, r2 = run_impl([w], "0", "rev", ["md5", "iter", "stream"])
        extra += [r1[0], r2[0]]
        if r1[0].get("md5") != r2[0].get("md5"):
            ctx.violation("digest of %s depends on the insertion order: %s vs %s (frozensets are sorted by the "
                          "subset partial order)" % (json.dumps(w), r1[0].get("md5"), r2[0].get("md5")),
                          {"kind": "determinism", "spec": w}, True, finding_key=KEY_F12)
        else:
            stale.append(("F12", w))
    # F13: keys replaced by their digests
    keys = [k for k, _ in g.F13_WITNESS[1]]
    _, rk = run_impl(keys, "0", "id", ["md5"])
    digest_of = {json.dumps(k): r["md5"] for k, r in zip(keys, rk)}
    for a, b in f13_specs(digest_of):
        _, r = run_impl([a, b], "0", "id", ["md5", "iter", "stream"])
        extra += r
        if r[0].get("md5") == r[1].get("md5") and g.canon(a) != g.canon(b):
            ctx.violation("%s and %s have the same digest %s (keys of a mixed-kind container are replaced by their "
                          "digests)" % (json.dumps(a), json.dumps(b), r[0].get("md5")),
                          {"kind": "collision", "a": a, "b": b}, True, finding_key=KEY_F13)
        else:
            stale.append(("F13", a))
    for fid, w in stale:
        ctx.violation("the refutation witness of %s no longer fails on the implementation: the model "
                      "(Model/HashEnc.v, theorem C08_%s_..._refuted) is stale" % (fid, fid),
                      {"kind": "stale-witness", "finding": fid, "spec": w}, found_input=False)
    return extra


# ------------------------------------------------------------------ extension: identity, globals, numpy
KEY_F17 = "F17:shared-tuple-memo"
KEY_F18 = "F18:unframed-array-bytes"

REQX = """From Coq Require Import ZArith List Bool.
Require Import JV.Base.C08_MD5 JV.Model.HashEnc JV.Model.HashEncX JV.Proofs.HashEncXFacts.
Import ListNotations. Open Scope Z_scope."""
DEFSX = """Definition showc (b : list Z) : Z * list Z := if (length b <=? 200)%nat then (zlen b, b) else (- zlen b, md5_hex b).
Definition showx (r : option (list (list Z))) : list (Z * list Z) :=
  match r with None => [(-1, [])] | Some cs => map showc cs end."""


def run_ximpl(cases):
    text = "\n".join(json.dumps(c) for c in cases) + "\n"
    rc, out, err = common.run_impl("c08x_impl.py", input_text=text, py=common.PYNP, timeout=1500)
    lines = [json.loads(l) for l in out.splitlines() if l.strip()]
    if rc != 0 or len(lines) != len(cases) + 1 or "const" not in lines[0]:
        raise RuntimeError("c08x_impl rc=%s produced %d lines for %d cases: %s" % (rc, len(lines), len(cases), err[-1500:]))
    return lines[0]["const"], lines[1:]


def parse_showx(s):
    s = s.replace("%Z", "")
    out = []
    for m in re.finditer(r"\(\s*(-?\d+),\s*\[([^\]]*)\]\)", s):
        body = m.group(2).strip()
        out.append((int(m.group(1)), [int(x) for x in body.split(";")] if body else []))
    return out


def chunks_agree(mod, chunks_hex):
    imp = [bytes.fromhex(h) for h in chunks_hex]
    if len(mod) != len(imp):
        return False
    for (n, bs), b in zip(mod, imp):
        if n >= 0:
            if n != len(b) or bytes(bs) != b:
                return False
        elif -n != len(b) or bytes(bs).decode("ascii") != hashlib.md5(b).hexdigest():
            return False
    return True


def arr_canon(desc, coerce):
    a = desc[1]
    klass = a["klass"]
    if coerce and a["is_memmap"]:
        klass = "numpy\nndarray\n".encode().hex()
    return (klass, a["dtype_pickle"], tuple(a["shape"]), tuple(a["strides"]), a["elems"])


def x_stage_impl(ctx, quick):
    """implementation runs + implementation-only oracle of the extension; returns what the model tie needs"""
    cases = g.xcases(ctx.rng, 70 if quick else 700)
    const, res = run_ximpl(cases)
    viol, stats = [], {"cases": len(cases), "shared_tuple": 0, "shared_mutable_only": 0, "arrays": 0}
    for c, r in zip(cases, res):
        if "harness_error" in r or "raise" in r:
            viol.append(("extension case failed: %s" % (r.get("harness_error") or r.get("raise")), {"kind": "x", "case": c}))
            continue
        b = b"".join(bytes.fromhex(h) for h in r["chunks"])
        if hashlib.md5(b).hexdigest() != r["md5"] or hashlib.sha1(b).hexdigest() != r["sha1"]:
            viol.append(("joblib.hash is not the digest of the concatenated _hash.update chunks", {"kind": "x", "case": c}))
    # aliasing: the same structure from fresh objects only
    pairs = []
    for i, c in enumerate(cases):
        kinds = g.ref_kinds(c["x"])
        if kinds:
            u = g.unshare(c["x"])
            if u is not None:
                pairs.append((i, kinds, {"x": u, "coerce": c["coerce"]}))
    # F18 witness needs the live stream of a uint8 array of shape (4,)
    z4 = {"x": g.arr_spec(ctx.rng, ("u1", 1), [4], "C", "ndarray", bytes(4)), "coerce": False}
    _, res2 = run_ximpl([p[2] for p in pairs] + [z4])
    known = []
    for (i, kinds, u), ru in zip(pairs, res2):
        if "md5" not in ru or "md5" not in res[i]:
            continue
        if "T" in kinds:
            stats["shared_tuple"] += 1
        else:
            stats["shared_mutable_only"] += 1
        if ru["md5"] != res[i]["md5"] and "T" in kinds:
            known.append(("joblib.hash depends on object identity: %s (a tuple object occurs twice) vs %s (equal value built "
                          "from distinct objects)" % (res[i]["md5"], ru["md5"]), {"kind": "alias", "case": cases[i]}, KEY_F17))
        # sharing of lists / dicts only: aliased mutable objects are outside the property's universe
    rz = res2[-1]
    f18 = None
    if "chunks" in rz:
        payload = bytes.fromhex(rz["chunks"][1]) + bytes.fromhex(rz["chunks"][2]) + bytes.fromhex(rz["chunks"][3])[:-1]
        if len(payload) <= 255:
            wa = {"x": g.arr_spec(ctx.rng, ("u1", 1), [4], "C", "ndarray", bytes([0x80, 3, 67, len(payload)])), "coerce": False}
            wb = {"x": ["leaf", g.Y(payload)], "coerce": False}
            _, r3 = run_ximpl([wa, wb])
            f18 = (wa, wb, r3)
    # arrays: equal (class, dtype, shape, strides, contents) <=> equal digest
    by_canon, by_md5 = {}, {}
    for c, r in zip(cases, res):
        if c["x"][0] == "arr" and "md5" in r:
            stats["arrays"] += 1
            k = arr_canon(r["desc"], c["coerce"])
            by_canon.setdefault(k, set()).add(r["md5"])
            by_md5.setdefault(r["md5"], set()).add(k)
    # coerce_mmap: a memmap hashes like the ndarray with the same buffer iff the flag is set
    tw = {c.get("twin"): r.get("md5") for c, r in zip(cases, res) if c.get("twin")}
    if tw.get("mm") != tw.get("nd") or tw.get("mm0") == tw.get("nd0") or tw.get("nd") != tw.get("nd0"):
        viol.append(("coerce_mmap: hash(memmap, coerce)=%s hash(ndarray, coerce)=%s hash(memmap)=%s hash(ndarray)=%s"
                     % (tw.get("mm"), tw.get("nd"), tw.get("mm0"), tw.get("nd0")), {"kind": "x", "case": "memmap/ndarray twins"}))
    for k, ds in by_canon.items():
        if len(ds) > 1:
            viol.append(("equal arrays, different digests %s" % sorted(ds), {"kind": "x-arr", "canon": list(map(str, k))[:4]}))
    for d, ks in by_md5.items():
        if len(ks) > 1:
            viol.append(("different arrays, same digest %s" % d, {"kind": "x-arr", "canon": [list(map(str, k))[:4] for k in ks][:2]}))
    return {"cases": cases, "res": res, "extra": ([f18[0], f18[1]], f18[2]) if f18 else ([], []), "viol": viol, "known": known,
            "f18": f18, "const": const, "stats": stats, "z4": rz}


def x_model(ctx, cases, res):
    rows = [(c, r) for c, r in zip(cases, res) if "chunks" in r]
    exprs = ["showx (enc_x_top md5_hex %s %s)" % ("true" if c.get("coerce") else "false", g.coq_xvalue(r["desc"]))
             for c, r in rows]
    exprs.append("showx (Some [np_u1_dtype_pickle; f18_stream; f18_payload])")
    vals = ctx.coq_eval_lines(REQX, DEFSX, exprs, name="c08x", shard=max(25, len(exprs) // (2 * common.NCPU) + 1), timeout=1500)
    bad = []
    for (c, r), v in zip(rows, vals):
        if not chunks_agree(parse_showx(v), r["chunks"]):
            bad.append({"case": c, "impl_chunks": [h[:200] for h in r["chunks"]][-2:], "model": v[:400]})
    return bad, parse_showx(vals[-1]), len(rows)


# ------------------------------------------------------------------ deeply nested values
DEEP_KINDS = ("list", "tuple", "dict", "mixed")
DEEP_DEPTHS = (50, 200, 300, 500, 2000)


def deep_spec(kind, depth, leaf):
    """the spec of c08_deep_impl.nest(kind, depth, leaf)"""
    v = g.S(leaf)
    for i in range(depth):
        k = kind if kind != "mixed" else ("list", "tuple", "dict")[i % 3]
        if k == "list":
            v = g.L([v, g.I(i % 7)])
        elif k == "tuple":
            v = g.T([v, g.I(i % 7)])
        else:
            v = g.D([(g.S("k"), v), (g.S("n"), g.T([g.I(i % 7)]))])
    return v


def run_deep(cases):
    text = "\n".join(json.dumps(c) for c in cases) + "\n"
    rc, out, err = common.run_impl("c08_deep_impl.py", input_text=text, timeout=900)
    lines = [json.loads(l) for l in out.splitlines() if l.strip()]
    if rc != 0 or len(lines) != len(cases):
        raise RuntimeError("c08_deep_impl rc=%s produced %d lines for %d cases: %s" % (rc, len(lines), len(cases), err[-1500:]))
    return lines


def judge_deep(c, r):
    """joblib.hash either raises RecursionError (null) or returns THE digest of the value: independent of the recursion
    limit and of the depth of the calling stack, equal for a rebuilt copy, different when the innermost leaf differs"""
    if "harness_error" in r:
        return "harness error " + r["harness_error"]
    b = bytes.fromhex(r["stream"])
    for algo, H in (("md5", hashlib.md5), ("sha1", hashlib.sha1)):
        ref_a, ref_b = r["ref"][algo]
        if ref_a == ref_b:
            return "values differing in the innermost leaf have the same %s digest %s" % (algo, ref_a)
        if H(b).hexdigest() != ref_a:
            return "joblib.hash(v, %r) is not the digest of the bytes written by Hasher.dump(v)" % algo
        for gt in r["got"]:
            if gt["algo"] != algo or gt["digest"] is None:
                continue
            want = ref_b if gt["which"] == "b" else ref_a
            if gt["digest"] != want:
                return ("joblib.hash of a value nested %d levels (%s) returned %s under sys.setrecursionlimit(%d) from %d extra "
                        "frames (%s), but %s with room for the recursion: the digest depends on the state of the interpreter"
                        % (c["depth"], c["kind"], gt["digest"], gt["limit"], gt["frames"], gt["which"], want))
    return None


def deep_stage(ctx):
    cases = [{"kind": k, "depth": d} for k in DEEP_KINDS for d in DEEP_DEPTHS]
    res = run_deep(cases)
    bad = []
    stats = {"cases": len(cases), "digests": 0, "recursion_errors": 0}
    for c, r in zip(cases, res):
        what = judge_deep(c, r)
        if what:
            bad.append((what, {"kind": "deep", "case": c}))
        for gt in r.get("got", []):
            stats["digests" if gt["digest"] else "recursion_errors"] += 1
    tie = [(deep_spec(c["kind"], c["depth"], "leaf-a"), r["stream"]) for c, r in zip(cases, res)
           if c["depth"] <= 300 and "stream" in r]
    return bad, tie, stats


# ------------------------------------------------------------------ main
def load_own_findings(ctx):
    """the per-property source file known_findings.d/C08.json (BUILDER_GUIDE: keys listed there are known findings);
    known_findings.json is generated from it by harness/findings_merge.py and may lag behind"""
    path = os.path.join(common.ROOT, "known_findings.d", "C08.json")
    have = {(k.get("property"), k.get("key")) for k in ctx.known}
    for k in json.load(open(path))["findings"]:
        if (k.get("property"), k.get("key")) not in have:
            ctx.known.append(k)
            ctx.note("finding %s [%s] is listed in known_findings.d/C08.json but not yet merged into known_findings.json"
                     % (k.get("id"), k.get("key")))


def run(ctx):
    quick = ctx.tier == "quick"
    load_own_findings(ctx)
    trusted = [
        "Coq 8.16.1 kernel (coqc); vm_compute in the refutation witnesses, the Examples and the cases evaluation",
        "Model/HashEnc.v is a hand-written model of joblib/hashing.py (Hasher) and of the parts of CPython's "
        "pickle._Pickler (protocol 3) it reaches; tied to the code only by the byte-exact correspondence below",
        "Base/C08_MD5.v (RFC 1321 in Gallina) instantiates the md5 parameter for the correspondence only; "
        "every digest it produces is compared with hashlib",
        "str is modelled by its UTF-8 (surrogatepass) bytes: UTF-8 byte order = code-point order (sampled by the "
        "byte correspondence on sets/dicts of non-ASCII strings)",
        "sorted() is modelled as CPython's count_run + binary insertion (exact below 64 elements; equal to any "
        "correct sort whenever < is a strict total order on the elements)",
        "md5 / sha1 collision-freeness is NOT assumed by any theorem; the digest-level discrimination is observed "
        "on the generated universe only",
        "harness: gen_c08.py (generator, canon = structural equality with type, classifiers of F12/F13), "
        "impl/c08_impl.py (builds values from JSON without sharing)",
    ]
    assumptions = [
        "values are trees of None/bool/int/float/str/bytes/tuple/list/dict/set/frozenset without aliased "
        "memoised sub-objects (the property's universe); NaN is not used as a key",
        "theorems C08_order*/C08_inj_sorted: dict keys and set elements are plain (no frozenset inside) and "
        "totally ordered by Python's < ([good]); C08_inj_sorted additionally: every length/int/memo index fits "
        "its protocol-3 field ([fits])",
        "no hypothesis on md5 in any theorem (it is a universally quantified parameter)",
    ]
    import time as _t
    T = {"t0": _t.time()}
    # 1. regenerate coq/Gen/C08_Constants.v from the CURRENT source (fail-closed); Proofs/HashEncGenTie.v ties the
    #    model's hand-copied constants to it, so a changed constant breaks the proof stage
    gen_error = None
    try:
        rc0, out0, err0 = common.run_impl("c08_impl.py", input_text="", timeout=300)
        live0 = json.loads(out0.splitlines()[0])["const"]
        text = g.gen_constants(os.path.join(common.REPO, "joblib", "hashing.py"), live0)
        if common.write_if_changed(os.path.join(common.COQ, "Gen", "C08_Constants.v"), text):
            ctx.note("Gen/C08_Constants.v changed: joblib/hashing.py or the pickle constants differ from the last run")
    except (g.GenError, KeyError, IndexError, ValueError, SyntaxError) as e:
        gen_error = "%s: %s" % (type(e).__name__, e)
    proofs_ok = ctx.standard_proof_stage("C08", search=lambda: search_failing(ctx))
    if gen_error:
        hit = search_failing(ctx)
        if hit:
            ctx.violation(hit[0], dict(hit[1], generator_error=gen_error), True)
        else:
            ctx.violation("the constants generator rejected joblib/hashing.py (%s): the tie of the model's constants is lost"
                          % gen_error, {"kind": "generator", "error": gen_error}, found_input=False)
    T["proofs"] = _t.time()

    n_random = 1200 if quick else 20000
    uni, fam_stats = g.universe(ctx.rng, n_random)
    corpus_path = os.path.join(common.ROOT, "corpus", "c08.jsonl")
    if os.path.exists(corpus_path):
        uni = [(json.loads(l), "corpus") for l in open(corpus_path) if l.strip()] + uni
    specs = [s for s, _ in uni]
    const, runs = run_all(specs)
    T["impl"] = _t.time()

    # live constants the model hard-codes
    want_const = {"batchsize": 1000, "proto": 3, "set_name": "joblib.hashing\n_ConsistentSet\n",
                  "fset_name": "joblib.hashing\n_ConsistentFrozenSet\n", "pickler_is_pure_python": True}
    const_bad = {k: const.get(k) for k, v in want_const.items() if const.get(k) != v}

    # 2. oracle
    viol, known = judge(specs, runs)
    report(ctx, viol, known)

    # 4. witnesses (also feeds the model tie)
    extra = replay_witnesses(ctx)

    # 3. correspondence
    # byte-exact tie: every boundary case + a sample of the rest (the oracle above ran on everything)
    n_model = min(len(specs), 900 if quick else 7000)
    must = [i for i, (_, o) in enumerate(uni) if o in ("special", "corpus")]
    rest = [i for i, (_, o) in enumerate(uni) if o not in ("special", "corpus")]
    idx = sorted(must + ctx.rng.sample(rest, max(0, min(len(rest), n_model - len(must)))))
    ok_rows = [i for i in idx if "iter" in runs[0][i] and "stream" in runs[0][i]]
    iters = [runs[0][i]["iter"] for i in ok_rows] + [r["iter"] for r in extra if "iter" in r]
    streams = [runs[0][i]["stream"] for i in ok_rows] + [r["stream"] for r in extra if "iter" in r]
    T["oracle"] = _t.time()
    sys.setrecursionlimit(max(sys.getrecursionlimit(), 20000))      # the harness walks 300-level specs recursively
    deep_bad, deep_tie, deep_stats = deep_stage(ctx)
    for what, rep in deep_bad[:3]:
        ctx.violation(what, rep, True)
    iters += [sp for sp, _ in deep_tie]
    streams += [st for _, st in deep_tie]
    xs = x_stage_impl(ctx, quick)
    T["ximpl"] = _t.time()
    for what, rep in xs["viol"][:3]:
        ctx.violation(what, rep, True)
    shown = 0
    for what, rep, key in xs["known"]:
        shown += 1
        if shown <= 2:
            ctx.violation(what + " -- " + json.dumps(rep["case"])[:300], rep, True, finding_key=key)
    # witnesses of the extension findings
    w17 = [c for c in xs["cases"][:2]]
    r17 = xs["res"][:2]
    if r17[0].get("md5") and r17[0].get("md5") != r17[1].get("md5"):
        ctx.violation("joblib.hash([t, t]) = %s but joblib.hash([t, (1, 2)]) = %s for t = (1, 2): the digest depends on whether two equal "
                      "tuples are one object (Pickler.memo)" % (r17[0]["md5"], r17[1]["md5"]),
                      {"kind": "alias", "case": w17[0]}, True, finding_key=KEY_F17)
    else:
        ctx.violation("the refutation witness of F17 no longer fails on the implementation: Model/HashEncX.v is stale",
                      {"kind": "stale-witness", "finding": "F17"}, found_input=False)
    if xs["f18"] and xs["f18"][2][0].get("md5") and xs["f18"][2][0].get("md5") == xs["f18"][2][1].get("md5"):
        ctx.violation("a uint8 array and a bytes object have the same digest %s: raw array bytes are fed to the hash unframed, in "
                      "front of the pickle stream" % xs["f18"][2][0]["md5"],
                      {"kind": "collision-x", "a": xs["f18"][0], "b": xs["f18"][1]}, True, finding_key=KEY_F18)
    else:
        ctx.violation("the refutation witness of F18 no longer fails on the implementation: Model/HashEncX.v is stale",
                      {"kind": "stale-witness", "finding": "F18"}, found_input=False)
    with cf.ThreadPoolExecutor(2) as ex:
        fut_x = ex.submit(x_model, ctx, xs["cases"] + xs["extra"][0], xs["res"] + xs["extra"][1])
        model = model_streams(ctx, iters)
        xbad, xconst, n_xmodel = fut_x.result()
    T["model"] = _t.time()
    if xs["const"].get("ndarray_name") != "numpy\nndarray\n":
        xbad.append({"constant": "ndarray_name", "live": xs["const"].get("ndarray_name")})
    live_u1 = (xs["z4"].get("chunks") or [None, None, None])[2]
    if xconst and live_u1 is not None and bytes(xconst[0][1]).hex() != live_u1:
        ctx.note("pickle.dumps(np.dtype('u1')) of the live numpy differs from the constant of the Coq witness f18 (witness replayed "
                 "from live values instead)")
    if xbad and not xs["viol"]:
        ctx.violation("extended model (identity / globals / NumpyHasher) and implementation disagree on the chunks handed to "
                      "_hash.update (%d of %d cases)" % (len(xbad), n_xmodel),
                      {"kind": "correspondence", "first_disagreement": xbad[0],
                       "correspondence": "enc_x_top md5_hex (Model/HashEncX.v) vs the recorded NumpyHasher._hash.update calls"},
                      found_input=False)
    disagreements = []
    for it, st, mo in zip(iters, streams, model):
        if not agree(mo, st):
            disagreements.append({"value_as_iterated": it, "impl_stream_hex": st[:600],
                                  "model": {"tag": mo[0], "len": mo[1], "bytes_or_md5": mo[2][:300]}})
    if (disagreements or const_bad) and not viol and not deep_bad:
        hit = search_failing(ctx, 3000 if quick else 12000)
        first = disagreements[0] if disagreements else {"constants": const_bad}
        if hit:
            ctx.violation(hit[0], dict(hit[1], first_disagreement=first), True)
        else:
            ctx.violation("model and implementation disagree on the bytes fed to the hash (%d of %d cases; constants %s)"
                          % (len(disagreements), len(iters), const_bad or "ok"),
                          {"kind": "correspondence", "first_disagreement": first,
                           "correspondence": "enc_top md5_hex (Model/HashEnc.v) vs Hasher().dump(v); stream.getvalue()"},
                          found_input=False)

    nontrivial = set()
    for s in specs:
        if any(t in json.dumps(s) for t in ('"D"', '"E"', '"Z"')) and g.size(s) > 2:
            nontrivial.add(repr(g.canon(s)))
    origins = {}
    for _, o in uni:
        origins[o] = origins.get(o, 0) + 1
    ctx.finish({
        "evaluations": len(specs) * len(RUNS) + len(iters) + len(xs["cases"]) + n_xmodel,
        "distinct_nontrivial": len(nontrivial),
        "rule": "universe = near-colliding leaves x 14 wrappers + boundary cases (batch 999/1000/1001/2000, memo index "
                "254..300, 255/256/65535/65536-byte strings, LONG1/LONG4) + random values of depth <= 4 with key families "
                "int/num/str/bytes/tuple/frozenset-chain/frozenset-antichain/mixed (fallback); each value hashed in 4 fresh "
                "interpreters (seed, insertion order) x md5/sha1; all-pairs discrimination by sorting digests; "
                "non-trivial = distinct (canon) values containing a dict/set/frozenset",
        "samples": [specs[0], specs[len(specs) // 2], specs[-1]],
        "traces_validated_against_impl": len(iters) + n_xmodel,
        "model_evaluations": len(iters),
        "disagreements": len(disagreements),
        "universe_size": len(specs),
        "distinct_values": len(set(repr(g.canon(s)) for s in specs)),
        "origin_distribution": origins,
        "key_family_distribution": fam_stats,
        "node_kind_histogram": g.kind_hist(specs),
        "fallback_values": sum(1 for s in specs if g.uses_fallback(s)),
        "f12_class_values": sum(1 for s in specs if g.unordered_frozenset_keys(s)),
        "runs": [{"PYTHONHASHSEED": a, "insertion_order": b} for a, b in RUNS],
        "live_constants": const,
        "extension": dict(xs["stats"], model_evaluations=n_xmodel, disagreements=len(xbad), live=xs["const"]),
        "stage_seconds": {k: round(T[k] - T[p], 1) for p, k in zip(["t0", "proofs", "impl", "oracle", "ximpl"], ["proofs", "impl", "oracle", "ximpl", "model"])},
        "deep_nesting": deep_stats,
        "oracle_violations": len(viol) + len(xs["viol"]) + len(deep_bad),
        "known_finding_hits": len(known),
        "trusted_base": trusted,
        "exhaustive": False,
    }, assumptions=assumptions)


def replay(ctx, path):
    obj = json.load(open(path))
    rep = obj.get("replay", obj)
    rep = rep.get("input", rep)
    kind = rep.get("kind")
    if kind == "determinism":
        specs = [rep["spec"]]
        _, runs = run_all(specs)
        viol, known = judge(specs, runs)
        for what, _, key in viol + known:
            print("replay:", what, "[%s]" % key if key else "")
        print("replay: %d deviation(s)" % len(viol + known))
        return 1 if viol or known else 0
    if kind == "collision":
        specs = [rep["a"], rep["b"]]
        _, res = run_impl(specs, "0", "id", ["md5", "sha1"])
        same = res[0].get("md5") == res[1].get("md5") or res[0].get("sha1") == res[1].get("sha1")
        differ = g.canon(specs[0]) != g.canon(specs[1])
        print("replay: digests", res[0], res[1], "values differ:", differ)
        return 1 if (same and differ) else 0
    if kind == "deep":
        c = rep["case"]
        what = judge_deep(c, run_deep([c])[0])
        print("replay:", json.dumps(c), "=>", what or "property holds")
        return 1 if what else 0
    if kind == "alias":
        c = rep["case"]
        u = g.unshare(c["x"])
        if u is None:
            print("replay: the value is cyclic, it has no unshared counterpart")
            return 0
        _, r = run_ximpl([c, {"x": u, "coerce": c.get("coerce", False)}])
        differ = r[0].get("md5") != r[1].get("md5")
        print("replay: shared", r[0].get("md5"), "unshared", r[1].get("md5"), "tuple shared:", "T" in g.ref_kinds(c["x"]))
        return 1 if (differ and "T" in g.ref_kinds(c["x"])) else 0
    if kind == "collision-x":
        a = rep["a"]
        z4 = {"x": g.arr_spec(ctx.rng, ("u1", 1), [4], "C", "ndarray", bytes(4)), "coerce": False}
        _, rz = run_ximpl([z4])
        ch = [bytes.fromhex(h) for h in rz[0]["chunks"]]
        payload = ch[1] + ch[2] + ch[3][:-1]
        wa = {"x": g.arr_spec(ctx.rng, ("u1", 1), [4], "C", "ndarray", bytes([0x80, 3, 67, len(payload) % 256])), "coerce": False}
        b = rep["b"] if isinstance(rep.get("b"), dict) else {"x": ["leaf", g.Y(payload)], "coerce": False}
        _, r = run_ximpl([wa if not isinstance(a, dict) else a, b])
        print("replay: digests", r[0].get("md5"), r[1].get("md5"))
        return 1 if r[0].get("md5") and r[0].get("md5") == r[1].get("md5") else 0
    if kind in ("x", "x-arr"):
        print("replay: extension case; re-run ./check C08 (the case is regenerated from the seed)", json.dumps(rep)[:300])
        return 1
    print("replay file names a broken proof/correspondence, nothing to execute:", kind)
    return 1
