"""Correspondence and oracles for Model/ParallelSync.v: joblib.Parallel with a backend that does not retrieve
results in its completion callback (supports_retrieve_callback = False) -- the path taken by third-party
backends written against ParallelBackendBase.  Used by C01 and C04 (C09's stop-after-abort oracle too).

Schedules are generated online on the real implementation by harness/impl/m1s_driver.py (deterministic:
every blocking point of the caller is a scheduling point), replayed on the Coq model, compared per event.
"""
import json
import os
import subprocess
import sys
from concurrent.futures import ThreadPoolExecutor

sys.path.insert(0, os.path.dirname(os.path.dirname(os.path.abspath(__file__))))
import common  # noqa: E402
import m1_common as m1  # noqa: E402

REQ = """From Coq Require Import List Bool Arith.
Require Import JV.Model.ParallelCore JV.Model.ParallelSync JV.Model.ParallelSyncShow.
Import ListNotations."""


def gen_cases(rng, n, profile):
    cases = []
    for i in range(n):
        n_jobs = rng.choice([2, 2, 3, 3, 4])
        calls = []
        for k in range(rng.choice([1, 2, 2, 3])):
            pre = rng.choice([1, 2, 3, "all", "n_jobs", "2*n_jobs", "1.5*n_jobs", 5])
            amount = m1.pre_amount(pre, n_jobs)
            base = amount or 4
            N = max(0, rng.choice([0, 1, 2, base - 1, base, base + 1, n_jobs * 2, n_jobs * 3 + 1,
                                   rng.randint(0, 14), rng.randint(5, 22)]))
            ifail, tfail = None, []
            if rng.random() < (0.6 if profile == "c04" else 0.15):
                if rng.random() < 0.35:
                    ifail = rng.randint(0, N)
                elif N > 0:
                    tfail = sorted(set(rng.randint(0, N - 1) for _ in range(rng.choice([1, 1, 2]))))
            timeout = 2.0 if rng.random() < 0.2 else None
            calls.append(["scall", n_jobs, pre, N, ifail, tfail, timeout])
        cases.append({"id": "s%d" % i, "seed": rng.randint(0, 10 ** 9), "calls": calls, "max_events": 200,
                      "bsizes": rng.choice([[1], [1, 1, 2, 3], [2], [1, 2], [3, 1]]),
                      "p_extfail": 0.04 if profile == "c04" else 0.01, "p_timeout": 0.03 if profile == "c04" else 0.005,
                      "p_call2": 0.03, "managed": rng.random() < 0.5,
                      "hold_callbacks": rng.choice([0.0, 0.0, 0.5, 0.9])})
    return cases


def run_driver(cases, nproc=None, timeout=900):
    nproc = nproc or max(1, min(common.NCPU - 2, 12))
    chunks = [cases[i::nproc] for i in range(nproc)]
    env = common.impl_env()

    def work(ch):
        if not ch:
            return []
        p = subprocess.run([common.PY, os.path.join(common.ROOT, "harness", "impl", "m1s_driver.py")],
                           input="\n".join(json.dumps(c) for c in ch) + "\n", stdout=subprocess.PIPE,
                           stderr=subprocess.PIPE, text=True, env=env, timeout=timeout)
        out = [json.loads(l) for l in p.stdout.splitlines() if l.startswith("{")]
        if len(out) != len(ch):
            raise RuntimeError("m1s_driver returned %d results for %d cases\n%s" % (len(out), len(ch), p.stderr[-3000:]))
        return out
    with ThreadPoolExecutor(nproc) as ex:
        outs = list(ex.map(work, chunks))
    res = [None] * len(cases)
    for k, ch in enumerate(chunks):
        for j, r in enumerate(outs[k]):
            res[k + nproc * j] = r
    return res


def err_lit(o):
    if o is None:
        return "None"
    if o == "timeout":
        return "(Some ErrTimeout)"
    return "(Some (ErrTask %d))" % o[1]


def coq_events(events):
    out, cur = [], None
    for e in events:
        k = e[0]
        if k == "scall":
            _, nj, pre, N, ifail, tfail, tmo = e
            amt = m1.pre_amount(pre, nj)
            cur = "{| n_jobs := %d; pre := %s; mode := Ordered |}" % (nj, "PreAll" if amt is None else "PreN %d" % amt)
            out.append("SCall %s %d %s" % (cur, N, "None" if ifail is None else "(Some %d)" % ifail))
        elif k == "scall2":
            out.append("SCall %s 0 None" % cur)
        elif k == "sdispatch":
            out.append("SDispatch %d" % e[1])
        elif k == "scb":
            out.append("SCb %d %d" % (e[1], e[2]))
        elif k == "sresult":
            out.append("SResult %s" % err_lit(e[1]))
        else:
            raise ValueError(e)
    return "[" + "; ".join(out) + "]"


def model_runs(ctx, runs, name="m1s"):
    exprs = ["srun_show sinit %s" % coq_events(r["events"]) for r in runs]
    vals = ctx.coq_eval_lines(REQ, "", exprs, name=name, shard=40)
    out = []
    for v in vals:
        out.append([{"obs": o, "snap": s, "submitted": sub} for o, s, sub in m1.parse_nested(v)])
    return out


def real_obs_code(o):
    if o[0] == "returned":
        return [0] + list(o[1])
    if o[0] == "raised":
        code = {"task": 0, "iter": 1, "timeout": 2, "runtime": 3, "attr": 4}.get(o[1])
        if code is None:
            return [2, 99, 0]
        return [2, code, o[2] if code == 0 else 0]
    return [9]


def real_snap(s):
    return [s["taken"], s["n_disp"], s["n_comp"], s["njobs"], int(s["iterating"]), int(s["aborting"]),
            s["nready"], int(s["running"]), s["blocked"], int(s.get("exception", False))]


def compare(run, model):
    if "harness_error" in run:
        return {"kind": "harness_error", "detail": run["harness_error"]}
    if len(model) != len(run["events"]):
        return {"kind": "length", "detail": "model %d events, real %d" % (len(model), len(run["events"]))}
    for k, (ev, ro, rs, m) in enumerate(zip(run["events"], run["obs"], run["snaps"], model)):
        robs = [real_obs_code(o) for o in ro]
        if robs != m["obs"]:
            return {"kind": "obs", "index": k, "event": ev, "real": robs, "model": m["obs"]}
        if real_snap(rs) != m["snap"]:
            return {"kind": "snap", "index": k, "event": ev, "real": real_snap(rs), "model": m["snap"],
                    "fields": "taken n_disp n_comp njobs iterating aborting nready running blocked exception"}
        if rs["submitted"] != m["submitted"]:
            return {"kind": "submitted", "index": k, "event": ev, "real": rs["submitted"], "model": m["submitted"]}
    return None


def split_calls(run):
    calls, cur = [], None
    for k, ev in enumerate(run["events"]):
        if ev[0] == "scall":
            cur = {"cfg": ev, "idx": len(calls) + 1, "events": [], "snaps": [], "outcome": None, "call2": []}
            calls.append(cur)
        if cur is None:
            continue
        cur["events"].append(ev)
        cur["snaps"].append(run["snaps"][k])
        for o in run["obs"][k]:
            if ev[0] == "scall2":
                cur["call2"].append(o)
            else:
                cur["outcome"] = cur["outcome"] or o
    return calls


def oracle(run):
    """(property, what) for every statement of C01/C04/C09 this real run contradicts; never consults the model"""
    bad = []
    if "harness_error" in run:
        return [("ALL", "harness error: " + run["harness_error"])]
    for a in run["anomalies"]:
        bad.append(("C04", "sync-retrieval backend: anomaly: " + a))
    if run.get("reentered"):
        bad.append(("C09", "sync-retrieval backend: input iterator entered by two threads at once"))
    calls = split_calls(run)
    for ci, c in enumerate(calls):
        _, nj, pre, N, ifail, tfail, tmo = c["cfg"]
        out = c["outcome"]
        execd = run["exec_log"].get(str(c["idx"]), [])
        injected = [e[1] for e in c["events"] if e[0] == "sresult" and e[1] is not None]
        if len(execd) != len(set(execd)):
            bad.append(("C01", "sync-retrieval backend: a task was executed twice: %s" % sorted(execd)))
        last = ci == len(calls) - 1
        if out is None:
            if not last:
                bad.append(("C04", "sync-retrieval backend: call %d neither returned nor raised" % c["idx"]))
            continue
        if out[0] == "returned":
            vals, call_nos = out[1], out[2]
            if call_nos not in ([], [c["idx"]]):
                bad.append(("C04", "sync-retrieval backend: call %d returned values of call(s) %s" % (c["idx"], call_nos)))
            if vals != list(range(N)):
                bad.append(("C01", "sync-retrieval backend: returned %s instead of 0..%d" % (vals, N - 1)))
            if ifail is not None or [i for i in tfail if i < N] or injected:
                bad.append(("C04", "sync-retrieval backend: a failure (input %s, tasks %s, injected %s) was swallowed: "
                                   "the call returned %d values" % (ifail, tfail, injected, len(vals))))
        elif out[0] == "raised":
            kind = out[1]
            if kind == "task" and not (out[2] in tfail or ["ext", out[2]] in injected or ["task", out[2]] in injected):
                bad.append(("C04", "sync-retrieval backend: raised a task error that no task raised: %s" % out))
            if kind == "iter" and ifail is None:
                bad.append(("C04", "sync-retrieval backend: iterator error although the input did not fail"))
            if kind == "timeout" and "timeout" not in injected:
                bad.append(("C04", "sync-retrieval backend: TimeoutError although no retrieval timed out"))
            if kind not in ("task", "iter", "timeout"):
                bad.append(("C04", "sync-retrieval backend: call died with an internal error: %s" % out))
            # the first failure reported to the caller must be the one raised
            first = next((e[1] for e in c["events"] if e[0] == "sresult" and e[1] is not None), None)
            if first is not None and kind != "iter":
                exp = ["raised", "timeout", 0] if first == "timeout" else ["raised", "task", first[1]]
                if out != exp:
                    bad.append(("C04", "sync-retrieval backend: retrieval failed with %s but the call raised %s" % (first, out)))
        for o in c["call2"]:
            if o != ["raised", "runtime", 0]:
                bad.append(("C16", "sync-retrieval backend: calling a running Parallel gave %s instead of RuntimeError" % o))
        # clean-up duties
        if c["snaps"] and out is not None:
            first_s, last_s = c["snaps"][0], c["snaps"][-1]
            if not last_s["running"]:
                if last_s["stop_calls"] != last_s["start_calls"]:
                    bad.append(("C04", "sync-retrieval backend: stop_call() %d times for %d start_call()" % (last_s["stop_calls"], last_s["start_calls"])))
                if out[0] == "raised" and last_s["aborts"] != first_s["aborts"] + 1:
                    bad.append(("C04", "sync-retrieval backend: abort_everything() called %d times for a failed call" % (last_s["aborts"] - first_s["aborts"])))
                if not last_s["managed"] and last_s["terminates"] != first_s["terminates"] + 1:
                    bad.append(("C04", "sync-retrieval backend: terminate() called %d times after a call outside a with block" % (last_s["terminates"] - first_s["terminates"])))
                if last_s["managed"] and last_s["terminates"] != first_s["terminates"]:
                    bad.append(("C04", "sync-retrieval backend: terminate() called inside a with block"))
        # C09: nothing is taken from the input after the abort flag is up
        aborted_taken = None
        for e, s in zip(c["events"], c["snaps"]):
            if s["call_no"] != c["idx"]:
                continue
            if aborted_taken is not None and s["taken"] > aborted_taken:
                bad.append(("C09", "sync-retrieval backend: items taken after the abort: %d -> %d" % (aborted_taken, s["taken"])))
                break
            if s["aborting"] and aborted_taken is None:
                aborted_taken = s["taken"]
    return bad


def check(ctx, prop, profile, quick, scale=1.0):
    """runs the sync-retrieval correspondence; reports violations tagged `prop`; returns coverage"""
    n = int((60 if quick else 600) * scale)
    cases = gen_cases(ctx.rng, n, profile)
    runs = run_driver(cases)
    ok = [r for r in runs if "harness_error" not in r]
    models = model_runs(ctx, ok, name="m1s_" + profile)
    it = iter(models)
    mism, orc = [], []
    for case, r in zip(cases, runs):
        if "harness_error" in r:
            mism.append((case, r, {"kind": "harness_error", "detail": r.get("tb", r["harness_error"])[-1500:]}))
            continue
        d = compare(r, next(it))
        if d:
            mism.append((case, r, d))
        for o in oracle(r):
            orc.append((case, r, o))
    mine = [x for x in orc if x[2][0] in (prop, "ALL")]
    others = [x for x in orc if x[2][0] not in (prop, "ALL")]
    seen = set()
    for c, r, o in mine:
        if o[1] in seen or len(seen) >= 3:
            continue
        seen.add(o[1])
        ctx.violation(o[1], {"kind": "oracle-sync", "case": {"mode": "replay", "events": r["events"], "sync": True}}, True)
    if mism and not seen:
        c, r, d = mism[0]
        what = "model M1s (sync-retrieval backends) and joblib.Parallel disagree (%d of %d schedules), first: %s" % (
            len(mism), len(runs), json.dumps(d)[:300])
        if others:
            what += " ; the runs violate %s: %s" % (others[0][2][0], others[0][2][1])
        ctx.violation(what, {"kind": "correspondence", "correspondence": "Model/ParallelSync.v sstep vs m1s_driver events",
                             "first_disagreement": d, "case": {"mode": "replay", "events": r.get("events", []), "sync": True}},
                      found_input=False)
    kinds, outcomes = {}, {}
    for r in ok:
        for e in r["events"]:
            kinds[e[0]] = kinds.get(e[0], 0) + 1
        for c in split_calls(r):
            k = "/".join(str(x) for x in (c["outcome"] or ["unfinished"])[:2]) if (c["outcome"] or ["u"])[0] != "returned" else "returned"
            outcomes[k] = outcomes.get(k, 0) + 1
    return {"sync_backend_schedules": len(runs), "sync_backend_events_compared": sum(len(r["events"]) for r in ok),
            "sync_backend_event_kinds": kinds, "sync_backend_outcomes": outcomes, "sync_backend_disagreements": len(mism)}


def replay(case, prop):
    r = run_driver([dict(case, mode="replay", id="replay")], nproc=1)[0]
    bad = [o for o in oracle(r) if o[0] in (prop, "ALL")]
    for e, o in zip(r.get("events", []), r.get("obs", [])):
        print(" ", e, o)
    print("replay =>", bad or "property holds on this schedule")
    return 1 if bad else 0
