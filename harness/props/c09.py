"""C09 -- Parallel returns the sequential results, in order, each task once (model M1)."""
import json
import os
import sys

sys.path.insert(0, os.path.dirname(os.path.dirname(os.path.abspath(__file__))))
sys.path.insert(0, os.path.dirname(os.path.abspath(__file__)))
import common  # noqa: E402
import m1_common as m1  # noqa: E402

PROP = "C09"
PROFILE = "c09"


def run(ctx):
    # the operator table of the pre_dispatch expression evaluator is regenerated from the source before the proofs
    import gen_c09
    import translate
    try:
        _, changed = gen_c09.generate()
        if changed:
            ctx.note("Gen/T_operators.v changed: the `operators` table of joblib/_utils.py differs from the last run")
    except translate.TranslateError as e:
        ctx.note("translator rejected joblib/_utils.py (%s): the last translation is kept for the proofs" % e)
        ctx.violation("the `operators` table of joblib/_utils.py could not be translated: %s" % e,
                      {"kind": "translation", "translation": "harness/gen_c09.py -> Gen/T_operators.v"}, False)
    m1.standard_run(ctx, PROP, PROFILE)


def replay(ctx, path):
    return m1.standard_replay(ctx, path, PROP)
