"""C09 -- Parallel returns the sequential results, in order, each task once (model M1)."""
import json
import os
import sys

sys.path.insert(0, os.path.dirname(os.path.dirname(os.path.abspath(__file__))))
sys.path.insert(0, os.path.dirname(os.path.abspath(__file__)))
import common  # noqa: E402
import m1_common as m1  # noqa: E402

PROP = "C09"
PROFILE = "c09"


def run(ctx):
    m1.standard_run(ctx, PROP, PROFILE)


def replay(ctx, path):
    return m1.standard_replay(ctx, path, PROP)
