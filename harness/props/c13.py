"""C13 -- joblib's compressed file objects behave exactly like a plain byte stream.

1. build Props/C13.vo (refinement theorem of the reader model M6 against the reference stream,
   writer bookkeeping) + Print Assumptions;
2. correspondence: the real BinaryZlibFile / BinaryGzipFile are driven through operation histories
   (exhaustive up to length 3 over a small alphabet on a many-block file, random up to length 40 on
   payloads around the 8192 boundaries up to 70000 bytes, levels 1-9, with/without trailers and
   truncation); after every operation the return value AND (_pos,_buffer_offset,len(_buffer),_mode,
   _size) are compared with the Coq model run (vm_compute) on the decompressor script RECORDED from
   the real zlib.decompressobj in the child (recording zlib proxy given to joblib.compressor);
3. independent oracle: io.BytesIO over the standard decoder's output (reads), zlib.decompress /
   gzip.decompress of the produced bytes (writes).  Only the oracle decides a failing input.
"""
import base64
import concurrent.futures as cf
import io
import itertools
import json
import os
import re
import sys
import zlib

sys.path.insert(0, os.path.dirname(os.path.dirname(os.path.abspath(__file__))))
sys.path.insert(0, os.path.join(os.path.dirname(os.path.dirname(os.path.abspath(__file__))), "impl"))
import common  # noqa: E402
import gen_c13  # noqa: E402
import c13_shared as sh  # noqa: E402

NPROC = min(12, common.NCPU)


# ------------------------------------------------------------------ running the implementation
def run_impl_cases(cases, script="c13_impl.py", timeout=1500, nproc=NPROC, env=None):
    if not cases:
        return []
    shards = [cases[i::nproc] for i in range(nproc)]

    def one(sh_cases):
        if not sh_cases:
            return []
        rc, out, err = common.run_impl(script, input_text="\n".join(json.dumps(c) for c in sh_cases) + "\n",
                                       timeout=timeout, env=common.impl_env(env))
        lines = [json.loads(l) for l in out.splitlines() if l.strip()]
        if len(lines) != len(sh_cases):
            raise RuntimeError("%s produced %d results for %d cases: %s" % (script, len(lines), len(sh_cases), err[-2000:]))
        return lines
    with cf.ThreadPoolExecutor(nproc) as ex:
        outs = list(ex.map(one, shards))
    res = [None] * len(cases)
    for k in range(nproc):
        for j, r in enumerate(outs[k]):
            res[k + nproc * j] = r
    return res


# ------------------------------------------------------------------ oracle (reads)
def file_payload(case):
    """what the standard decoder gets out of the case's file (whole payload for a complete file)"""
    raw, d = sh.build_file(case)
    dec = zlib.decompressobj(sh.WBITS[case["fmt"]])
    out = dec.decompress(raw)
    return raw, d, out, dec.eof


def oracle_read(case, results, dfile):
    """Reference: read-only io.BytesIO over the decoded payload, seeks clamped to the end.
    Returns (first failure text or None, number of operations judged, expansion info for readline).
    Judging stops at the first seek to a position before the start (outside the property)."""
    ref = io.BytesIO(dfile)
    closed = False
    n = len(dfile)
    judged = 0
    expand = []  # per op: number of read(1) calls readline makes (None for other ops)
    in_scope = True
    for i, o in enumerate(case["ops"]):
        if i + 1 >= len(results):
            return "no result for operation %d %s" % (i, o), judged, expand
        r = results[i + 1][0]
        if r[0] == "hang":
            return "operation %d %s never returned (%s)" % (i, o, r[1]), judged, expand
        if r[0] == "x":
            return "operation %d %s: %s" % (i, o, r[1]), judged, expand
        k = o[0]
        exp = None
        ex = None
        if k == "readinto" and len(o) > 2 and o[2] in ("ro", "romv"):
            # a read-only target: TypeError from the argument conversion, nothing consumed, open or closed
            try:
                (io.BytesIO(b"xyz") if closed else ref).readinto(sh.make_target(o[2], o[1]))
                exp = ["x", "reference accepted a read-only target"]
            except TypeError:
                exp = ["e", 2]
            expand.append(None)
            got = r[:2] if r[0] == "e" else r
            if got != exp:
                return "operation %d %s returned %s, the reference stream gives %s" % (i, o, r, exp), judged, expand
            judged += 1
            continue
        if k == "flush" and closed:
            # io.BytesIO raises ValueError, BinaryZlibFile.flush() (= IOBase.flush) returns None: flush is not among
            # the operations of the property; not judged (the model says None)
            expand.append(None)
            continue
        if closed:
            exp = ["none"] if k == "close" else (["t", True] if o == ["q", "closed"] else ["e", 1])
            if k == "readline":
                ex = 1
        elif k == "read":
            b = ref.read() if o[1] is None or o[1] < 0 else ref.read(o[1])
            exp = ["b", sh.sha(b), len(b)]
        elif k == "readinto":
            # io.BytesIO.readinto on the same kind of target (bytearray, memoryview, array.array, cast view, ctypes)
            t = sh.make_target(o[2] if len(o) > 2 else "bytearray", o[1])
            m = ref.readinto(t)
            ba = sh.target_bytes(t)
            exp = ["i", sh.sha(ba[:m]), m, ba[m:] == b"\xaa" * (o[1] - m)]
        elif k == "readline":
            p0 = ref.tell()
            b = ref.readline(o[1])
            exp = ["b", sh.sha(b), len(b)]
            # IOBase.readline without peek(): read(1) until newline / limit / b''
            ex = len(b) + (0 if (b.endswith(b"\n") or (o[1] >= 0 and len(b) >= o[1])) else 1)
            if o[1] == 0:
                ex = 0
            del p0
        elif k == "seek" and case.get("via") == "pipe":
            exp = ["e", 101]       # not seekable: io.UnsupportedOperation
        elif k == "q" and o[1] == "seekable" and case.get("via") == "pipe":
            exp = ["t", False]
        elif k == "seek":
            if o[2] not in (0, 1, 2):
                exp = ["e", 1]
            else:
                target = o[1] if o[2] == 0 else (ref.tell() + o[1] if o[2] == 1 else n + o[1])
                if target < 0:
                    in_scope = False  # before the start: outside the property
                else:
                    ref.seek(min(target, n))
                    exp = ["n", min(target, n)]
        elif k == "tell":
            exp = ["n", ref.tell()]
        elif k == "close":
            closed = True
            exp = ["none"]
        elif k == "write":
            exp = ["e", 101]
        elif k == "q":
            exp = ["t", {"closed": False, "readable": True, "writable": False, "seekable": True}[o[1]]]
        elif k == "flush":
            exp = ["none"]
        expand.append(ex)
        if not in_scope:
            # keep the expansion list aligned, stop judging
            for o2 in case["ops"][i + 1:]:
                expand.append(None if o2[0] != "readline" else -1)
            return None, judged, expand
        got = r[:2] if r[0] == "e" else r
        if got != exp:
            return "operation %d %s returned %s, the reference stream gives %s" % (i, o, r, exp), judged, expand
        judged += 1
    return None, judged, expand


# ------------------------------------------------------------------ model
REQ = """From Coq Require Import ZArith List Bool.
Require Import JV.Base.PyPrelude JV.Model.ZlibFile.
Import ListNotations. Open Scope Z_scope."""
DEFS = """Fixpoint rl_run (K F : nat) (limits : list Z) (st : rstate) : list (list Z) :=
  match limits with
  | [] => []
  | l :: t => match do_readline K F l st with
              | Some (VBytes b, st') => b :: rl_run K F t st'
              | _ => [[-1]]
              end
  end.
Definition idc (c : unit) (d : bytes) : unit * bytes := (c, d).
Definition idf (c : unit) : bytes := [].
Definition show_w (x : list res * wstate unit) :=
  (map show_res (fst x), wpos unit (snd x), mode_code (wmode unit (snd x)), len (wfile unit (snd x)))."""


def zl(xs):
    return common.coq_list(common.zlit(x) for x in xs)


def script_expr(sc):
    if sc["complete"]:
        lens = sc["lens"]
        return "Complete (mk_outs 0 %s) (zrange %d %d) (zeros %d) (map zeros %s)" % (
            zl(lens[:-1]), sum(lens[:-1]), lens[-1], sc["unused"], zl(sc["extra"]))
    return "Truncated (mk_outs 0 %s)" % zl(sc["lens"])


def model_ops(case, expand):
    """Gallina op list; readline is expanded into the read(1) calls IOBase.readline makes.
    Returns (text, groups) where groups[i] = number of model ops standing for case op i."""
    out, groups = [], []
    for o, ex in zip(case["ops"], expand):
        k = o[0]
        if k == "read":
            out.append("ORead %s" % common.zlit(-1 if o[1] is None else o[1]))
            groups.append(1)
        elif k == "readinto":
            # the model's readinto takes the BYTE length of the target; a read-only target is its own operation
            out.append("OReadintoRO" if len(o) > 2 and o[2] in ("ro", "romv") else "OReadinto %s" % common.zlit(o[1]))
            groups.append(1)
        elif k == "readline":
            if ex is None or ex < 0:
                return None, None
            out.extend(["ORead 1"] * ex)
            groups.append(ex)
        elif k == "seek":
            out.append("OSeek %s %s" % (common.zlit(o[1]), common.zlit(o[2])))
            groups.append(1)
        elif k == "tell":
            out.append("OTell")
            groups.append(1)
        elif k == "close":
            out.append("OClose")
            groups.append(1)
        elif k == "write":
            out.append("OWrite")
            groups.append(1)
        elif k == "q":
            out.append("OQuery Q" + o[1].capitalize())
            groups.append(1)
        elif k == "flush":
            out.append("OFlush")
            groups.append(1)
    return common.coq_list(out), groups


def read_expr(case, sc, expand, fill="fill_buffer"):
    ops, groups = model_ops(case, expand)
    if ops is None:
        return None, None
    e = ("let file := file_of (%s) in show_trace (trace %s (fuel_for file) file %s (init_state file))"
         % (script_expr(sc), fill, ops))
    return e, groups


def parse_trace(s):
    ints = [int(x) for x in re.findall(r"-?\d+", s.replace("%Z", ""))]
    if len(ints) % 8:
        raise RuntimeError("cannot parse model trace: " + s[:200])
    return [(ints[i:i + 3], ints[i + 3:i + 8]) for i in range(0, len(ints), 8)]


def compare_read(case, r, mtrace, groups, dfile, drift=None, scope_end=None):
    """model trace vs implementation results; returns first difference or None.
    A state that differs only in how the read-ahead is represented (_buffer_offset / len(_buffer) with the
    same number of buffered bytes left, same _pos, _mode, _size) is recorded in `drift`, not reported."""
    res = r["results"][1:]
    j = 0
    for i, o in enumerate(case["ops"]):
        if scope_end is not None and i > scope_end:
            return None  # after a seek before the start nothing is claimed (checked up to and incl. that seek)
        if i >= len(res):
            return "implementation stopped at operation %d" % i
        g = groups[i]
        ents = mtrace[j:j + g]
        j += g
        if len(ents) < g or any(e[0][0] == 9 for e in ents):
            return "model ran out of fuel at operation %d %s" % (i, o)
        impl_r, impl_st = res[i]
        if impl_r[0] == "hang":
            return "implementation hangs at operation %d %s, the model returns" % (i, o)
        if o[0] == "readline":
            # concatenation of the read(1) results
            exc = [e for e in ents if e[0][0] == 3]
            if exc:
                mr = ["e", exc[0][0][1]]
            else:
                parts = [e[0] for e in ents if e[0][2] > 0]
                start = parts[0][1] if parts else 0
                ok = all(p[1] == start + q for q, p in enumerate(parts))
                b = dfile[start:start + len(parts)] if ok else None
                mr = ["b", sh.sha(b) if b is not None else "?", len(parts)]
            mst = ents[-1][1] if ents else None
        else:
            (tag, a, b), mst = ents[0]
            if tag == 0:
                mr = ["b", sh.sha(dfile[a:a + b]) if a >= 0 else "?", b]
            elif tag == 4:
                mr = ["i", sh.sha(dfile[a:a + b]) if a >= 0 else "?", b, True]
            elif tag == 1:
                mr = ["n", a]
            elif tag == 2:
                mr = ["none"]
            elif tag == 5:
                mr = ["t", bool(a)]
            else:
                mr = ["e", a]
        got = impl_r[:2] if impl_r[0] == "e" else impl_r
        if got != mr:
            return "operation %d %s: implementation returned %s, model %s" % (i, o, impl_r, mr)
        if mst is not None and list(mst) != impl_st:
            m = list(mst)
            if (drift is not None and m[0] == impl_st[0] and m[3:] == impl_st[3:]
                    and m[2] - m[1] == impl_st[2] - impl_st[1]):
                drift.append((i, o, impl_st, m))
                continue
            return ("operation %d %s: (_pos,_buffer_offset,len(_buffer),_mode,_size) is %s in the implementation, "
                    "%s in the model" % (i, o, impl_st, list(mst)))
    return None


# ------------------------------------------------------------------ generators
SMALL_ALPHABET = [["read", 1], ["read", 3], ["read", -1], ["readinto", 2, "arrH"], ["seek", 0, 0], ["seek", 4, 0],
                  ["seek", -1, 1], ["seek", -2, 2], ["tell"]]


def gen_exhaustive(quick):
    cases = []
    base = [dict(fmt="zlib", level=6, payload={"gen": "lcg", "n": 11, "seed": 3}, bufsize=3, maxlen=3),
            dict(fmt="gzip", level=6, payload={"gen": "lcg", "n": 9, "seed": 4}, bufsize=4, maxlen=2),
            dict(fmt="zlib", level=6, payload={"gen": "rep", "n": 40, "seed": 1}, bufsize=None, maxlen=2),
            dict(fmt="zlib", level=1, payload={"gen": "lcg", "n": 7, "seed": 5}, bufsize=2, maxlen=2,
                 trailer={"kind": "bytes", "n": 3}),
            dict(fmt="zlib", level=6, payload={"gen": "lcg", "n": 48000, "seed": 8}, bufsize=None, maxlen=2,
                 via="shortraw", short_seed=11)]
    if not quick:
        base.append(dict(fmt="gzip", level=9, payload={"gen": "lcg", "n": 13, "seed": 6}, bufsize=5, maxlen=3,
                         trailer={"kind": "stream"}))
        base.append(dict(fmt="zlib", level=6, payload={"gen": "lcg", "n": 11, "seed": 3}, bufsize=3, maxlen=3,
                         trunc=14))
    for b in base:
        for L in range(1, b["maxlen"] + 1):
            for ops in itertools.product(SMALL_ALPHABET, repeat=L):
                c = {"kind": "read", "fmt": b["fmt"], "level": b["level"], "payload": b["payload"],
                     "bufsize": b["bufsize"], "trailer": b.get("trailer"), "trunc": b.get("trunc"),
                     "via": b.get("via", "bytesio"), "short_seed": b.get("short_seed"),
                     "ops": [list(o) for o in ops], "family": "exhaustive"}
                cases.append(c)
    return cases


SIZES = [0, 1, 2, 100, 8191, 8192, 8193, 16384, 24577, 70000]


def gen_ops(rng, n, text, length):
    ops = []
    pos = 0  # rough position, only to bias the choices
    marks = sorted({0, 1, n // 2, max(n - 1, 0), n, n + 1, n + 10, 8191, 8192, 8193, 16384} | {min(n, 4096)})
    for _ in range(length):
        x = rng.random()
        if x < 0.30:
            k = rng.choice([1, 2, 10, 100, 4096, 8191, 8192, 8193, 10000, 100000, max(1, n - pos), max(1, n - pos - 1),
                            rng.randint(1, max(2, n))])
            ops.append(["read", k])
            pos = min(n, pos + k)
        elif x < 0.36:
            ops.append(["read", rng.choice([-1, None, -5, 0])])
            if ops[-1][1] != 0:
                pos = n
        elif x < 0.48:
            k = rng.choice([0, 1, 7, 100, 8192, 8193, rng.randint(0, max(1, n))])
            kind = rng.choice(["bytearray", "bytearray"] + sorted(sh.TARGET_KINDS))
            k -= k % sh.TARGET_KINDS[kind]          # k is the byte length of the target
            ops.append(["readinto", k, kind])
            if kind not in ("ro", "romv"):
                pos = min(n, pos + k)
        elif x < 0.56 and text:
            ops.append(["readline", rng.choice([-1, -1, 1, 5, 300])])
        elif x < 0.70:
            t = rng.choice(marks + [rng.randint(0, n + 5)])
            ops.append(["seek", t, 0])
            pos = min(n, t)
        elif x < 0.80:
            d = rng.choice([0, 1, -1, 5, -5, 100, -100, 8192, -8192, rng.randint(-n - 1, n + 1)])
            if pos + d < 0 and rng.random() < 0.9:
                d = -pos
            ops.append(["seek", d, 1])
            pos = max(0, min(n, pos + d))
        elif x < 0.90:
            d = rng.choice([0, 0, -1, -2, -n, -(n // 2), 3, -rng.randint(0, n + 1)])
            if n + d < 0 and rng.random() < 0.9:
                d = -n
            ops.append(["seek", d, 2])
            pos = max(0, min(n, n + d))
        elif x < 0.94:
            ops.append(["tell"])
        elif x < 0.955:
            ops.append(["q", rng.choice(["closed", "readable", "writable", "seekable"])])
        elif x < 0.96:
            ops.append(["flush"])
        elif x < 0.975:
            ops.append(["seek", rng.randint(0, 5), rng.choice([3, -1, 7])])
        elif x < 0.985:
            ops.append(["write"])
        elif x < 0.995:
            ops.append(["close"])
        else:
            ops.append(["seek", -rng.randint(1, 9), 0])  # before the start: outside the property
    return ops


def gen_random(rng, count):
    cases = []
    for i in range(count):
        n = rng.choice(SIZES) if rng.random() < 0.8 else rng.randint(0, 30000)
        gen = rng.choice(["lcg", "lcg", "rep", "zeros", "text"])
        fmt = rng.choice(["zlib", "gzip"])
        bufsize = None
        if n <= 300 and rng.random() < 0.5:
            bufsize = rng.choice([1, 2, 3, 7, 64])
        elif rng.random() < 0.15:
            bufsize = rng.choice([1000, 4096, 8191])
        trailer = None
        t = rng.random()
        if t < 0.10:
            trailer = {"kind": "bytes", "n": 1}
        elif t < 0.18:
            trailer = {"kind": "bytes", "n": 9}
        elif t < 0.26:
            trailer = {"kind": "stream"}
        elif t < 0.30:
            trailer = {"kind": "bytes", "n": rng.choice([8192, 20000])}
        c = {"kind": "read", "fmt": fmt, "level": rng.randint(1, 9), "payload": {"gen": gen, "n": n, "seed": i},
             "bufsize": bufsize, "trailer": trailer, "trunc": None, "via": "path" if rng.random() < 0.1 else "bytesio",
             "family": "random"}
        v = rng.random()
        if v < 0.14:      # an underlying raw stream that legally returns short reads
            c["via"], c["short_seed"] = "shortraw", rng.randrange(10 ** 6)
        elif v < 0.17 and trailer is None:
            c["via"], c["short_seed"] = "pipe", rng.randrange(10 ** 6)
        if trailer is None and rng.random() < 0.08:
            flen = len(sh.build_file(c)[0])
            c["trunc"] = rng.choice([0, 1, 2, flen // 2, flen - 1, flen - 4, max(0, flen - 5), rng.randint(0, flen)])
            c["trunc"] = max(0, min(flen, c["trunc"]))
        c["ops"] = gen_ops(rng, n, gen == "text", rng.choice([1, 2, 3, 5, 8, 13, 20, 40]))
        if c["via"] == "pipe":   # forward-only stream: reads, readinto, tell, queries (a seek raises UnsupportedOperation)
            c["ops"] = [o for o in c["ops"] if o[0] in ("read", "readinto", "readline", "tell", "q")][:12] + [["seek", 0, 0],
                                                                                                                ["read", -1], ["tell"]]
            c["trunc"] = None
        cases.append(c)
    return cases


def gen_bigcomp(rng, quick):
    """payloads so compressible that ONE raw block of the file expands to more than 512 KiB (ratio > 64:1; runs of one
    byte, short periods), 512 KiB + 1 ... 3 MiB, every compresslevel, read in one read(), in chunks, through readinto,
    with seeks to and from the end"""
    sizes = [524289, 614400, 1048576] if quick else [524289, 614400, 1048576, 2 * 1048576 + 17, 3 * 1048576]
    cases = []
    i = 0
    for level in range(1, 10):
        for n in (sizes[level % len(sizes):] + sizes)[:1 if quick else len(sizes)]:
            i += 1
            gen = ["run", "zeros", "period"][i % 3]
            style = i % 4
            if style == 0:
                ops = [["read", -1], ["tell"], ["read", 5]]
            elif style == 1:
                ops = [["read", 200000]] * (n // 200000 + 2) + [["tell"]]
            elif style == 2:
                ops = [["readinto", 300000, "bytearray"], ["readinto", 400000, "arrI"], ["seek", 0, 2], ["tell"],
                       ["seek", -5, 2], ["read", 10]]
            else:
                ops = [["seek", 0, 2], ["seek", -7, 1], ["read", -1], ["seek", 0, 0], ["read", 524288], ["read", -1], ["tell"]]
            cases.append({"kind": "read", "fmt": "gzip" if i % 5 == 0 else "zlib", "level": level,
                          "payload": {"gen": gen, "n": n, "seed": i}, "bufsize": None,
                          "trailer": {"kind": "bytes", "n": 9} if i % 7 == 0 else None, "trunc": None, "via": "bytesio",
                          "ops": ops, "family": "bigcomp"})
    return cases


def gen_write(rng, count):
    cases = []
    for i in range(count):
        n = rng.choice(SIZES) if rng.random() < 0.8 else rng.randint(0, 30000)
        gen = rng.choice(["lcg", "rep", "zeros", "text"])
        style = rng.choice(["one", "bytes1", "random", "blocks", "empties"])
        if style == "one":
            chunks = [n]
        elif style == "bytes1":
            n = min(n, 300)
            chunks = [1] * n
        elif style == "blocks":
            chunks = [8192] * (n // 8192) + ([n % 8192] if n % 8192 else [])
        else:
            chunks, left = [], n
            while left > 0:
                k = min(left, rng.choice([0, 1, 2, 100, 8191, 8192, 8193, rng.randint(0, max(1, n))]))
                if style != "empties" and k == 0:
                    k = 1
                chunks.append(k)
                left -= k
            if style == "empties":
                chunks.append(0)
        ops = []
        for k in range(len(chunks)):
            ops.append(["writemv" if rng.random() < 0.15 else "write", k])
            if rng.random() < 0.2:
                ops.append(["tell"])
            if rng.random() < 0.03:
                ops.append(rng.choice([["read"], ["seek"]]))
            if rng.random() < 0.04:
                ops.append(rng.choice([["q", "closed"], ["q", "readable"], ["q", "writable"], ["q", "seekable"], ["flush"]]))
        if rng.random() < 0.15:
            ops.append(["close"])
            ops.append(rng.choice([["tell"], ["write", 0] if chunks else ["tell"], ["close"], ["read"], ["q", "closed"],
                                   ["q", "writable"], ["flush"]]))
        if len(ops) > 400:
            ops = ops[:400]
        cases.append({"kind": "write", "fmt": rng.choice(["zlib", "gzip"]), "level": 1 + i % 9,
                      "payload": {"gen": gen, "n": n, "seed": i}, "chunks": chunks, "ops": ops,
                      "via": "path" if rng.random() < 0.1 else "bytesio"})
    return cases


# ------------------------------------------------------------------ oracle + model (writes)
def judge_write(case, r):
    d = sh.payload(case["payload"])
    chunks, p = [], 0
    for n in case["chunks"]:
        chunks.append(d[p:p + n])
        p += n
    res = r["results"][1:]
    written = []
    closed = False
    for i, o in enumerate(case["ops"]):
        got = res[i][0]
        got = got[:2] if got[0] == "e" else got
        if o[0] == "flush":
            exp = ["none"]   # IOBase.flush: nothing to do, and (not judged as a stream property) no error when closed
        elif closed:
            exp = ["none"] if o[0] == "close" else (["t", True] if o == ["q", "closed"] else ["e", 1])
        elif o[0] == "q":
            exp = ["t", {"closed": False, "readable": False, "writable": True, "seekable": False}[o[1]]]
        elif o[0] in ("write", "writemv"):
            exp = ["n", len(chunks[o[1]])]
            written.append(chunks[o[1]])
        elif o[0] == "tell":
            exp = ["n", sum(map(len, written))]
        elif o[0] in ("read", "seek"):
            exp = ["e", 101]
        else:
            closed = True
            exp = ["none"]
        if got != exp:
            return "write-mode operation %d %s returned %s, expected %s" % (i, o, got, exp)
    raw = base64.b64decode(r["file"])
    try:
        dec = sh.std_decode(raw, case["fmt"])
    except Exception as e:  # noqa
        return "the standard %s decoder rejects the produced stream: %r" % (case["fmt"], e)
    if dec != b"".join(written):
        return "the standard %s decoder expands the produced stream to %d bytes that differ from the %d written" % (
            case["fmt"], len(dec), sum(map(len, written)))
    return None


def write_expr(case):
    ops = []
    for o in case["ops"]:
        if o[0] in ("write", "writemv"):
            ops.append("WWrite (zeros %d)" % case["chunks"][o[1]])
        elif o[0] == "q":
            ops.append("WQuery Q" + o[1].capitalize())
        else:
            ops.append({"tell": "WTell", "read": "WRead", "seek": "WSeek", "close": "WClose", "flush": "WFlush"}[o[0]])
    ops.append("WClose")
    return "show_w (wrun unit idc idf %s (winit unit tt))" % common.coq_list(ops)


def compare_write(case, r, s):
    ints = [int(x) for x in re.findall(r"-?\d+", s.replace("%Z", ""))]
    body, (wpos, wmode, wlen) = ints[:-3], ints[-3:]
    ents = [body[i:i + 3] for i in range(0, len(body), 3)]
    res = r["results"][1:]
    if len(ents) != len(res):
        return "model produced %d results, implementation %d" % (len(ents), len(res))
    for i, ((tag, a, b), (ir, ist)) in enumerate(zip(ents, res)):
        mr = ["n", a] if tag == 1 else (["none"] if tag == 2 else (["t", bool(a)] if tag == 5 else ["e", a]))
        got = ir[:2] if ir[0] == "e" else ir
        if got != mr:
            return "write-mode operation %d: implementation %s, model %s" % (i, ir, mr)
    if res[-1][1] != [wpos, wmode]:
        return "final (_pos,_mode) %s in the implementation, %s in the model" % (res[-1][1], [wpos, wmode])
    return None


# ------------------------------------------------------------------ readline on the real bytes
def gen_readlines(rng, count):
    cases = []
    for i in range(count):
        n = rng.choice([0, 1, 30, 120, 300])
        limits = [rng.choice([-1, -1, -1, 1, 3, 10, 1000]) for _ in range(rng.choice([1, 3, 8, 40]))]
        cases.append({"kind": "read", "fmt": rng.choice(["zlib", "gzip"]), "level": rng.randint(1, 9),
                      "payload": {"gen": "text", "n": n, "seed": i}, "bufsize": rng.choice([None, 1, 5, 16]),
                      "trailer": rng.choice([None, None, {"kind": "bytes", "n": 3}]), "trunc": None, "via": "bytesio",
                      "ops": [["readline", l] for l in limits], "family": "readlines"})
    return cases


def eval_readlines(ctx, cases, stats):
    """Model/ZlibFile.do_readline (the IOBase.readline loop over read(1)) on the REAL bytes of the script vs the
    implementation's readline results and io.BytesIO.readline."""
    res = run_impl_cases(cases)
    fails, disagree = [], []
    exprs, meta = [], []
    for c, r in zip(cases, res):
        if "skipped" in r or "harness_error" in r:
            continue
        raw, d, dfile, complete = file_payload(c)
        bad, judged, expand = oracle_read(c, r["results"], dfile)
        stats["ops_judged"] += judged
        if bad:
            fails.append((bad, c, r))
            continue
        sc, outs, _ = sh.script_of(raw, c["fmt"], r["bufsize"])
        lit = [zl(list(o)) for o in outs]
        if sc["complete"]:
            script = "Complete %s %s (zeros %d) (map zeros %s)" % (common.coq_list(lit[:-1]), lit[-1], sc["unused"],
                                                                      zl(sc["extra"]))
        else:
            script = "Truncated %s" % common.coq_list(lit)
        exprs.append("let file := file_of (%s) in rl_run %d (fuel_for file) %s (init_state file)" % (
            script, len(dfile) + 2, zl([o[1] for o in c["ops"]])))
        meta.append((c, r, dfile))
    vals = ctx.coq_eval_lines(REQ, DEFS, exprs, name="c13_readlines", shard=30)
    for (c, r, dfile), v in zip(meta, vals):
        lines = [[int(x) for x in re.findall(r"-?\d+", part)] for part in re.findall(r"\[([^\[\]]*)\]", v.replace("%Z", ""))]
        impl = [x[0] for x in r["results"][1:]]
        stats["model_evals"] += 1
        ok = len(lines) == len(impl) and all(
            i[0] == "b" and i[1] == sh.sha(bytes(l)) and i[2] == len(l) for i, l in zip(impl, lines))
        if not ok:
            disagree.append(("readline: implementation %s, model (do_readline) %s" % (impl[:6], lines[:6]), c, r))
        elif len(dfile) > 1:
            stats["nontrivial"].add(json.dumps([c["payload"], c["fmt"], c["bufsize"], c["ops"]]))
    return fails, disagree


# ------------------------------------------------------------------ concurrent writers on one file object
def gen_cwrite(quick):
    cases = []
    shapes = [([[9000], [9000]], [0, 0]),                       # A pre-empted at its first write (header), B writes
              ([[9000, 9000], [9000, 12000]], [0, 1]),          # A pre-empted at its second write
              ([[9000], [9000, 100], [20000]], [1, 0]),         # three writers
              ([[30, 9000], [5], [9000]], [2, 0])]
    for i, (threads, gate) in enumerate(shapes):
        for fmt in ("zlib", "gzip"):
            if quick and (i + (fmt == "gzip")) % 2 and i > 1:
                continue
            cases.append({"kind": "cwrite", "fmt": fmt, "level": 1 + (3 * i) % 9, "threads": threads, "gate": gate,
                          "seed": i, "grace": 0.4})
    return cases


def judge_cwrite(c, r):
    """the produced bytes decode with the standard decoder to SOME interleaving of the threads' chunk sequences:
    every chunk whole, each thread's chunks in its own order, nothing lost, nothing added"""
    chunks = sh.cw_chunks(c)
    for t, row in enumerate(chunks):
        if r["rets"][t] != [len(x) for x in row]:
            return "writer thread %d: write() returned %s, expected the chunk lengths %s" % (t, r["rets"][t], [len(x) for x in row])
    total = sum(len(x) for row in chunks for x in row)
    if r["tell"] != total:
        return "tell() after all writes is %s, %d bytes were written" % (r["tell"], total)
    raw = base64.b64decode(r["file"])
    try:
        dec = sh.std_decode(raw, c["fmt"])
    except Exception as e:  # noqa
        return ("%d threads writing through ONE %s file object (underlying write %s pre-empted): the standard decoder "
                "rejects the result: %r" % (len(chunks), c["fmt"], c["gate"], e))
    nxt = [0] * len(chunks)
    p = 0
    while p < len(dec):
        for t, row in enumerate(chunks):
            if nxt[t] < len(row) and dec.startswith(row[nxt[t]], p):
                p += len(row[nxt[t]])
                nxt[t] += 1
                break
        else:
            return "the decoded stream is not an interleaving of the threads' chunks (offset %d of %d)" % (p, len(dec))
    if any(nxt[t] != len(row) for t, row in enumerate(chunks)):
        return "chunks were lost: %s of %s written per thread" % (nxt, [len(r_) for r_ in chunks])
    return None


# ------------------------------------------------------------------ evaluation of a batch
def evaluate(ctx, cases, name, stats, shard=None):
    """runs implementation, oracle and model on read cases.
    Returns (oracle_failures, disagreements, script_failures)."""
    res = run_impl_cases(cases)
    oracle_fail, disagree, script_fail = [], [], []
    exprs, meta = [], []
    for c, r in zip(cases, res):
        if "skipped" in r:
            stats["skipped"] = stats.get("skipped", 0) + 1
            continue
        if "harness_error" in r:
            oracle_fail.append(("harness error in the implementation runner: " + r["harness_error"], c, r))
            continue
        raw, d, dfile, complete = file_payload(c)
        if sh.sha(raw) != r["file_sha"]:
            raise RuntimeError("parent and child built different files for " + json.dumps(c))
        bad, judged, expand = oracle_read(c, r["results"], dfile)
        stats["ops_judged"] += judged
        if bad and "no result after" in bad:
            # a timer-based hang: confirm once, alone, with a much longer limit (never decide on wall-clock luck)
            if stats.get("hang_retries", 0) >= 1:
                if oracle_fail:
                    stats["unconfirmed_hangs"] = stats.get("unconfirmed_hangs", 0) + 1
                continue
            stats["hang_retries"] = stats.get("hang_retries", 0) + 1
            r2 = run_impl_cases([c], nproc=1, env={"VERIF_C13_ALARM": "30"})[0]
            bad2 = oracle_read(c, r2["results"], dfile)[0] if "results" in r2 else "no result"
            if bad2 and "never returned" in bad2:
                oracle_fail.append((bad + " (confirmed with a 30 s limit)", c, r))
            else:
                stats.setdefault("inconclusive", []).append(bad)
            continue
        if bad:
            oracle_fail.append((bad, c, r))
            continue
        if c.get("via") == "pipe":
            stats["pipe_cases"] = stats.get("pipe_cases", 0) + 1
            continue       # block boundaries decided by timing: judged by the oracle only
        sc = r["script"]
        if not r["script_ok"]:
            script_fail.append(("the decompressor was not driven as the script assumes: %s" % r["script_why"], c, r))
            continue
        if sum(sc["lens"]) != len(dfile) or sc["complete"] != complete:
            script_fail.append(("block-wise and one-shot decompression disagree", c, r))
            continue
        e, groups = read_expr(c, sc, expand)
        if e is None:
            continue
        exprs.append(e)
        meta.append((c, r, groups, dfile, judged if judged < len(c["ops"]) else None))
        stats["blocks"][min(len(sc["lens"]), 10)] = stats["blocks"].get(min(len(sc["lens"]), 10), 0) + 1
        if any(x == 0 for x in sc["lens"]):
            stats["scripts_with_empty_block"] += 1
        if sc["complete"] and (sc["unused"] or sc["extra"]):
            stats["with_trailer"] += 1
        if not sc["complete"]:
            stats["truncated"] += 1
    vals = ctx.coq_eval_lines(REQ, DEFS, exprs, name=name,
                              shard=shard or max(20, min(200, len(exprs) // (2 * common.NCPU) + 1)))
    for (c, r, groups, dfile, scope_end), v in zip(meta, vals):
        drift = []
        diff = compare_read(c, r, parse_trace(v), groups, dfile, drift, scope_end)
        if scope_end is not None:
            # beyond the scope the model is still compared, but a difference there is only reported as a note
            d2 = compare_read(c, r, parse_trace(v), groups, dfile, [], None)
            if d2 and not diff:
                stats["out_of_scope_diff"] = stats.get("out_of_scope_diff", 0) + 1
                stats.setdefault("out_of_scope_example", d2)
        stats["model_evals"] += 1
        if drift:
            stats["drift"] = stats.get("drift", 0) + 1
            stats.setdefault("drift_example", [c, drift[0]])
        if diff:
            disagree.append((diff, c, r))
        else:
            # non-trivial: the history crossed a block boundary, rewound, or hit EOF
            sts = [x[1] for x in r["results"]]
            if len(r["epochs"]) > 1 or any(s[3] == 2 for s in sts) or max(r["epochs"] or [0]) > 1:
                stats["nontrivial"].add(json.dumps([c["payload"], c["fmt"], c["level"], c["bufsize"], c["trailer"],
                                                    c["trunc"], c["ops"]], sort_keys=True))
    return oracle_fail, disagree, script_fail


def search_failing(ctx, n=300):
    """oracle-only search for a failing input (used when a proof or the correspondence breaks)"""
    cases = gen_bigcomp(ctx.rng, True) + gen_exhaustive(True)[:900] + gen_random(ctx.rng, n)
    res = run_impl_cases(cases)
    for c, r in zip(cases, res):
        if "harness_error" in r or "skipped" in r:
            continue
        raw, d, dfile, complete = file_payload(c)
        bad, _, _ = oracle_read(c, r["results"], dfile)
        if bad:
            return bad, c
    wcases = gen_write(ctx.rng, 60)
    for c, r in zip(wcases, run_impl_cases(wcases)):
        if "harness_error" in r or "skipped" in r:
            continue
        bad = judge_write(c, r)
        if bad:
            return bad, c
    return None


def regenerate(ctx):
    """Gen/C13_Constants.v from the live module + the structural facts the model assumes (fail-closed)"""
    try:
        _, changed, facts = gen_c13.generate()
    except Exception as e:  # noqa
        ctx.violation("cannot regenerate Gen/C13_Constants.v from joblib.compressor: %s" % e,
                      {"kind": "regeneration"}, found_input=False)
        return ["regeneration failed"]
    if changed:
        ctx.note("Gen/C13_Constants.v changed: %s" % {k: v for k, v in facts.items() if k != "assumption_failures"})
    return facts["assumption_failures"]


def run(ctx):
    quick = ctx.tier == "quick"
    trusted = [
        "Coq 8.16.1 kernel (coqc, full .vo build); vm_compute for the model runs; no native_compute",
        "zlib.decompressobj is represented by a recorded script (output per _BUFFER_SIZE raw block, eof, unused_data); "
        "the script is recorded from the real object on every case and the calls the file object really makes are "
        "compared with it (recording proxy installed as joblib.compressor.zlib from the harness)",
        "zlib.compressobj + the standard decoders: hypothesis inflate(compress(d1)+..+flush()) = d1+..; checked on "
        "every write case with zlib.decompress / gzip.decompress",
        "io.BufferedIOBase.readinto (C) = read(len(b)) + copy; IOBase.readline without peek() = repeated read(1)",
        "harness: generators, canonicalisation (chunks are compared through (start,len) in an index payload and "
        "sha1 of the real bytes), the BytesIO reference oracle",
    ]
    structural = regenerate(ctx)
    proofs_ok = ctx.standard_proof_stage("C13", search=lambda: search_failing(ctx))
    stats = {"ops_judged": 0, "model_evals": 0, "blocks": {}, "scripts_with_empty_block": 0, "with_trailer": 0,
             "truncated": 0, "nontrivial": set()}
    cases = []
    corpus_path = os.path.join(common.ROOT, "corpus", "c13.jsonl")
    if os.path.exists(corpus_path):
        cases += [json.loads(l) for l in open(corpus_path) if l.strip()]
    ex_cases = gen_exhaustive(quick)
    rnd_cases = gen_random(ctx.rng, 700 if quick else 6000)
    cases += ex_cases + rnd_cases
    oracle_fail, disagree, script_fail = evaluate(ctx, cases, "c13_read", stats)
    big_cases = gen_bigcomp(ctx.rng, quick)
    b_fail, b_dis, b_script = evaluate(ctx, big_cases, "c13_big", stats, shard=1)
    oracle_fail += b_fail
    disagree += b_dis
    script_fail += b_script
    rl_cases = gen_readlines(ctx.rng, 40 if quick else 300)
    rl_fail, rl_dis = eval_readlines(ctx, rl_cases, stats)
    oracle_fail += rl_fail
    disagree += rl_dis
    # writes
    wcases = gen_write(ctx.rng, 160 if quick else 1200)
    wres = run_impl_cases(wcases)
    wexprs, wmeta = [], []
    for c, r in zip(wcases, wres):
        if "skipped" in r:
            continue
        if "harness_error" in r:
            oracle_fail.append(("harness error in the implementation runner: " + r["harness_error"], c, r))
            continue
        bad = judge_write(c, r)
        if bad:
            oracle_fail.append((bad, c, r if len(r.get("file", "")) < 2000 else {"results": r["results"][:5]}))
            continue
        wexprs.append(write_expr(c))
        wmeta.append((c, r))
    wvals = ctx.coq_eval_lines(REQ, DEFS, wexprs, name="c13_write", shard=40)
    for (c, r), v in zip(wmeta, wvals):
        diff = compare_write(c, r, v)
        stats["model_evals"] += 1
        if diff:
            disagree.append((diff, c, {"results": r["results"][:8]}))
        elif len(c["chunks"]) > 1:
            stats["nontrivial"].add(json.dumps([c["payload"], c["fmt"], c["level"], c["chunks"][:50], c["ops"][:50]]))
    # concurrent writers sharing one file object (the class takes a lock so that it stays a stream)
    cw_cases = gen_cwrite(quick)
    for c, r in zip(cw_cases, run_impl_cases(cw_cases, nproc=4)):
        if "skipped" in r:
            continue
        if "harness_error" in r:
            oracle_fail.append(("harness error in the implementation runner: " + r["harness_error"], c, r))
            continue
        bad = judge_cwrite(c, r)
        if bad:
            oracle_fail.append((bad, c, {"rets": r["rets"], "tell": r["tell"]}))
        else:
            stats["nontrivial"].add(json.dumps(c))
    # decide
    for x in stats.get("inconclusive", []):
        ctx.note("inconclusive (returned when retried alone with a 30 s limit): " + x)
    if stats.get("skipped"):
        ctx.note("%d cases skipped after timer-detected hangs in the same runner process" % stats["skipped"])
    if stats.get("out_of_scope_diff"):
        ctx.note("%d histories differ from the model only AFTER a seek to a position before the start (outside the "
                 "property): %s" % (stats["out_of_scope_diff"], stats["out_of_scope_example"]))
    if stats.get("drift"):
        ctx.note("representation drift in %d cases: _buffer_offset/len(_buffer) differ from the model while the "
                 "buffered byte count, _pos, _mode, _size and every return value agree (e.g. %s)"
                 % (stats["drift"], json.dumps(stats["drift_example"])[:400]))
    for bad, c, r in oracle_fail[:3]:
        ctx.violation(bad, {"kind": "oracle", "case": c, "impl": _short(r)}, True)
    broken = disagree + script_fail
    # readline and flush are exercised behaviourally (histories, do_readline on real bytes): an own definition that
    # behaves like io's is a rewrite, reported as a note; the other names are not exercised and fail closed
    soft = [x for x in structural if " define readline " in x or " define flush " in x]
    if soft and not oracle_fail and not broken:
        ctx.note("structural assumption changed, behaviour still agrees with the model: " + "; ".join(soft))
        structural = [x for x in structural if x not in soft]
    if structural and not oracle_fail and not broken:
        hit = search_failing(ctx, 400 if quick else 3000)
        if hit:
            ctx.violation(hit[0], {"kind": "model-assumption+failing-input", "case": hit[1], "assumptions": structural}, True)
        else:
            ctx.violation("a structural assumption of the model no longer holds: " + "; ".join(structural),
                          {"kind": "model-assumption", "assumptions": structural}, found_input=False)
    if broken and not oracle_fail:
        hit = search_failing(ctx, 400 if quick else 3000)
        if hit:
            ctx.violation(hit[0], {"kind": "model-disagreement+failing-input", "case": hit[1],
                                   "first_disagreement": {"what": broken[0][0], "case": broken[0][1]}}, True)
        else:
            ctx.violation("model and implementation disagree (%d cases): %s" % (len(broken), broken[0][0]),
                          {"kind": "correspondence", "first_disagreement": {"what": broken[0][0], "case": broken[0][1],
                                                                             "impl": _short(broken[0][2])},
                           "correspondence": "Model/ZlibFile.v trace vs BinaryZlibFile/BinaryGzipFile return values "
                                             "and (_pos,_buffer_offset,len(_buffer),_mode,_size)"},
                          found_input=False)
    sizes = {}
    for c in rnd_cases:
        sizes[c["payload"]["n"] if c["payload"]["n"] in SIZES else "other"] = sizes.get(
            c["payload"]["n"] if c["payload"]["n"] in SIZES else "other", 0) + 1
    ctx.finish({
        "evaluations": len(cases) + len(wcases) + len(rl_cases) + len(big_cases) + len(cw_cases),
        "concurrent_writer_schedules": len(cw_cases),
        "highly_compressible_large_payload_cases": len(big_cases),
        "readline_cases_on_real_bytes": len(rl_cases),
        "distinct_nontrivial": len(stats["nontrivial"]),
        "rule": "read histories: all sequences of length <=3 over a 9-operation alphabet on many-block files "
                "(_BUFFER_SIZE patched to 2..5 in the child) plus random histories of length <=40 on payloads of "
                "0,1,2,100,8191,8192,8193,16384,24577,70000 and random sizes, plus highly compressible payloads (runs of one "
                "byte, short periods) of 512 KiB+1 ... 3 MiB whose single raw block expands past 512 KiB, at every level, incompressible/periodic/zero/text, "
                "levels 1-9, zlib and gzip, real _BUFFER_SIZE and small ones, trailers (1 byte, 9 bytes, a second "
                "stream, 8192/20000 bytes) and truncations; write histories over chunkings (one chunk, 1-byte chunks, "
                "8192 blocks, random incl. empty chunks, memoryview), levels 1-9. non-trivial = the history refilled "
                "across a raw-block boundary, rewound or reached EOF (reads) / more than one chunk (writes); distinct "
                "by canonical JSON",
        "samples": [ex_cases[100], rnd_cases[0], rnd_cases[len(rnd_cases) // 2], wcases[0]],
        "traces_validated_against_impl": stats["model_evals"],
        "operations_judged_by_oracle": stats["ops_judged"],
        "payload_size_distribution": sizes,
        "script_blocks_distribution(>=10 pooled)": stats["blocks"],
        "scripts_with_empty_block": stats["scripts_with_empty_block"],
        "files_with_trailer": stats["with_trailer"],
        "truncated_files": stats["truncated"],
        "exhaustive_cases": len(ex_cases),
        "random_cases": len(rnd_cases),
        "write_cases": len(wcases),
        "disagreements": len(disagree),
        "script_validation_failures": len(script_fail),
        "trusted_base": trusted,
        "exhaustive": "operation histories of length <=3 over the 9-operation alphabet on the listed small files",
    }, assumptions=[
        "zlib.decompressobj is deterministic and streaming: fed the file in order it yields the recorded blocks, "
        "sets eof at the end marker and keeps the rest in unused_data (the script); validated on every case",
        "inflate_deflate: the standard decoder expands compress(d1)+...+compress(dn)+flush() to d1+...+dn for every "
        "chunking and level (C13_write); checked on every write case",
        "the underlying file object is seekable and returns at most _BUFFER_SIZE bytes per read",
        "seek targets are at or after the start of the stream (before the start is outside the property)",
    ])


def _short(r):
    if isinstance(r, dict) and "results" in r:
        r = dict(r)
        r["results"] = r["results"][:45]
        r.pop("file", None)
    return r


def replay(ctx, path):
    obj = json.load(open(path))
    rep = obj.get("replay", obj)
    c = rep.get("case") or rep.get("input")
    if not c:
        print("replay file names a broken proof/correspondence, nothing to execute:", rep.get("kind"))
        return 1
    r = run_impl_cases([c], nproc=1)[0]
    if "harness_error" in r:
        print("replay: harness error", r["harness_error"])
        return 1
    if c["kind"] == "cwrite":
        bad = judge_cwrite(c, r)
    elif c["kind"] == "write":
        bad = judge_write(c, r)
    else:
        raw, d, dfile, complete = file_payload(c)
        bad, _, _ = oracle_read(c, r["results"], dfile)
    print("replay:", json.dumps(c)[:600], "=>", bad or "property holds")
    return 1 if bad else 0
