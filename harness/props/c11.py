"""C11 -- concurrent users of one cache directory always get correct values.

1. build Props/C11.vo (theorems about model M5) + Print Assumptions;
2. interleave correspondence: 2-3 real processes run call / reduce_size / clear workloads on one
   directory under the file-system shim in interleave mode: each blocks before every
   intercepted operation on a pipe to the scheduler below, which releases exactly one
   participant per turn following a schedule (all single-switch schedules of each pair, sampled
   double-switch and random ones).  The sequence actually executed is replayed on the model
   ([grun] with one [Run i] per operation); outcomes of every participant and the final
   directory are compared;
3. independent oracle: every call returns the plain function's value and does not raise; every
   final-named output.pkl loads to the right value; metadata.json parses;
4. known finding F14 (call vs concurrent removal of the function directory) is reported when a
   schedule hits it; the model predicts the same exception for the same schedule.
"""
import concurrent.futures as cf
import json
import os
import select
import shutil
import subprocess
import sys
import time

sys.path.insert(0, os.path.dirname(os.path.dirname(os.path.abspath(__file__))))
sys.path.insert(0, os.path.dirname(os.path.abspath(__file__)))
import common  # noqa: E402
import c05 as base  # noqa: E402

KEY_F14 = "c11:first-call-vs-concurrent-func-dir-removal:FileNotFoundError-open-func_code.py"
KEY_F14B = "c11:memory.cache-vs-concurrent-clear:FileNotFoundError-makedirs-func-dir"
KEY_F14C = "c11:call-vs-concurrent-clear:FileNotFoundError-makedirs-func-dir-in-_write_func_code"
F14C_SCHEDULE = [0] * 6 + [1] * 20 + [0] * 4 + [1] + [0] * 400
C, S = base.C, base.S
BIG = 400


class Hang(Exception):
    pass


def run_interleaved(env, loc, parts, schedule, deadline=90, groups=None):
    """parts: one session per participant; groups: lists of participant indices living in ONE process
    (threads); default: every participant is its own process.
    returns {actual sequence, [participant outputs], final state}"""
    n = len(parts)
    groups = groups or [[i] for i in range(n)]
    procs, c2s, s2c, bufs = [], [None] * n, [None] * n, [b""] * n
    for grp in groups:
        fds, subs = [], []
        for i in grp:
            r1, w1 = os.pipe()   # child -> scheduler
            r2, w2 = os.pipe()   # scheduler -> child
            c2s[i], s2c[i] = r1, w2
            fds += [r2, w1]
            subs.append({"actions": parts[i]["acts"], "cb": parts[i].get("cb"), "rfd": r2, "wfd": w1})
        sess = parts[grp[0]]
        if len(grp) == 1:
            spec = base.child_spec(env.mods, loc, sess, mode="interleave", rfd=subs[0]["rfd"], wfd=subs[0]["wfd"], state=False)
        else:
            spec = base.child_spec(env.mods, loc, sess, mode="interleave", state=False, threads=subs)
        p = subprocess.Popen([common.PY, base.CHILD, json.dumps(spec)], stdout=subprocess.PIPE, stderr=subprocess.PIPE,
                             text=True, env=common.impl_env(), pass_fds=fds)
        for fd in fds:
            os.close(fd)
        procs.append((p, grp))
    t_end = time.time() + deadline
    state = ["unknown"] * n

    def wait_msg(i):
        while b"\n" not in bufs[i]:
            left = t_end - time.time()
            if left <= 0:
                raise Hang("participant %d silent" % i)
            r, _, _ = select.select([c2s[i]], [], [], min(left, 5))
            if r:
                chunk = os.read(c2s[i], 4096)
                if not chunk:           # died without saying so
                    state[i] = "done"
                    return
                bufs[i] += chunk
        line, _, rest = bufs[i].partition(b"\n")
        bufs[i] = rest
        msg = json.loads(line)
        state[i] = "done" if msg["ev"] == "done" else "blocked"

    actual = []
    outs = [None] * n
    try:
        for i in range(n):
            wait_msg(i)
        pos = 0
        while any(s != "done" for s in state):
            nxt = None
            while pos < len(schedule):
                if state[schedule[pos]] != "done":
                    nxt = schedule[pos]
                    pos += 1
                    break
                pos += 1
            if nxt is None:
                nxt = next(i for i in range(n) if state[i] != "done")
            os.write(s2c[nxt], b"g")
            actual.append(nxt)
            state[nxt] = "unknown"
            wait_msg(nxt)
        for p, grp in procs:
            o, e = p.communicate(timeout=30)
            try:
                d = json.loads(o.strip().splitlines()[-1])
                res_list = d["threads"] if len(grp) > 1 else [d]
            except Exception:
                res_list = [{"harness_error": "rc=%s %s" % (p.returncode, e[-500:]), "pid": p.pid}] * len(grp)
            for i, r in zip(grp, res_list):
                outs[i] = r
    except (Hang, subprocess.TimeoutExpired) as e:
        for p, _ in procs:
            p.kill()
        for p, _ in procs:
            p.communicate()
        return {"hang": str(e)}
    finally:
        for fd in c2s + s2c:
            try:
                os.close(fd)
            except OSError:
                pass
    final = base.run_child({"loc": loc, "moddir": os.path.join(env.mods, "v1"), "mode": "off", "state_only": True,
                            "actions": [], "nkeys": 6})
    return {"actual": actual, "outs": outs, "final": final}


# ----------------------------------------------------------------- scenarios
def scenarios():
    red = {"a": "reduce", "items_limit": 0, "evicts": None}
    return {
        "call_call_same_cold": ([], [S(1, [C(1)]), S(1, [C(1)])]),
        "call_call_diff_warm": ([S(1, [C(3)])], [S(1, [C(1)]), S(1, [C(2)])]),
        "call_call_same_warm": ([S(1, [C(3)])], [S(1, [C(1)]), S(1, [C(1)])]),
        "call_reduce": ([S(1, [C(1), C(2)])], [S(1, [C(1), C(2), C(3)]), S(1, [dict(red)])]),
        "call_clear": ([S(1, [C(1)])], [S(1, [C(1), C(2)]), S(1, [{"a": "clear"}])]),
        "call_invalidate": ([S(1, [C(1)], cb="valid")], [S(1, [C(1)], cb="invalid"), S(1, [C(1)], cb="valid")]),
        "call_call_clear": ([S(1, [C(3)])], [S(1, [C(1)]), S(1, [C(1)]), S(1, [{"a": "clear"}])]),
        # eviction racing a load and a store: reader of cached entries, writer of a new one, reducer
        "read_write_reduce": ([S(1, [C(1), C(2)])], [S(1, [C(1), C(2)]), S(1, [C(3), C(1)]), S(1, [dict(red)])]),
        # two writers of one entry in ONE process (threads): same pid, different thread id in the temporary name
        "threads_same_key": ([S(1, [C(3)])], [S(1, [C(1), C(2)]), S(1, [C(1), C(2)])], [[0, 1]]),
        # ... and a third writer in another process
        "threads_and_process": ([S(1, [C(3)])], [S(1, [C(1)]), S(1, [C(1)]), S(1, [C(1)])], [[0, 1], [2]]),
        # a second participant shelves / checks / calls the entry at EVERY point of the first participant's store
        "store_vs_shelve": ([S(1, [C(3)])], [S(1, [C(1)]), S(1, [{"a": "shelve", "k": 1}, C(1)])]),
        "store_vs_shelve_cb": ([S(1, [C(3)], cb="valid")], [S(1, [C(1)], cb="valid"), S(1, [{"a": "shelve", "k": 1}], cb="valid")]),
        # reduce_size with every combination of limits on an EMPTY store, next to a first caller
        "reduce_combos_empty": ([], [S(1, reduce_combos() + [C(1)]), S(1, [C(1)])]),
        # ... and on a store another participant empties between the listing and the stats
        "reduce_age_vs_clear": ([S(1, [C(1), C(2)])], [S(1, [R(age_s=0), C(1)]), S(1, [{"a": "clear"}])]),
        "reduce_age_vs_reduce0": ([S(1, [C(1), C(2)])], [S(1, [R(age_s=0, bytes_limit=0), C(1)]), S(1, [R(items_limit=0)])]),
        "reduce_all_limits_vs_clear": ([S(1, [C(1), C(2)])],
                                       [S(1, [R(age_s=0, bytes_limit="1K", items_limit=1)]), S(1, [{"a": "clear"}, C(2)])]),
    }


def R(**kw):
    d = {"a": "reduce", "evicts": None, "items_limit": None, "bytes_limit": None, "age_s": None}
    d.update(kw)
    return d


def reduce_combos():
    """every non-empty combination of the three limits (generous ones: nothing has to be evicted)"""
    out = []
    for m in range(1, 8):
        out.append(R(bytes_limit="1G" if m & 1 else None, items_limit=1000 if m & 2 else None,
                     age_s=10 ** 9 if m & 4 else None))
    return out


def schedules(rng, nparts, lens, budget):
    out = []
    if nparts == 2:
        single = [[0] * a + [1] * BIG for a in range(0, lens[0] + 1)] + [[1] * b + [0] * BIG for b in range(1, lens[1] + 1)]
        if len(single) > budget * 2 // 3:
            step = len(single) / float(budget * 2 // 3)
            single = [single[int(i * step)] for i in range(budget * 2 // 3)]
        out += single
        while len(out) < budget:
            a, b, c = rng.randint(0, lens[0]), rng.randint(1, lens[1]), rng.randint(1, lens[0])
            first = rng.randint(0, 1)
            x, y = (0, 1) if first == 0 else (1, 0)
            out.append([x] * a + [y] * b + [x] * c + [y] * BIG)
    else:
        while len(out) < budget:
            sched = []
            for _ in range(rng.randint(2, 6)):
                sched += [rng.randrange(nparts)] * rng.randint(1, max(lens))
            out.append(sched)
    return out


def evicted_from_log(log):
    ks = []
    for e in log:
        if e["op"] == "rmdir":
            pc = base.pcode(e["p"], {})
            if pc[0] == 6:
                ks.append(pc[1])
    return ks


def prepare(env, name, sc):
    prelude, parts = sc[0], sc[1]
    groups = sc[2] if len(sc) > 2 else None
    loc = env.fresh("c11base_" + name)
    pidmap, tid = {}, 0
    pre = []
    for ps in prelude:
        tid += 1
        r = base.run_child(base.child_spec(env.mods, loc, ps))
        if "results" not in r:
            raise RuntimeError("prelude of %s failed: %s" % (name, r))
        pidmap[r["pid"]] = tid
        pre.append((ps, tid))
    lens = []
    for sess in parts:       # solo traced run on a copy: how many operations each participant has alone
        d = env.fresh("c11solo_" + name)
        base.copy_dir(loc, d)
        r = base.run_child(base.child_spec(env.mods, d, sess))
        lens.append(len(r.get("log", [])) or 40)
        shutil.rmtree(d, ignore_errors=True)
    return {"name": name, "base": loc, "pidmap": pidmap, "pre": pre, "parts": parts, "tid0": tid, "lens": lens,
            "groups": groups}


def run_case(env, prep, sched):
    loc = env.fresh("c11_" + prep["name"])
    base.copy_dir(prep["base"], loc)
    res = run_interleaved(env, loc, prep["parts"], sched, groups=prep.get("groups"))
    if "hang" in res:      # retried once; then reported as inconclusive, never as a violation
        shutil.rmtree(loc, ignore_errors=True)
        loc = env.fresh("c11_" + prep["name"])
        base.copy_dir(prep["base"], loc)
        res = run_interleaved(env, loc, prep["parts"], sched, groups=prep.get("groups"))
    shutil.rmtree(loc, ignore_errors=True)
    res["schedule"] = sched
    return res


def model_expr(prep, res, idx):
    name = "%s_%d" % (prep["name"], idx)
    parts = []
    for i, (sess, out) in enumerate(zip(prep["parts"], res["outs"])):
        sess = dict(sess)
        acts = []
        rs = out.get("results", [])
        for j, a in enumerate(sess["acts"]):
            if a["a"] == "reduce":
                # the entries THIS reduce_size call removed: the rmdir's of entry directories inside its own span of the log
                lo, hi = rs[j]["ops"] if j < len(rs) and "ops" in rs[j] else (0, 0)
                a = dict(a, evicts=evicted_from_log(out.get("log", [])[lo:hi]))
            acts.append(a)
        sess["acts"] = acts
        parts.append("Some %s" % base.coq_sess(sess, prep["tid0"] + 1 + i))
    evs = common.coq_list("Run %d%%nat" % i for i in res["actual"])
    c0 = "(%s_base, %s)" % (prep["name"], common.coq_list(parts))
    return ("(let c := grun %s %s in (showps (snd c), showfs (fst c), showgtrace (gtrace %s %s)))" % (evs, c0, evs, c0))


def base_defs(prep):
    defs = []
    s = "[]"
    for i, (ps, t) in enumerate(prep["pre"]):
        defs.append("Definition %s_p%d : fs := snd (run %s (%s))." % (prep["name"], i, base.coq_sess(ps, t), s))
        s = "%s_p%d" % (prep["name"], i)
    defs.append("Definition %s_base : fs := %s." % (prep["name"], s))
    return defs


def f14_kind(r, other_removed_dirs):
    """which known site of the F14 family raised, judged by the call chain: False | 'A' | 'B' | 'C'"""
    site = r.get("site", [])
    if r.get("raise") != "FileNotFoundError" or not other_removed_dirs or "store_cached_func_code" not in site:
        return False
    if "mkdirp" in site:                       # os.makedirs: parent vanished between its exists() and mkdir()
        if r.get("where") == "init" or "__init__" in site:
            return "B"
        return "C" if "_write_func_code" in site else False
    if site[-1] == "store_cached_func_code" and r.get("msg", "").rstrip("'").endswith("func_code.py"):
        return "A"                             # open(func_code.py, 'wb') after the directory vanished
    return False


def judge(prep, res):
    """independent oracle; returns [(what, is_f14_signature)]"""
    bad = []
    removed_func_dir = [any(e["op"] == "rmdir" and e["p"] in ("joblib/vmod/f", "joblib/vmod") and e.get("r") == "ok"
                            for e in o.get("log", [])) for o in res["outs"]]
    for i, (sess, out) in enumerate(zip(prep["parts"], res["outs"])):
        if "results" not in out:
            bad.append(("harness: participant %d failed: %s" % (i, out), False))
            continue
        acts = [a for a in sess["acts"] if a["a"] != "atime"]
        rs = out["results"]
        if len(rs) != len(acts):
            r0 = rs[0] if rs else {}
            sig = f14_kind(r0, any(removed_func_dir[j] for j in range(len(removed_func_dir)) if j != i))
            bad.append(("participant %d: Memory.cache(f) raised while another participant clears: %s" % (i, rs), sig))
            continue
        for a, r in zip(acts, rs):
            if a["a"] == "reduce" and "raise" in r:
                bad.append(("participant %d: reduce_size(bytes_limit=%s, items_limit=%s, age_limit=%ss) raised %s (%s)"
                            % (i, a.get("bytes_limit"), a.get("items_limit"), a.get("age_s"), r["raise"], r.get("msg", "")[:120]), False))
            if a["a"] not in ("call", "shelve"):
                continue
            if (a["a"] == "shelve" and r.get("raise") == "KeyError" and r.get("site", [])[-2:] == ["get", "load_item"]
                    and r.get("msg", "").startswith("'Non-existing item")
                    and any(any(e.get("r") == "ok" and ((e["op"] == "rmdir" and base.pcode(e["p"], {})[:2] == (6, a["k"]))
                                                         or (e["op"] == "unlink" and base.pcode(e["p"], {})[:2] == (7, a["k"])))
                                for e in o.get("log", [])) for j, o in enumerate(res["outs"]) if j != i)):
                # documented: .get() of a shelved reference whose item another participant removed in the meantime: its log
                # shows a successful unlink of that entry's output.pkl (the rmdir that follows may fail with ENOTEMPTY when the
                # storer has meanwhile written its metadata temporary) or the rmdir of the entry directory
                # (eviction, clear, or invalidation by a validation callback) raises KeyError('Non-existing item ...')
                continue
            if "raise" in r:
                bad.append(("participant %d: f(%d) raised %s (%s) because of the concurrent activity [%s]"
                            % (i, a["k"], r["raise"], r.get("msg", "")[:120], ">".join(r.get("site", [])[-4:])),
                            f14_kind(r, any(removed_func_dir[j] for j in range(len(removed_func_dir)) if j != i))))
            elif r.get("ok") != [sess["v"], a["k"]]:
                bad.append(("participant %d: f(%d) returned %s instead of %s" % (i, a["k"], r.get("ok"), [sess["v"], a["k"]]), False))
    for p, c in res["final"].get("state", []):
        if p.endswith("/output.pkl"):
            k = base.pcode(p, {})[1]
            if c[0] != "val" or c[1] != [1, k]:
                bad.append(("after all participants finished %s holds %s (a mixture or a wrong value)" % (p, c), False))
        if p.endswith("/metadata.json") and c[0] != "meta":
            bad.append(("after all participants finished %s is incomplete" % p, False))
    return bad


def compare(prep, res, m):
    mps, mfs, mtr = m
    pm = dict(prep["pidmap"])
    for i, o in enumerate(res["outs"]):
        pm[o.get("wid", "x%d" % i)] = prep["tid0"] + 1 + i
        if not prep.get("groups"):
            pm[o.get("pid", -i - 1)] = prep["tid0"] + 1 + i
    bad = []
    for i, (sess, out) in enumerate(zip(prep["parts"], res["outs"])):
        acts = [a for a in sess["acts"] if a["a"] != "atime"]
        rs = out.get("results", [])
        iouts = base.canon_outs(rs)
        tag, mouts = mps[i][0], [tuple(x) for x in mps[i][1]]
        if tag != 1:
            bad.append("participant %d: the model still has operations left (or is dead) after the executed schedule; "
                       "implementation outcomes %s" % (i, iouts))
        elif mouts != iouts:
            bad.append("participant %d outcomes differ: model %s, implementation %s" % (i, mouts, iouts))
    for i, out in enumerate(res["outs"]):
        itr = base.canon_log(out.get("log", []), pm)
        mt = [(x[1][0], tuple(x[1][1]), tuple(x[1][2]), x[1][3], [tuple(y) for y in x[1][4]]) for x in mtr if x[0] == i]
        if mt != itr:
            n = min(len(mt), len(itr))
            j = next((q for q in range(n) if mt[q] != itr[q]), n)
            bad.append("participant %d: operation traces differ at index %d of %d/%d: model %s, implementation %s"
                       % (i, j, len(mt), len(itr), mt[j] if j < len(mt) else None, itr[j] if j < len(itr) else None))
    ifs = base.canon_state(res["final"].get("state", []), pm)
    mfs = base.fs_entries(mfs)
    if ifs != mfs:
        bad.append("final directories differ: model-only %s, implementation-only %s"
                   % (sorted(set(mfs) - set(ifs)), sorted(set(ifs) - set(mfs))))
    return bad


def judge_hash_race(job, r, r2):
    tag, keys, a = job
    rep = {"kind": "hashrace", "dir": tag, "keys": keys, "switch": a}
    bad = []
    if "race" not in r:
        return [("harness: hash-race run failed: %s" % r, rep)]
    for phase, outs in (("during the race", r["race"]), ("afterwards in the same process", r["again"]),
                        ("afterwards in a fresh process", r2.get("results", [{}, {}]))):
        for k, o in zip(keys, outs):
            if o is None or "raise" in o or o.get("ok") != [1, k]:
                bad.append(("two threads call f(%d) and f(%d) [%s cache, pre-emption after line %d of joblib.hashing]: f(%d) %s gave %s"
                            % (keys[0], keys[1], tag, a, k, phase, o), rep))
    for p, c in r.get("state", []):
        if p.endswith("/output.pkl"):
            pc = base.pcode(p, {})
            if pc[0] != 7 or c[0] != "val" or c[1] != [1, pc[1]]:
                bad.append(("after two threads called f(%d) and f(%d) [%s cache, pre-emption after line %d of joblib.hashing]: the entry %s "
                            "holds %s (a value stored under another argument's key)" % (keys[0], keys[1], tag, a, p, c), rep))
    return bad


def hash_race(env, quick):
    """Two threads of ONE process call f(a) and f(b) (a != b) through the same MemorizedFunc; a pre-emption is forced at every
    line of joblib/hashing.py that thread 0 executes while computing its cache key (sys.monitoring LINE events).  Oracle:
    every call returns the value of ITS argument, during the race, afterwards in the same process and in a fresh one, and
    every entry on disk holds the value of its own key.  Returns (number of runs, [(what, replay)])."""
    bases = {}
    for tag, prelude in (("cold", [S(1, [C(3)])]), ("warm", [S(1, [C(1), C(2)])])):
        d = env.fresh("hr_" + tag)
        for ps in prelude:
            base.run_child(base.child_spec(env.mods, d, ps))
        bases[tag] = d
    probe = base.run_child(base.child_spec(env.mods, env.fresh("hr_probe"), S(1, []), mode="off",
                                           hashrace={"keys": [1, 2], "switch": 10 ** 6}))
    n_lines = max(probe.get("events", [30, 0])[0], 8)
    jobs = [(tag, keys, a) for tag in bases for keys in ([1, 2], [2, 1]) for a in range(0, n_lines + 1)]
    if quick:
        jobs = [j for j in jobs if j[1] == [1, 2]]

    def one(job):
        tag, keys, a = job
        d = env.fresh("hr")
        base.copy_dir(bases[tag], d)
        r = base.run_child(base.child_spec(env.mods, d, S(1, []), mode="off", hashrace={"keys": keys, "switch": a}))
        r2 = base.run_child(base.child_spec(env.mods, d, S(1, [C(k) for k in keys]), mode="off")) if "race" in r else {}
        shutil.rmtree(d, ignore_errors=True)
        return job, r, r2
    with cf.ThreadPoolExecutor(max(2, common.NCPU // 2)) as ex:
        res = list(ex.map(one, jobs))
    bad = []
    for job, r, r2 in res:
        bad += judge_hash_race(job, r, r2)
    return len(jobs), bad


def run(ctx):
    quick = ctx.tier == "quick"
    env = base.Env(ctx)
    trusted = [
        "Coq 8.16.1 kernel (coqc, full .vo build); vm_compute in the _refuted witness, the Example and the model evaluation",
        "the hand-written model coq/Model/FsModel.v; interleaving granularity = one intercepted file-system operation "
        "(open-and-read atomic, create/truncate and write separate); a write after the file was unlinked and re-created by "
        "another participant lands in the new file in the model (no inode identity) -- harmless when all write the same bytes",
        "POSIX semantics assumed: os.replace atomic, mkdir EEXIST, unlink/rmdir errors as modelled; NFS-like semantics not covered",
        "harness/impl/c05_shim.py (interleave mode: pipe to the scheduler before every operation), harness/impl/c05_child.py, "
        "the scheduler and canonicalisation in harness/props/c11.py / c05.py",
        "writer ids (thread id, pid) of different participants differ; all participants run the same source version",
    ]
    gen_tie = base.source_order_tie(ctx)
    proofs_ok = ctx.standard_proof_stage("C11", extra_targets=["Model/FsShow.vo"])
    scs = scenarios()
    budget = 28 if quick else 400
    with cf.ThreadPoolExecutor(len(scs)) as ex:
        preps = list(ex.map(lambda n: prepare(env, n, scs[n]), list(scs)))
    jobs = []
    for prep in preps:
        for sched in schedules(ctx.rng, len(prep["parts"]), prep["lens"], budget):
            jobs.append((prep, sched))
        if prep["name"].startswith("store_vs_shelve"):
            for a in range(0, prep["lens"][0] + 2):       # every point of the store, in every tier
                jobs.append((prep, [0] * a + [1] * BIG + [0] * BIG))
        if prep["name"] == "reduce_age_vs_clear":
            jobs.append((prep, list(F14C_SCHEDULE)))      # the schedule of C11_no_raise_refuted_makedirs, in every tier
        if prep["name"] == "call_clear":
            # the window of F14: the clearer is inside rmtree(func_dir), the caller between exists() and open()
            for b in range(10, 17 if quick else 30):
                for a in range(4, 8 if quick else 14):
                    jobs.append((prep, [1] * b + [0] * a + [1] * BIG + [0] * BIG))
    # the schedule of the Coq witness C11_no_raise_refuted, replayed on the implementation
    wprep = prepare(env, "f14_witness", ([S(1, [C(1), C(2)])], [S(1, [C(1)]), S(1, [{"a": "clear"}])]))
    preps.append(wprep)
    scs["f14_witness"] = ([S(1, [C(1), C(2)])], wprep["parts"])
    jobs.append((wprep, [1] * 12 + [0] * 6 + [1] * 40 + [0] * 40))
    with cf.ThreadPoolExecutor(max(2, common.NCPU // 2)) as ex:
        results = list(ex.map(lambda j: run_case(env, j[0], j[1]), jobs))
    defs, exprs, owners = [], [], []
    for prep in preps:
        defs += base_defs(prep)
    inconclusive = 0
    for idx, ((prep, sched), res) in enumerate(zip(jobs, results)):
        if "hang" in res:
            inconclusive += 1
            continue
        exprs.append(model_expr(prep, res, idx))
        owners.append((prep, res))
    vals = ctx.coq_eval_lines(base.REQ, "\n".join(defs), exprs, name="c11", shard=20)
    disagreements, oracle_fail, known, known_b, known_c = [], [], [], [], []
    nontrivial = set()
    dist = {}
    n_exc = 0
    for (prep, res), v in zip(owners, vals):
        m = base.parse_coq(v)
        dist[prep["name"]] = dist.get(prep["name"], 0) + 1
        switches = sum(1 for a, b in zip(res["actual"], res["actual"][1:]) if a != b)
        if switches >= 2:
            nontrivial.add((prep["name"], tuple(res["actual"])))
        for b in compare(prep, res, m):
            disagreements.append({"scenario": prep["name"], "schedule": res["actual"], "what": b})
        for what, sig in judge(prep, res):
            rep = {"kind": "interleave", "scenario": prep["name"], "prelude": scs[prep["name"]][0], "parts": prep["parts"],
                   "groups": prep.get("groups"), "schedule": res["actual"]}
            n_exc += 1
            if sig == "B":
                known_b.append((what, rep))
            elif sig == "C":
                known_c.append((what, rep))
            elif sig:
                known.append((what, rep))
            else:
                oracle_fail.append((what, rep))
    n_hr, hr_bad = hash_race(env, quick)
    for what, rep in hr_bad[:3]:
        oracle_fail.append((what, rep))
    if inconclusive:
        ctx.note("%d interleaved runs timed out twice and are reported as inconclusive" % inconclusive)
    if known:
        ctx.violation("%d schedules: %s" % (len(known), known[0][0]), known[0][1], True, finding_key=KEY_F14)
    if known_b:
        ctx.violation("%d schedules: %s" % (len(known_b), known_b[0][0]), known_b[0][1], True, finding_key=KEY_F14B)
    if known_c:
        ctx.violation("%d schedules: %s" % (len(known_c), known_c[0][0]), known_c[0][1], True, finding_key=KEY_F14C)
    if not any(rep["scenario"] == "reduce_age_vs_clear" and rep["schedule"][:32] == F14C_SCHEDULE[:32] for _, rep in known_c):
        disagreements.append({"scenario": "reduce_age_vs_clear", "schedule": F14C_SCHEDULE[:32],
                              "what": "the schedule of C11_no_raise_refuted_makedirs no longer makes the call raise on the implementation"})
    if not any(rep["scenario"] == "f14_witness" for _, rep in known):
        disagreements.append({"scenario": "f14_witness", "schedule": [],
                              "what": "the schedule of C11_no_raise_refuted no longer makes the call raise on the implementation"})
    for what, rep in oracle_fail[:3]:
        ctx.violation(what, rep, True)
    if disagreements and not oracle_fail:
        ctx.violation("model and implementation disagree (%d cases), first: %s" % (len(disagreements), disagreements[0]["what"]),
                      {"kind": "correspondence", "first_disagreement": disagreements[0], "all": disagreements[:10],
                       "correspondence": "FsModel.grun vs real processes under the turn-based scheduler"}, found_input=False)
    ctx.finish({
        "evaluations": len(owners),
        "distinct_nontrivial": len(nontrivial),
        "rule": "10 scenarios (call||call same key cold/warm, different keys, call||reduce_size, call||Memory.clear, "
                "invalidating call||call, call||call||clear, reader||writer||reducer, two THREADS of one process writing one entry, "
                "two threads + another process, reduce_size with every combination of limits on an empty store, "
                "reduce_size(age_limit / all limits) racing Memory.clear and reduce_size(items_limit=0)) x schedules: every single-switch schedule (sampled evenly when more than "
                "the budget), random double-switch schedules, random block schedules for 3 participants. non-trivial = the executed "
                "sequence has >= 2 switches; distinct by (scenario, executed sequence)",
        "samples": [{"scenario": owners[0][0]["name"], "schedule": owners[0][1]["actual"][:60],
                     "outcomes": [o.get("results") for o in owners[0][1]["outs"]]}] if owners else [],
        "traces_validated_against_impl": len(vals),
        "hash_race_runs": n_hr,
        "runs_per_scenario": dist, "schedules_hitting_F14": len(known), "inconclusive_timeouts": inconclusive,
        "disagreements": len(disagreements),
        "source_order_tie": gen_tie,
        "trusted_base": trusted,
        "exhaustive": False,
    }, assumptions=[
        "all participants run the same source version; writer ids (thread id, pid) differ",
        "unpickle (pickle v) = Some v",
        "os.replace is atomic, an open file keeps its inode (POSIX); interleaving at file-system-operation granularity",
        "C11_no_raise_partial: the cache is warm (directories exist, func_code.py = current source, which decodes and compares "
        "equal) and no participant calls Memory.clear / MemorizedFunc.clear; otherwise finding F14",
        "exceptions raised inside Memory.clear()/reduce_size() themselves (e.g. two concurrent clears) are not part of the property",
    ])


def replay(ctx, path):
    obj = json.load(open(path))
    rep = obj.get("replay", obj)
    if rep.get("kind") == "hashrace":
        env = base.Env(ctx)
        d = env.fresh("hr_replay")
        for ps in ([S(1, [C(3)])] if rep["dir"] == "cold" else [S(1, [C(1), C(2)])]):
            base.run_child(base.child_spec(env.mods, d, ps))
        r = base.run_child(base.child_spec(env.mods, d, S(1, []), mode="off", hashrace={"keys": rep["keys"], "switch": rep["switch"]}))
        r2 = base.run_child(base.child_spec(env.mods, d, S(1, [C(k) for k in rep["keys"]]), mode="off")) if "race" in r else {}
        bad = judge_hash_race((rep["dir"], rep["keys"], rep["switch"]), r, r2)
        print("replay hash race:", r.get("race"), r.get("again"), "=>", [b[0] for b in bad] or "property holds")
        return 1 if bad else 0
    if rep.get("kind") != "interleave":
        print("replay file names a broken proof/correspondence, nothing to execute:", rep.get("kind"))
        return 1
    env = base.Env(ctx)
    prep = prepare(env, rep["scenario"], (rep["prelude"], rep["parts"], rep.get("groups")))
    res = run_case(env, prep, rep["schedule"])
    if "hang" in res:
        print("replay: inconclusive (timeout)")
        return 0
    bad = judge(prep, res)
    print("replay:", rep["scenario"], rep["schedule"], "->", [o.get("results") for o in res["outs"]], "=>",
          [b[0] for b in bad] or "property holds")
    return 1 if bad else 0
