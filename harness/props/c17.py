"""C17 -- parallel_config / parallel_backend settings are scoped, thread-local and correctly prioritised.

1. regenerate coq/Gen/T_config_param.v from the live _get_config_param (translator, fail-closed);
2. build Props/C17.vo + Print Assumptions;
3. correspondence: programs of nested `with` blocks run by real threads under a scripted interleaving
   (harness/impl/c17_impl.py) vs the Coq machine of Model/Config.v (per-thread observation traces and final
   configuration), exhaustively for depth <= 2 over a reduced value set and randomly up to depth 4;
4. independent oracle (no model): restore-on-exit, update-with-explicit-keys, thread isolation and the
   priority / sharedmem / prefer rules stated directly in Python;
5. known findings F16 / F17 replayed.
"""
import ast
import json
import os
import sys

sys.path.insert(0, os.path.dirname(os.path.dirname(os.path.abspath(__file__))))
import common  # noqa: E402
import gen_c17  # noqa: E402
import gen_c15  # noqa: E402
import translate_c17  # noqa: E402

KINDS = ["seq", "thr", "loky", "mp", "cshm", "cproc"]
KCOQ = {"seq": "BSeq", "thr": "BThr", "loky": "BLoky", "mp": "BMp", "cshm": "BCustShm", "cproc": "BCustProc"}
SHM = {"seq", "thr", "cshm"}
SETTINGS = ["backend", "n_jobs", "verbose", "temp", "maxnb", "mmap", "prefer", "require"]
DEFAULTS = {"verbose": 0, "temp": 0, "maxnb": ["str", 1, "M"], "mmap": 1, "prefer": 0, "require": 0}
UNITS = {"K": 1024, "M": 1024 ** 2, "G": 1024 ** 3}

K_F16_PREFER = "forced-thread-fallback-overwrites-context-n_jobs:prefer-threads-no-backend"
K_F16_REQUIRE = "forced-thread-fallback-overwrites-context-n_jobs:require-sharedmem-no-backend"
K_F16_PREFER_ARG = "forced-thread-fallback-overwrites-context-n_jobs:prefer-threads-explicit-backend-argument"
K_F16_REQUIRE_ARG = "forced-thread-fallback-overwrites-context-n_jobs:require-sharedmem-explicit-backend-argument"
K_F17 = "context-require-sharedmem-not-enforced:explicit-process-backend-argument"


# ------------------------------------------------------------------ Gallina encoding
def z(n):
    return "(%d)" % n if n < 0 else "%d" % n


def oz(d, k):
    return "(Some %s)" % z(d[k]) if k in d else "None"


def enc_bspec(b):
    if b[0] == "invalid":
        return "(Some BInvalid)"
    return "(Some (BInst %s %s))" % (KCOQ[b[1]], "None" if b[2] is None else "(Some %s)" % z(b[2]))


def enc_njobs(d):
    if "n_jobs" not in d:
        return "None"
    v = d["n_jobs"][0]
    return "(Some None)" if v is None else "(Some (Some %s))" % z(v)


def enc_maxnb(d):
    if "maxnb" not in d:
        return "None"
    v = d["maxnb"]
    if v[0] == "none":
        return "(Some MNone)"
    if v[0] == "int":
        return "(Some (MInt %s))" % z(v[1])
    return "(Some (MStr %s %d))" % (z(v[1]), ord(v[2]))


NAMED = {"seq", "thr", "loky", "mp"}


def by_name(d):
    b_ = d.get("backend")
    return bool(b_ and b_[0] == "inst" and b_[3] and b_[2] is None and b_[1] in NAMED)


def enc_fields(d, p):
    base = enc_fields_(d, p)
    if p != "s":
        return base
    return base[:-2] + "; s_byname := %s; s_inner := %s; s_params := %s |}" % (
        "true" if by_name(d) else "false", oz(d, "inner"), "true" if d.get("params") else "false")


def enc_fields_(d, p):
    return ("{| %s_backend := %s; %s_njobs := %s; %s_verbose := %s; %s_temp := %s; %s_maxnb := %s; %s_mmap := %s; "
            "%s_prefer := %s; %s_require := %s |}" % (
                p, enc_bspec(d["backend"]) if "backend" in d else "None", p, enc_njobs(d), p, oz(d, "verbose"),
                p, oz(d, "temp"), p, enc_maxnb(d), p, oz(d, "mmap"), p, oz(d, "prefer"), p, oz(d, "require")))


def enc_args(d):
    # record pargs lists a_njobs first; field order in a record literal is free
    return enc_fields(d, "a")


def enc_prog(p):
    k = p[0]
    if k == "skip":
        return "PSkip"
    if k == "seq":
        return "(PSeq %s %s)" % (enc_prog(p[1]), enc_prog(p[2]))
    if k == "raise":
        return "PRaise"
    if k == "try":
        return "(PTry %s)" % enc_prog(p[1])
    if k == "with":
        return "(PWith %s %s %s)" % ("MConfig" if p[1] == "config" else "MBackend", enc_fields(p[2], "s"), enc_prog(p[3]))
    if k == "obs":
        q = p[1]
        if q[0] == "parallel":
            return "(PObs (QParallel %s))" % enc_args(q[1])
        if q[0] == "active":
            return "(PObs (QActive %s %s))" % tuple("None" if v is None else "(Some %s)" % z(v) for v in q[1:3])
        return "(PObs QConfig)"
    raise KeyError(k)


REQ = """From Coq Require Import ZArith List Bool.
Require Import JV.Base.PyPrelude JV.Model.Config.
Import ListNotations. Open Scope Z_scope."""
DEFS = """Definition kz (k : ckind) : Z := match k with BSeq => 0 | BThr => 1 | BLoky => 2 | BMp => 3 | BCustShm => 4 | BCustProc => 5 end.
Definition oz (o : option Z) : list Z := match o with None => [0;0] | Some v => [1; v] end.
Definition show_cfg (c : config) : list Z :=
  (match c_backend c with None => [0;0;0] | Some b => [1; kz (ck b); clevel b] end) ++
  (match c_njobs c with None => [0;0] | Some None => [1;0] | Some (Some n) => [2;n] end) ++
  oz (c_verbose c) ++ oz (c_temp c) ++
  (match c_maxnb c with None => [0;0;0] | Some MNone => [1;0;0] | Some (MInt v) => [2;v;0] | Some (MStr m u) => [3;m;u] end) ++
  oz (c_mmap c) ++ oz (c_prefer c) ++ oz (c_require c).
Definition show_obs (r : obsr) : list Z :=
  match r with
  | RParallel (Ok p) => [1; kz (r_kind p); r_level p; r_njobs p; r_verbose p] ++ oz (r_kw_maxnb p) ++
                        [r_kw_temp p; r_kw_mmap p; r_kw_prefer p; r_kw_require p; r_kw_verbose p]
  | RParallel (Raise ValueError) => [2; 1]
  | RParallel (Raise _) => [2; 0]
  | RActive (Ok (b, n)) => [3; kz (ck b); clevel b] ++ oz n
  | RActive (Raise ValueError) => [4; 1]
  | RActive (Raise _) => [4; 0]
  | RConfig c => 5 :: show_cfg c
  end.
Definition show_run (p : prog) : list (list Z) :=
  let ts := run_solo (steps_bound p) (start default_config p) in
  map show_obs (t_trace ts) ++ [show_cfg (t_cur ts) ++ [if halted ts then 1 else 0]]."""


def parse_coq_lists(s):
    s = s.replace("%Z", "").replace(";", ",")
    return ast.literal_eval(s)


# ------------------------------------------------------------ canonical form of impl results
def canon_cfg(snap):
    """same layout as show_cfg"""
    out = []
    if "backend" in snap:
        out += [1, KINDS.index(snap["backend"][0]) if snap["backend"][0] in KINDS else -1, snap["backend"][1]]
    else:
        out += [0, 0, 0]
    if "n_jobs" in snap:
        out += [1, 0] if snap["n_jobs"][0] is None else [2, snap["n_jobs"][0]]
    else:
        out += [0, 0]
    for k in ("verbose", "temp"):
        out += [1, snap[k]] if k in snap else [0, 0]
    if "maxnb" in snap:
        v = snap["maxnb"]
        out += [1, 0, 0] if v[0] == "none" else ([2, v[1], 0] if v[0] == "int" else [3, v[1], ord(v[2])])
    else:
        out += [0, 0, 0]
    for k in ("mmap", "prefer", "require"):
        out += [1, snap[k]] if k in snap else [0, 0]
    return out


def canon_obs(q, r):
    if q[0] == "config":
        return [5] + canon_cfg(r["config"])
    if "raise" in r:
        return [2 if q[0] == "parallel" else 4, 1 if r["raise"] == "ValueError" else 0]
    v = r["ok"]
    kind = KINDS.index(v[0]) if v[0] in KINDS else -1
    if q[0] == "parallel":
        return [1, kind, v[1], v[2], v[3]] + ([0, 0] if v[4] is None else [1, v[4]]) + v[5:10]
    return [3, kind, v[1]] + ([0, 0] if v[2] is None else [1, v[2]])


# ------------------------------------------------------------------------------ oracle
def eff_spec(mgr, spec):
    """the keys a manager sets, as the documentation of parallel_config / parallel_backend states them"""
    if mgr == "config":
        return {k: v for k, v in spec.items() if k in SETTINGS}   # inner_max_num_threads / backend params are not settings
    d = {"backend": spec["backend"]}
    d["n_jobs"] = spec.get("n_jobs", [-1])
    return d


def lookup(key, args, stack, default):
    if key in args:
        return args[key]
    for mgr, spec in stack:
        e = eff_spec(mgr, spec)
        if key in e:
            return e[key]
    return default


def ctx_backend(stack):
    """(kind, level) of the backend named by the enclosing blocks, None when none names one"""
    level, kind = 0, None
    for mgr, spec in reversed(stack):  # outermost first
        e = eff_spec(mgr, spec)
        if "backend" in e:
            kind = e["backend"][1]
            if e["backend"][2] is not None:
                level = e["backend"][2]
    return None if kind is None else (kind, level)


def conv_maxnb(v):
    if v[0] == "none":
        return None
    if v[0] == "int":
        return v[1]
    if v[2] not in UNITS:
        raise ValueError
    return UNITS[v[2]] * v[1]


USES_THREADS = {"seq", "thr", "cshm"}


def default_choice(dk, prefer, require):
    """backend chosen when nothing names one: the registered default dk unless a hint/constraint replaces it"""
    if require == 1:
        return dk if dk in SHM else "thr"
    if prefer == 1:
        return dk if dk in USES_THREADS else "thr"
    if prefer == 2:
        return "loky" if dk in USES_THREADS else dk
    return dk


def oracle_parallel(args, stack, r, dk="loky"):
    """Judge one Parallel(**args) result made inside the blocks `stack` (innermost first) by the property as
    worded.  Returns (problem or None, finding_key or None)."""
    prefer = lookup("prefer", args, stack, 0)
    require = lookup("require", args, stack, 0)
    must_raise = (prefer not in (0, 1, 2) or require not in (0, 1) or (prefer == 2 and require == 1)
                  or ("backend" in args and args["backend"][0] == "invalid"))
    try:
        maxnb = conv_maxnb(lookup("maxnb", args, stack, DEFAULTS["maxnb"]))
    except ValueError:
        must_raise = True
        maxnb = None
    if must_raise:
        if r.get("raise") == "ValueError":
            return None, None
        return "invalid or inconsistent settings accepted: %s" % r, None
    cb = ctx_backend(stack)
    arg_b = args.get("backend")
    if "raise" in r:
        # the only legitimate error left: an explicitly passed backend without shared memory under require='sharedmem'
        if r["raise"] == "ValueError" and require == 1 and arg_b is not None and arg_b[1] not in SHM:
            return None, None
        return "unexpected %s" % r["raise"], None
    if "extra_kwargs" in r:
        return "unexpected backend kwargs %s" % r["extra_kwargs"], None
    kind, level, n_jobs, verbose, kw_maxnb, kw_temp, kw_mmap, kw_prefer, kw_require, kw_verbose = r["ok"]
    # require='sharedmem' always yields a thread-based backend
    if require == 1 and kind not in SHM:
        if "require" not in args and arg_b is not None and arg_b[1] not in SHM:
            return "require='sharedmem' (from the context) ignored: Parallel(backend=%s) kept %s" % (arg_b[1], kind), K_F17
        return "require='sharedmem' but backend %s has no shared memory" % kind, None
    # backend: explicit argument > context > default; prefer is only a hint
    if arg_b is not None:
        exp_kind = arg_b[1]
        exp_level = arg_b[2] if arg_b[2] is not None else (cb[1] if cb else 0)
    elif cb is not None:
        exp_kind = cb[0] if (require != 1 or cb[0] in SHM) else "thr"
        exp_level = cb[1]
    else:
        exp_kind = default_choice(dk, prefer, require)
        exp_level = 0
    if kind != exp_kind:
        return "backend %s, expected %s" % (kind, exp_kind), None
    if level != exp_level:
        return "nesting level %s, expected %s" % (level, exp_level), None
    # the six plain settings
    for name, got, exp in [("verbose", verbose, lookup("verbose", args, stack, 0)),
                           ("max_nbytes", kw_maxnb, maxnb),
                           ("temp_folder", kw_temp, lookup("temp", args, stack, 0)),
                           ("mmap_mode", kw_mmap, lookup("mmap", args, stack, 1)),
                           ("prefer", kw_prefer, prefer), ("require", kw_require, require),
                           ("backend verbose", kw_verbose, max(0, lookup("verbose", args, stack, 0) - 50))]:
        if got != exp:
            return "%s = %r, expected %r (explicit > innermost context > outer > default)" % (name, got, exp), None
    # n_jobs
    nj_arg = args.get("n_jobs", [None])[0]
    if nj_arg is not None:
        exp_n = nj_arg
    else:
        v = lookup("n_jobs", {}, stack, [None])[0]
        # nothing given: the default of the backend the call REALLY uses (the user-defined process backend declares -1)
        exp_n = (-1 if kind == "cproc" else 1) if v is None else v
        # the one documented exception (asserted by test_backend_hinting_and_constraints): a process backend
        # named by the context is replaced because of require='sharedmem' -> the backend's default n_jobs
        if cb is not None and require == 1 and cb[0] not in SHM:
            exp_n = 1
    if n_jobs != exp_n:
        if nj_arg is None and cb is None and n_jobs == 1 and arg_b is None:
            if require == 1:
                return "context n_jobs=%s lost (got 1) under require='sharedmem' with no backend named" % exp_n, K_F16_REQUIRE
            if prefer == 1:
                return "context n_jobs=%s lost (got 1) under prefer='threads' with no backend named" % exp_n, K_F16_PREFER
        if nj_arg is None and cb is None and n_jobs == 1 and arg_b is not None and (require == 1 or prefer == 1):
            # same overwrite, reached with an explicit backend argument (the fallback is computed before it is used)
            return ("context n_jobs=%s lost (got 1): forced thread fallback computed although backend=%s was passed"
                    % (exp_n, arg_b[1])), (K_F16_REQUIRE_ARG if require == 1 else K_F16_PREFER_ARG)
        return "n_jobs = %r, expected %r" % (n_jobs, exp_n), None
    return None, None


def oracle_active(q, stack, r, dk="loky"):
    prefer = lookup("prefer", {} if q[1] is None else {"prefer": q[1]}, stack, 0)
    require = lookup("require", {} if q[2] is None else {"require": q[2]}, stack, 0)
    must_raise = prefer not in (0, 1, 2) or require not in (0, 1) or (prefer == 2 and require == 1)
    if must_raise:
        return (None if r.get("raise") == "ValueError" else "invalid hints accepted by get_active_backend"), None
    if "raise" in r:
        return "unexpected %s" % r["raise"], None
    kind, level, n = r["ok"]
    cb = ctx_backend(stack)
    if require == 1 and kind not in SHM:
        return "get_active_backend(require='sharedmem') returned %s" % kind, None
    if cb is not None:
        exp = cb[0] if (require != 1 or cb[0] in SHM) else "thr"
        if kind != exp or level != cb[1]:
            return "active backend %s@%s, expected %s@%s" % (kind, level, exp, cb[1]), None
    else:
        exp = default_choice(dk, prefer, require)
        if kind != exp or level != 0:
            return "active backend %s@%s, expected %s@0" % (kind, level, exp), None
    return None, None


def expect_reject(mgr, spec):
    """the documented argument rules of parallel_config / parallel_backend, stated directly: which calls are refused"""
    b_ = spec.get("backend")
    if b_ is None:
        return "ValueError" if ("inner" in spec or spec.get("params")) else None
    if b_[0] == "invalid":
        return "ValueError"
    if spec.get("params") and not by_name(spec):
        return "ValueError"          # backend_params are only supported when backend is a string
    if "inner" in spec and b_[1] != "loky":
        return "AssertionError"      # only LokyBackend accepts inner_max_num_threads
    return None


def oracle_blocks(blocks):
    """restore-on-exit and update-with-explicit-keys, per block record"""
    for b in blocks:
        if b["post"] != b["pre"]:
            return "configuration after the block differs from the one before it (exit: %s): before %s after %s" % (
                b["exit"], b["pre"], b["post"]), b
        rej = expect_reject(b["mgr"], b["spec"])
        if b["in"] is None:
            if rej is None or b["exit"] != "construct-raised:" + rej:
                return "manager construction %s: %s (expected %s)" % (b["spec"], b["exit"], rej or "success"), b
            continue
        if rej is not None:
            return "a construction that must be refused (%s) was accepted: %s" % (rej, b["spec"]), b
        exp = dict(b["pre"])
        for k, v in eff_spec(b["mgr"], b["spec"]).items():
            if k == "backend":
                lvl = v[2] if v[2] is not None else (b["pre"]["backend"][1] if "backend" in b["pre"] else 0)
                exp["backend"] = [v[1], lvl]
            else:
                exp[k] = v
        if b["in"] != exp:
            return "inside the block the configuration is %s, expected %s" % (b["in"], exp), b
    return None, None


def queries_in_order(p, out):
    """static list is not enough (exceptions skip code); used only for counting"""
    k = p[0]
    if k == "obs":
        out.append(p[1])
    elif k == "seq":
        queries_in_order(p[1], out)
        queries_in_order(p[2], out)
    elif k == "try":
        queries_in_order(p[1], out)
    elif k == "with":
        queries_in_order(p[3], out)
    return out


class Walk:
    """re-walk a program along the RECORDED trace to pair every trace entry with its query"""

    def __init__(self, trace):
        self.trace = trace
        self.i = 0
        self.pairs = []

    class Exc(Exception):
        pass

    def run(self, p, block_fail):
        k = p[0]
        if k == "seq":
            self.run(p[1], block_fail)
            self.run(p[2], block_fail)
        elif k == "raise":
            raise Walk.Exc()
        elif k == "try":
            try:
                self.run(p[1], block_fail)
            except Walk.Exc:
                pass
        elif k == "obs":
            if self.i >= len(self.trace):
                raise RuntimeError("trace shorter than the program's observations")
            r = self.trace[self.i]
            self.i += 1
            self.pairs.append((p[1], r))
            if "raise" in r:
                raise Walk.Exc()
        elif k == "with":
            if expect_reject(p[1], p[2]) is not None:
                raise Walk.Exc()
            self.run(p[3], block_fail)


def pair_trace(prog, trace):
    w = Walk(trace)
    try:
        w.run(prog, None)
    except Walk.Exc:
        pass
    if w.i != len(trace):
        raise RuntimeError("trace longer than the program's observations")
    return w.pairs


# --------------------------------------------------------------------------- generators
def seqs(ps):
    ps = list(ps)
    if not ps:
        return ["skip"]
    out = ps[-1]
    for p in reversed(ps[:-1]):
        out = ["seq", p, out]
    return out


def tobs(q):
    return ["try", ["obs", q]]


RED_SPECS = [
    ("config", {}),
    ("config", {"n_jobs": [2]}),
    ("config", {"backend": ["inst", "loky", None, True]}),
    ("config", {"backend": ["inst", "thr", None, True], "n_jobs": [3]}),
    ("config", {"backend": ["inst", "mp", None, True], "n_jobs": [3]}),
    ("config", {"backend": ["inst", "seq", 2, False]}),
    ("config", {"backend": ["inst", "cproc", None, False], "n_jobs": [4]}),
    ("config", {"prefer": 1}),
    ("config", {"prefer": 2}),
    ("config", {"require": 1}),
    ("config", {"backend": ["inst", "loky", None, True], "require": 1, "n_jobs": [2]}),
    ("config", {"verbose": 60, "temp": 1, "mmap": 4, "maxnb": ["str", 2, "K"]}),
    ("config", {"n_jobs": [None], "verbose": 5}),
    ("config", {"backend": ["invalid"]}),
    ("backend", {"backend": ["inst", "thr", None, True]}),
    ("backend", {"backend": ["inst", "loky", 1, False], "n_jobs": [2]}),
    # a context backend whose default_n_jobs is -1, no n_jobs anywhere
    ("config", {"backend": ["inst", "cproc", None, False]}),
    # refused constructions that carry real settings (nothing of them may be installed)
    ("config", {"inner": 2, "n_jobs": [3], "verbose": 7, "mmap": 4}),
    ("config", {"params": True, "n_jobs": [2], "prefer": 1, "temp": 2}),
    ("config", {"backend": ["inst", "thr", None, False], "params": True, "n_jobs": [5], "require": 1}),
    ("config", {"backend": ["inst", "thr", None, True], "inner": 2, "n_jobs": [2]}),
    ("backend", {"backend": ["invalid"], "n_jobs": [2]}),
    # accepted ones with inner_max_num_threads / backend params
    ("config", {"backend": ["inst", "loky", None, True], "inner": 2, "n_jobs": [2]}),
    ("backend", {"backend": ["inst", "thr", None, True], "params": True}),
]
RED_ARGS = [
    {}, {"n_jobs": [4]}, {"n_jobs": [None]}, {"backend": ["inst", "loky", None, True]},
    {"backend": ["inst", "thr", None, True]}, {"backend": ["inst", "mp", None, True]},
    {"backend": ["inst", "seq", None, True]}, {"backend": ["inst", "cshm", None, False]},
    {"backend": ["inst", "cproc", 3, False]}, {"backend": ["invalid"]},
    {"prefer": 1}, {"prefer": 2}, {"require": 1}, {"prefer": 0}, {"require": 0},
    {"prefer": 1, "n_jobs": [5]}, {"require": 1, "n_jobs": [5]},
    {"backend": ["inst", "loky", None, True], "prefer": 1}, {"backend": ["inst", "loky", None, True], "require": 1},
    {"backend": ["inst", "thr", None, True], "require": 1}, {"backend": ["inst", "thr", None, True], "prefer": 2},
    {"backend": ["inst", "cproc", None, False], "require": 1},
    {"prefer": 2, "require": 1}, {"prefer": 3}, {"require": 2},
    {"verbose": 70}, {"temp": 2}, {"mmap": 0}, {"maxnb": ["int", 5]}, {"maxnb": ["str", 3, "G"]},
    {"maxnb": ["str", 5, "X"]}, {"verbose": 3, "temp": 2, "mmap": 2, "maxnb": ["none"]},
    # explicit means passed, not truthy: falsy / default-equal explicit values
    {"verbose": 0}, {"temp": 0}, {"maxnb": ["int", 0]}, {"maxnb": ["none"]}, {"n_jobs": [1]}, {"n_jobs": [0]},
]
RED_ACTIVE = [["active", None, None], ["active", 1, None], ["active", None, 1], ["active", 2, 1], ["config"]]


def all_obs():
    return [tobs(["parallel", a]) for a in RED_ARGS] + [tobs(q) for q in RED_ACTIVE]


def gen_exhaustive(quick):
    """every ordered pair of reduced specs (depth 2), with every reduced observation at depth 0, 1, 2 and
    after each exit; inner block left by exception in a second variant"""
    progs = []
    specs = RED_SPECS
    for i, (m1, s1) in enumerate(specs):
        for j, (m2, s2) in enumerate(specs):
            for exc in ((False, True) if not quick or (i + j) % 3 == 0 else (False,)):
                inner = seqs(all_obs() + ([["raise"]] if exc else []))
                w2 = ["with", m2, s2, inner] + (["gen"] if (i + 2 * j) % 5 == 0 and not exc else [])
                body = seqs(all_obs() + [["try", w2]] + [tobs(["config"]), tobs(["parallel", {}])])
                progs.append(seqs([tobs(["config"]), ["try", ["with", m1, s1, body]], tobs(["config"]),
                                   tobs(["parallel", {}])]))
    return progs


def rnd_spec(rng, mgr):
    d = {}
    if mgr == "backend" or rng.random() < 0.4:
        if rng.random() < 0.04:
            d["backend"] = ["invalid"]
        else:
            kind = rng.choice(KINDS)
            lvl = rng.choice([None, None, None, 0, 1, 2, 3])
            d["backend"] = ["inst", kind, lvl, rng.random() < 0.6]
    if rng.random() < 0.45:
        d["n_jobs"] = [rng.choice([1, 2, 3, 7, -1, -2, 0, None])]
    if rng.random() < 0.12:
        d["inner"] = rng.choice([1, 2, 4])
    if rng.random() < 0.12:
        d["params"] = True
    if mgr == "backend":
        return d
    for k, vals in (("verbose", [0, 5, 10, 49, 50, 51, 60, 100, -3]), ("temp", [0, 1, 2]), ("mmap", [0, 1, 2, 3, 4]),
                    ("prefer", [0, 1, 1, 2, 2, 3]), ("require", [0, 1, 1, 1, 2])):
        if rng.random() < 0.3:
            d[k] = rng.choice(vals)
    if rng.random() < 0.3:
        d["maxnb"] = rng.choice([["none"], ["int", 0], ["int", 100], ["int", 2 ** 20], ["str", 1, "K"], ["str", 2, "M"],
                                 ["str", 3, "G"], ["str", 5, "X"]])
    return d


def rnd_args(rng):
    d = rnd_spec(rng, "config")
    d.pop("inner", None)
    d.pop("params", None)
    if "n_jobs" in d and rng.random() < 0.3:
        del d["n_jobs"]
    return d


def rnd_obs(rng):
    r = rng.random()
    if r < 0.7:
        q = ["parallel", rnd_args(rng)]
    elif r < 0.85:
        q = ["active", rng.choice([None, None, 0, 1, 2, 3]), rng.choice([None, None, 0, 1, 2])]
    else:
        q = ["config"]
    return ["obs", q] if rng.random() < 0.25 else tobs(q)


def rnd_prog(rng, depth, maxdepth):
    items = []
    for _ in range(rng.randint(1, 4)):
        r = rng.random()
        if r < 0.5 or depth >= maxdepth:
            items.append(rnd_obs(rng))
        elif r < 0.9:
            mgr = "backend" if rng.random() < 0.2 else "config"
            w = ["with", mgr, rnd_spec(rng, mgr), rnd_prog(rng, depth + 1, maxdepth)]
            if rng.random() < 0.2:
                w.append("gen")      # leave the block through a closed generator
            items.append(["try", w] if rng.random() < 0.6 else w)
        else:
            items.append(["raise"] if rng.random() < 0.5 else ["try", ["raise"]])
    return seqs(items)


def visible_actions(p):
    k = p[0]
    if k == "obs":
        return 1
    if k == "seq":
        return visible_actions(p[1]) + visible_actions(p[2])
    if k == "try":
        return visible_actions(p[1])
    if k == "with":
        return 2 + visible_actions(p[3])
    return 0


def make_cases(progs, rng, nthreads_choices=(2, 3)):
    cases = []
    i = 0
    while i < len(progs):
        n = rng.choice(nthreads_choices)
        ths = progs[i:i + n]
        i += n
        toks = []
        for t, p in enumerate(ths):
            toks += [t] * visible_actions(p)
        rng.shuffle(toks)
        cases.append({"threads": ths, "schedule": toks})
    return cases


# ------------------------------------------------------------------------------- running
def run_impl_cases(cases, nproc=8, timeout=1500):
    import concurrent.futures as cf
    chunks = [cases[i::nproc] for i in range(nproc)]

    def one(ch):
        if not ch:
            return []
        rc, out, err = common.run_impl("c17_impl.py", input_text="\n".join(json.dumps(c) for c in ch) + "\n", timeout=timeout)
        lines = [json.loads(l) for l in out.splitlines() if l.strip()]
        if len(lines) != len(ch):
            raise RuntimeError("c17_impl produced %d results for %d cases: %s" % (len(lines), len(ch), err[-2000:]))
        return lines
    with cf.ThreadPoolExecutor(nproc) as ex:
        outs = list(ex.map(one, chunks))
    res = [None] * len(cases)
    for k, ch in enumerate(chunks):
        for j, r in enumerate(outs[k]):
            res[k + nproc * j] = r
    return res


def judge_case(c, r):
    """independent oracle on one case; returns list of (problem, finding_key, detail)"""
    out = []
    if "harness_error" in r:
        return [("harness error " + r["harness_error"], None, None)]
    if r["main_after"] != {}:
        out.append(("the main thread observes settings made by worker threads: %s" % r["main_after"], None, None))
    for t, prog in enumerate(c["threads"]):
        if r["final"][t] != {}:
            out.append(("thread %d ends with a non-default configuration %s" % (t, r["final"][t]), None, {"thread": t}))
        bad, blk = oracle_blocks(r["blocks"][t])
        if bad:
            out.append((bad, None, {"thread": t, "block": {"mgr": blk["mgr"], "spec": blk["spec"], "exit": blk["exit"]}}))
        for b in r["blocks"][t]:
            if b["depth"] == 0 and b["pre"] != {}:
                out.append(("thread %d sees settings of another thread before its outermost block: %s" % (t, b["pre"]),
                            None, {"thread": t}))
        pairs = pair_trace(prog, r["traces"][t])
        for (q, res), stack in zip(pairs, r["obs_ctx"][t]):
            stack = [tuple(s) for s in stack]
            dk = c.get("default_backend") or "loky"
            if q[0] == "parallel":
                bad, key = oracle_parallel(q[1], stack, res, dk)
            elif q[0] == "active":
                bad, key = oracle_active(q, stack, res, dk)
            else:
                exp = {}
                for mgr, spec in reversed(stack):
                    for k, v in eff_spec(mgr, spec).items():
                        if k == "backend":
                            lvl = v[2] if v[2] is not None else (exp["backend"][1] if "backend" in exp else 0)
                            exp["backend"] = [v[1], lvl]
                        else:
                            exp[k] = v
                bad, key = (None, None) if res["config"] == exp else (
                    "thread-local configuration is %s, the enclosing blocks give %s" % (res["config"], exp), None)
            if bad:
                out.append((bad, key, {"thread": t, "query": q, "stack": stack, "result": res}))
    return out


def minimal_block_replay(detail, dk=None):
    """one thread: the offending block alone (left the way it was left), then a look at the configuration"""
    b_ = detail["block"]
    body = ["raise"] if b_["exit"] == "exception" else ["skip"]
    w = ["with", b_["mgr"], b_["spec"], body] + (["gen"] if b_["exit"] == "generator-close" else [])
    out = {"threads": [["seq", ["try", w], ["seq", ["obs", ["config"]], ["obs", ["parallel", {}]]]]], "schedule": []}
    if dk:
        out["default_backend"] = dk
    return out


def minimal_replay(detail, dk=None):
    """a one-thread program reproducing one observation inside its enclosing blocks"""
    p = ["obs", detail["query"]]
    for mgr, spec in detail["stack"]:
        p = ["with", mgr, spec, p]
    out = {"threads": [["try", p]], "schedule": []}
    if dk:
        out["default_backend"] = dk
    return out


# ---- flat cases: one observation inside a chain of blocks, for each registered default backend class; compared with
# ---- Parallel.__init__ running the REGENERATED _get_active_backend and with the hand model
DEFS_FLAT_BASE = """Definition show_flat (f : ckind -> pargs -> config -> result pres) (dk : ckind) (specs : list (mgr * cspec)) (a : pargs) : list Z :=
  match cfg_of_specs specs default_config with
  | Ok c => show_obs (RParallel (f dk a c))
  | Raise _ => [9]
  end."""
DEFS_FLAT_SRC = """Definition pinit_src (dk : ckind) (a : pargs) (c : config) : result pres :=
  parallel_init_with (fun p r cfg => src_get_active_backend dk p r (a_verbose a) cfg) a c.
Definition show_active (dk : ckind) (specs : list (mgr * cspec)) (p r : option Z) : list Z :=
  match cfg_of_specs specs default_config with
  | Ok c => show_obs (RActive (bind (src_get_active_backend dk p r None c) (fun '(b, cfg) => Ok (b, gcp None (c_njobs cfg) None))))
  | Raise _ => [9]
  end."""
REQ_FLAT = """From Coq Require Import ZArith List Bool.
Require Import JV.Base.PyPrelude JV.Model.Config JV.Gen.T_active_backend.
Import ListNotations. Open Scope Z_scope."""


def gen_flat(rng, quick):
    """(default backend, chain of valid blocks outermost first, query)"""
    specs = [sp for sp in RED_SPECS[:16] if expect_reject(*sp) is None]
    out = []
    for dk in ("loky", "thr", "seq", "mp"):
        chains = [[]] + [[s1] for s1 in specs] + [[s1, s2] for s1 in specs for s2 in specs if rng.random() < (0.12 if quick else 0.6)]
        for ch in chains:
            for a in RED_ARGS:
                if len(ch) == 2 and rng.random() < (0.6 if quick else 0.0):
                    continue
                out.append((dk, ch, ["parallel", a]))
            for q in RED_ACTIVE[:4]:
                out.append((dk, ch, q))
    return out


def flat_case(dk, chain, q):
    p = ["obs", q]
    for mgr, spec in reversed(chain):
        p = ["with", mgr, spec, p]
    return {"threads": [["try", p]], "schedule": [], "default_backend": dk}


def flat_exprs(dk, chain, q):
    sp = "[" + "; ".join("(%s, %s)" % ("MConfig" if m == "config" else "MBackend", enc_fields(s, "s")) for m, s in chain) + "]"
    if q[0] == "parallel":
        a = enc_args(q[1])
        return ["show_flat pinit_src %s %s %s" % (KCOQ[dk], sp, a), "show_flat parallel_init_dk %s %s %s" % (KCOQ[dk], sp, a)]
    pr = tuple("None" if v is None else "(Some %s)" % z(v) for v in q[1:3])
    return ["show_active %s %s %s %s" % ((KCOQ[dk], sp) + pr)]


def model_traces(ctx, progs, name):
    exprs = ["show_run %s" % enc_prog(p) for p in progs]
    vals = ctx.coq_eval_lines(REQ, DEFS, exprs, name=name, shard=60)
    return [parse_coq_lists(v) for v in vals]


def impl_trace_canon(prog, r, t):
    pairs = pair_trace(prog, r["traces"][t])
    return [canon_obs(q, res) for q, res in pairs] + [canon_cfg(r["final"][t]) + [1]]


# ------------------------------------------------------------- second stream: start method, life of an object
K_F19 = "settings-lost-after-abort:loky-abort_everything-reconfigures-without-backend-kwargs"
METHOD = {"spawn": 1, "forkserver": 2, "fork": 3}
LIFE_ARGS = {"n_jobs": 2, "max_nbytes": 10, "temp_folder": "/tmp/verif-c17-life", "mmap_mode": "c", "verbose": 0}
LIFE_WITNESS = {"mode": "life", "backend": "recloky", "args": LIFE_ARGS, "enclosing": None, "ops": ["enter", "ok", "fail", "ok"]}


def gen_life_stream(rng, quick):
    """{env value: [cases]}"""
    out = {}
    for env in (None, "spawn", "forkserver", "fork"):
        cs = [{"mode": "ctx", "arg": a, "enclosing": e, "build": False}
              for a in (None, "spawn", "forkserver", "fork") for e in (None, "multiprocessing", "threading")]
        out[env] = cs
    # the pool that is really built (slow start methods: a few cases only)
    out[None].append({"mode": "ctx", "arg": "spawn", "enclosing": None, "build": True})
    out["forkserver"].append({"mode": "ctx", "arg": "spawn", "enclosing": None, "build": True})
    out["forkserver"].append({"mode": "ctx", "arg": None, "enclosing": "multiprocessing", "build": True})
    out["spawn"].append({"mode": "ctx", "arg": "fork", "enclosing": "threading", "build": True})
    if not quick:
        out["fork"].append({"mode": "ctx", "arg": "forkserver", "enclosing": None, "build": True})
        out["spawn"].append({"mode": "ctx", "arg": None, "enclosing": "multiprocessing", "build": True})
    histories = [["enter", "ok", "fail", "ok", "exit"], ["enter", "fail", "fail", "ok"], ["ok", "fail", "ok"],
                 ["enter", "ok", "exit", "ok", "fail"]]
    if not quick:
        histories += [["enter", "fail", "exit", "enter", "ok", "fail", "ok"], ["fail", "enter", "ok", "fail"]]
    ctx_settings = {"max_nbytes": 10, "temp_folder": "/tmp/verif-c17-life", "mmap_mode": "c"}
    for b_ in ("recmp", "recthr", "recloky"):
        for h in histories:
            out[None].append({"mode": "life", "backend": b_, "args": LIFE_ARGS, "enclosing": None, "ops": h})
        # the same settings resolved from an enclosing parallel_config instead of explicit arguments
        out[None].append({"mode": "life", "backend": b_, "args": {"n_jobs": 2}, "enclosing": ctx_settings, "ops": histories[0]})
    # the start-method context must survive the reconfiguration too
    out["forkserver"].append({"mode": "life", "backend": "recmp", "args": LIFE_ARGS, "enclosing": None, "ops": ["enter", "fail", "ok"]})
    return out


def run_life_stream(stream):
    import concurrent.futures as cf

    def one(item):
        env, cs = item
        if isinstance(env, str) and env.startswith("tf:"):
            extra = {"JOBLIB_TEMP_FOLDER": env[3:]}
        elif env in (None, "tf-unset") or (isinstance(env, str) and env.startswith("scope-")):
            extra = {}
        else:
            extra = {"JOBLIB_START_METHOD": env}
        e = common.impl_env(extra)
        if "JOBLIB_START_METHOD" not in extra:
            e.pop("JOBLIB_START_METHOD", None)
        if "JOBLIB_TEMP_FOLDER" not in extra:
            e.pop("JOBLIB_TEMP_FOLDER", None)
        rc, out, err = common.run_impl("c17_life_impl.py", input_text="\n".join(json.dumps(c) for c in cs) + "\n", env=e, timeout=900)
        lines = [json.loads(l) for l in out.splitlines() if l.strip()]
        if len(lines) != len(cs):
            raise RuntimeError("c17_life_impl (%s) produced %d results for %d cases: %s" % (env, len(lines), len(cs), err[-1500:]))
        return env, lines
    with cf.ThreadPoolExecutor(4) as ex:
        return dict(ex.map(one, list(stream.items())))


def oracle_ctx(env, c, r):
    """explicit context object > JOBLIB_START_METHOD > library default"""
    if "harness_error" in r:
        return "harness error " + r["harness_error"]
    exp = c["arg"] or env or r["default"]
    if r["context"] != exp:
        return ("start method of _backend_kwargs['context'] is %r, expected %r (explicit context object %r > JOBLIB_START_METHOD "
                "%r > default %r)" % (r["context"], exp, c["arg"], env, r["default"]))
    if "pool_context" in r and r["pool_context"] != exp:
        return "the pool actually built uses start method %r, expected %r" % (r["pool_context"], exp)
    kind = "MultiprocessingBackend" if c["arg"] else {None: "LokyBackend", "multiprocessing": "MultiprocessingBackend",
                                                       "threading": "ThreadingBackend"}[c["enclosing"]]
    if r["kind"] != kind:
        return "backend %s, expected %s" % (r["kind"], kind)
    return None


def oracle_life(c, r):
    """what the backend is configured with is, every time, what the first configuration of that object got"""
    if "harness_error" in r:
        return "harness error " + r["harness_error"], None
    calls = r["configure_calls"]
    if not calls:
        return "the backend was never configured", None
    first = calls[0]
    if first["n_jobs"] != r["resolved"]["n_jobs"] or first["kwargs"] != r["resolved"]["kwargs"]:
        return "first configuration %s differs from what Parallel.__init__ resolved %s" % (first, r["resolved"]), None
    for i, k in enumerate(calls[1:], 1):
        if k != first:
            lost = sorted(x for x in first["kwargs"] if k["kwargs"].get(x) != first["kwargs"][x])
            key = None      # (F46, loky dropping the kwargs, is fixed: any such loss is a violation again)
            return ("configure call #%d of the same Parallel object (history %s) lost %s: got %s, the object was first configured "
                    "with %s" % (i + 1, c["ops"], lost, {x: k["kwargs"][x] for x in lost}, {x: first["kwargs"][x] for x in lost})), key
    return None, None


REQ_LIFE = """From Coq Require Import ZArith List Bool.
Require Import JV.Base.PyPrelude JV.Model.Config%s.
Import ListNotations. Open Scope Z_scope."""
DEFS_LIFE = """Definition dummy : pres := {| r_kind := BMp; r_level := 0; r_njobs := 2; r_verbose := 0; r_kw_maxnb := Some 10; r_kw_temp := 1;
  r_kw_mmap := 4; r_kw_prefer := 0; r_kw_require := 0; r_kw_verbose := 0 |}.
Definition show_calls (passes : bool) (ops : list oop) : list Z :=
  map (fun c => match c with CFull _ => 1 | CBare _ => 0 end) (o_calls (orun passes ops (new_obj dummy)))."""
OPC = {"enter": "OEnter", "ok": "OCallOk", "fail": "OCallFail", "exit": "OExit"}


F47_WITNESS = [{"mode": "pool", "backend": "loky", "args": {}, "enclosing": None, "objkw": None},
               {"mode": "pool", "backend": "loky", "args": {"temp_folder": "<tmp>/tf/arg"}, "enclosing": None, "objkw": None}]
F16_WITNESS = {"threads": [["with", "config", {"n_jobs": [2]}, ["obs", ["parallel", {"prefer": 1}]]]], "schedule": []}
F16B_WITNESS = {"threads": [["with", "config", {"n_jobs": [3]}, ["obs", ["parallel", {"require": 1}]]]], "schedule": []}
F17_WITNESS = {"threads": [["with", "config", {"require": 1},
                            ["obs", ["parallel", {"backend": ["inst", "loky", None, True], "n_jobs": [2]}]]]], "schedule": []}


# ---- third stream: the temp folder the pool really uses, the kwargs the pool is really built with
def gen_pool_stream(tmp):
    A, C, O, E = (os.path.join(tmp, "tf", n) for n in ("arg", "ctx", "obj", "env"))
    out = {}
    for env in ("tf:" + E, "tf-unset"):
        cs = [{"mode": "tempdir", "arg": None}, {"mode": "tempdir", "arg": A}]
        for bk in ("multiprocessing", "loky"):
            cs += [{"mode": "pool", "backend": bk, "args": {}, "enclosing": None, "objkw": None},
                   {"mode": "pool", "backend": bk, "args": {"temp_folder": A}, "enclosing": None, "objkw": None},
                   {"mode": "pool", "backend": bk, "args": {}, "enclosing": {"backend": bk, "temp_folder": C}, "objkw": None},
                   {"mode": "pool", "backend": bk, "args": {"temp_folder": A}, "enclosing": {"temp_folder": C}, "objkw": None}]
        out[env] = cs
    # parameters carried by the backend object vs the same key passed by the call
    m = "multiprocessing"
    out["tf-unset"] += [
        {"mode": "pool", "backend": m, "args": {}, "enclosing": {"backend": m, "maxtasksperchild": 7}, "objkw": None},
        {"mode": "pool", "backend": m, "args": {"maxtasksperchild": 1}, "enclosing": {"backend": m, "maxtasksperchild": 7}, "objkw": None},
        {"mode": "pool", "backend": m, "args": {}, "enclosing": None, "objkw": {"maxtasksperchild": 7}},
        {"mode": "pool", "backend": m, "args": {"maxtasksperchild": 1}, "enclosing": None, "objkw": {"maxtasksperchild": 7}},
        {"mode": "pool", "backend": m, "args": {"temp_folder": A}, "enclosing": None, "objkw": {"temp_folder": O}},
        {"mode": "pool", "backend": m, "args": {}, "enclosing": {"temp_folder": C}, "objkw": {"temp_folder": O}},
    ]
    lk = "loky"
    out["tf-unset"] += [
        # explicit means passed, not truthy: 0 must reach the executor / pool
        {"mode": "pool", "backend": lk, "args": {"idle_worker_timeout": 0}, "enclosing": {"backend": lk, "idle_worker_timeout": 5}, "objkw": None},
        {"mode": "pool", "backend": lk, "args": {}, "enclosing": {"backend": lk, "idle_worker_timeout": 5}, "objkw": None},
        {"mode": "pool", "backend": lk, "args": {"idle_worker_timeout": 0}, "enclosing": None, "objkw": None},
        {"mode": "pool", "backend": lk, "args": {"idle_worker_timeout": 7}, "enclosing": None, "objkw": {"idle_worker_timeout": 0}},
        {"mode": "pool", "backend": lk, "args": {"max_nbytes": 0}, "enclosing": {"max_nbytes": 100}, "objkw": None},
        {"mode": "pool", "backend": m, "args": {"max_nbytes": 0, "verbose": 0}, "enclosing": {"max_nbytes": 100, "verbose": 60}, "objkw": None},
        {"mode": "pool", "backend": m, "args": {"max_nbytes": None}, "enclosing": {"max_nbytes": 100}, "objkw": None},
        # the n_jobs a backend asks for nested calls: the same in process workers (pickled batch) and in threads
        {"mode": "nestednjobs", "base": "loky", "nested_n_jobs": 3},
        {"mode": "nestednjobs", "base": "threading", "nested_n_jobs": 3},
        {"mode": "nestednjobs", "base": "multiprocessing", "nested_n_jobs": 3},
    ]
    # the n_jobs of a block that has been left must not survive in the shared loky executor (own interpreters: fresh executors)
    for k, (inner, after) in enumerate([(4, 2), (3, 2), (2, 4)]):
        d = os.path.join(tmp, "scope-%d" % k)
        os.makedirs(d, exist_ok=True)
        out["scope-%d" % k] = [{"mode": "scope", "logdir": d, "inner": inner, "after": after}]
    return out, {"A": A, "C": C, "O": O, "E": E}


K_F47 = "temp_folder-ignored:loky-reused-executor-keeps-the-folder-it-was-created-with"


def oracle_pool(env, c, r, paths, prev=None):
    """the folder really used: explicit temp_folder > the context's > JOBLIB_TEMP_FOLDER > the library default; a key passed by
    the call beats the same key carried by the backend object"""
    if "harness_error" in r:
        return "harness error " + r["harness_error"]
    envp = env[3:] if env.startswith("tf:") else None
    if c["mode"] == "scope":
        hw, pids = {}, {}
        for q in ("q0", "q1"):
            run_now = m_ = 0
            for e in r["events"]:
                if e["e"] in ("S", "E") and e["call"] == q:
                    run_now += 1 if e["e"] == "S" else -1
                    m_ = max(m_, run_now)
            hw[q] = m_
            pids[q] = len({e["pid"] for e in r["events"] if e["e"] == "S" and e["call"] == q})
        if any(e["e"] == "T" for e in r["events"]):
            return None      # a barrier timed out: inconclusive, never a violation
        if r["n1"] != c["inner"] or r["n2"] != c["after"]:
            return "n_jobs resolved to %s inside the block and %s after it, expected %d and %d" % (r["n1"], r["n2"], c["inner"], c["after"])
        if hw["q1"] > c["after"]:      # (the number of distinct pids is not used: workers may legitimately be replaced during a resize)
            return ("after `with parallel_config(n_jobs=%d): Parallel()(...)` was left, Parallel(n_jobs=%d) still ran %d tasks at once on %d "
                    "worker processes (executor reused: %s, _max_workers %s): the block's setting leaked out of its scope" % (
                        c["inner"], c["after"], hw["q1"], pids["q1"], r["executor_reused"], r["max_workers_after"]))
        if hw["q0"] != c["inner"] or hw["q1"] != c["after"]:
            return "high-water marks %s, expected %d then %d" % (hw, c["inner"], c["after"])
        return None
    if c["mode"] == "nestednjobs":
        for w in r["workers"]:
            if w["context_n_jobs"] != c["nested_n_jobs"] or w["parallel_n_jobs"] != c["nested_n_jobs"]:
                where = "a worker process (the batch was pickled)" if w["pid"] != r["caller_pid"] else "a worker thread"
                return ("a %s-based backend asks n_jobs=%d for nested calls (get_nested_backend), but in %s the context says n_jobs=%r "
                        "and a nested Parallel() gets n_jobs=%r" % (c["base"], c["nested_n_jobs"], where, w["context_n_jobs"], w["parallel_n_jobs"]))
        return None
    if c["mode"] == "tempdir":
        exp = c["arg"] or envp or r["default_parent"]
        return None if r["parent"] == exp else "_get_temp_dir(name, %r) with JOBLIB_TEMP_FOLDER=%r uses %r, expected %r" % (
            c["arg"], envp, r["parent"], exp)
    given = c["args"].get("temp_folder") or (c.get("enclosing") or {}).get("temp_folder")
    exp = given or envp or r["default_parent"]
    if r["pool_temp_parent"] != exp and c["backend"] == "loky" and prev is not None and prev[0] == r.get("executor_id") \
            and r["pool_temp_parent"] == prev[1]:
        return ("the loky executor of an earlier call was reused and kept ITS temp folder %r; the temp_folder resolved for this call "
                "(%r) is ignored" % (prev[1], exp))
    if r["pool_temp_parent"] != exp:
        return ("the %s pool really uses temp folder %r, expected %r (explicit %r > context %r > JOBLIB_TEMP_FOLDER %r > default)" % (
            c["backend"], r["pool_temp_parent"], exp, c["args"].get("temp_folder"), (c.get("enclosing") or {}).get("temp_folder"), envp))
    if c["backend"] == "multiprocessing":
        obj = (c.get("objkw") or {}).get("maxtasksperchild", (c.get("enclosing") or {}).get("maxtasksperchild"))
        want = c["args"].get("maxtasksperchild", obj)
        if r["maxtasksperchild"] != want:
            return ("the pool was built with maxtasksperchild=%r, expected %r (Parallel argument %r > the backend object's own %r)" % (
                r["maxtasksperchild"], want, c["args"].get("maxtasksperchild"), obj))
    if r["built"]:
        kw = r["built"][0]["kwargs"]
        if c["backend"] == "loky":
            obj = (c.get("objkw") or {}).get("idle_worker_timeout", (c.get("enclosing") or {}).get("idle_worker_timeout"))
            want = c["args"]["idle_worker_timeout"] if "idle_worker_timeout" in c["args"] else (obj if obj is not None else 300)
            if kw.get("timeout") != want:
                return ("the loky executor was built with idle timeout %r, expected %r (Parallel argument %r -- passed, even if 0 -- > "
                        "the backend object's %r > 300)" % (kw.get("timeout"), want, c["args"].get("idle_worker_timeout", "<not passed>"), obj))
        if "max_nbytes" in c["args"] or "max_nbytes" in (c.get("enclosing") or {}):
            want = c["args"]["max_nbytes"] if "max_nbytes" in c["args"] else c["enclosing"]["max_nbytes"]
            if kw.get("max_nbytes", "<absent>") != want:
                return "the %s pool was built with max_nbytes=%r, expected %r (an explicit 0 / None is an explicit value)" % (
                    c["backend"], kw.get("max_nbytes", "<absent>"), want)
    if len(r["built"]) != 1 or r["built"][0]["size"] != 2:
        return "the pool / executor was built %s, expected once with 2 workers" % r["built"]
    return None


def search_life(ctx):
    stream = gen_life_stream(ctx.rng, True)
    sres = run_life_stream(stream)
    for env, cs in stream.items():
        for c, r in zip(cs, sres[env]):
            if c["mode"] == "ctx":
                bad, key = oracle_ctx(env, c, r), None
            else:
                bad, key = oracle_life(c, r)
            if bad and key is None:
                return bad, dict(c, env=env)
    npc = [{"backend": bk, "arg": a, "ctx": cx} for bk in ("multiprocessing", "loky") for a, cx in [("c", "<unset>"), ("<unset>", "r+")]]
    rc, o, e = common.run_impl("c17_np_impl.py", input_text="\n".join(json.dumps(c) for c in npc) + "\n", timeout=600, py=common.PYNP)
    for c, r in zip(npc, [json.loads(l) for l in o.splitlines() if l.strip()]):
        want = c["arg"] if c["arg"] != "<unset>" else c["ctx"]
        if "received" in r and any(rep[0] != "memmap" or rep[1] != want for rep in r["received"]):
            return ("the %s workers received %s for an array above max_nbytes with mmap_mode=%r" % (c["backend"], r["received"][0][:3], want),
                    dict(c, mode="np"))
    pstream, paths = gen_pool_stream(ctx.tmp)
    pres = run_life_stream(pstream)
    for env, cs in pstream.items():
        prev = None
        for c, r in zip(cs, pres[env]):
            bad = oracle_pool(env, c, r, paths, prev)
            if c["mode"] == "pool" and c["backend"] == "loky" and "executor_id" in r:
                prev = (r["executor_id"], r["pool_temp_parent"])
            if bad:
                return bad, ({"mode": "pool-sequence", "env": env, "sequence": [x for x in cs[:cs.index(c) + 1]
                                                                                 if x["mode"] == "pool" and x["backend"] == "loky"]}
                             if c["mode"] == "pool" and c["backend"] == "loky" else dict(c, env=env))
    return None


def search_failing(ctx, n=300):
    hit = search_life(ctx)
    if hit:
        return hit
    progs = [rnd_prog(ctx.rng, 0, 3) for _ in range(n)]
    cases = make_cases(progs, ctx.rng)
    res = run_impl_cases(cases)
    for c, r in zip(cases, res):
        for bad, key, detail in judge_case(c, r):
            if key is None:
                return bad, (minimal_replay(detail) if detail and "query" in detail else c)
    return None


def run(ctx):
    quick = ctx.tier == "quick"
    trusted = [
        "Coq 8.16.1 kernel (coqc); vm_compute used in the witnesses/examples and in the cases evaluation; no native_compute",
        "harness/translate_c17.py (extended copy of the fail-closed translator) + table in gen_c17.py: a value 'is the "
        "sentinel' iff it is None on the Coq side; <sentinel>.default_value is the key's default",
        "threading.local gives every thread its own attribute namespace (modelled as a map from thread ids to states); "
        "validated by the interleaved real-thread runs, not proved",
        "the hand-written model Model/Config.v of parallel_config.__init__/__exit__, _get_active_backend, Parallel.__init__ "
        "(tied by the correspondence run below); inner_max_num_threads / backend_params / dask / non-`with` use of a "
        "manager object are not modelled",
        "the harness: program generator, scripted thread scheduler, canonicalisation, the Python oracle",
    ]
    translator_ok = True
    gens = [(gen_c17.generate, "T_config_param", "_get_config_param"),
            (gen_c17.generate_active_backend, "T_active_backend", "_get_active_backend"),
            (gen_c17.generate_mp_context, "T_mp_context", "Parallel.__init__ mp context / abort_everything"),
            (gen_c17.generate_backend_attrs, "T_backend_attrs", "class attributes of the backend classes"),
            (gen_c17.generate_pool_settings, "T_pool_settings", "_get_temp_dir / backend kwargs merge"),
            (gen_c15.generate_executor, "T_executor", "_resize / get_reusable_executor decisions")]
    rejected = set()
    for gen, fname, label in gens:
        try:
            _, changed, _ = gen()
            if changed:
                ctx.note("Gen/%s.v changed: the source of %s differs from the last run" % (fname, label))
        except translate_c17.TranslateError as e:
            translator_ok = False
            rejected.add(fname)
            good = os.path.join(common.COQ, "Gen", ".%s.v.good" % fname)
            if os.path.exists(good):   # proofs are then checked against the last translation that was proved, not a stale one
                common.write_if_changed(os.path.join(common.COQ, "Gen", "%s.v" % fname), open(good).read())
            ctx.note("translator rejected %s (%s); falling back to the hand model tie" % (label, e))
    proofs_ok = ctx.standard_proof_stage("C17", search=lambda: search_failing(ctx))
    if proofs_ok:
        for gen, fname, label in gens:
            if fname not in rejected:
                common.write_if_changed(os.path.join(common.COQ, "Gen", ".%s.v.good" % fname),
                                        open(os.path.join(common.COQ, "Gen", "%s.v" % fname)).read())

    # ---- cases
    progs = gen_exhaustive(quick)
    n_exh = len(progs)
    n_rand = 240 if quick else 3000
    progs += [rnd_prog(ctx.rng, 0, 4) for _ in range(n_rand)]
    corpus_path = os.path.join(common.ROOT, "corpus", "c17.jsonl")
    corpus = [json.loads(l) for l in open(corpus_path) if l.strip()] if os.path.exists(corpus_path) else []
    cases = corpus + make_cases(progs, ctx.rng)
    res = run_impl_cases(cases)

    # ---- oracle
    problems, findings = [], {}
    n_obs = 0
    nontrivial = set()
    dist = {"parallel_ok": 0, "parallel_raise": 0, "active": 0, "config": 0, "blocks_normal": 0, "blocks_exception": 0,
            "blocks_construct_raised": 0, "max_depth": 0}
    for c, r in zip(cases, res):
        for bad, key, detail in judge_case(c, r):
            if key is not None:
                findings.setdefault(key, (bad, detail))
            else:
                problems.append((bad, c, detail))
        if "harness_error" in r:
            continue
        for t, prog in enumerate(c["threads"]):
            for b in r["blocks"][t]:
                dist["max_depth"] = max(dist["max_depth"], b["depth"] + 1)
                dist["blocks_" + ("normal" if b["exit"] == "normal" else "exception" if b["exit"] == "exception"
                                  else "construct_raised")] += 1
            for (q, rr), stack in zip(pair_trace(prog, r["traces"][t]), r["obs_ctx"][t]):
                n_obs += 1
                if q[0] == "parallel":
                    dist["parallel_raise" if "raise" in rr else "parallel_ok"] += 1
                    if stack and (q[1] or "raise" in rr):
                        nontrivial.add(json.dumps([q, stack], sort_keys=True))
                else:
                    dist[q[0]] += 1

    # ---- model
    flat = [(ci, t, p) for ci, c in enumerate(cases) for t, p in enumerate(c["threads"])]
    mvals = model_traces(ctx, [p for _, _, p in flat], "c17")
    disagreements = []
    for (ci, t, p), mv in zip(flat, mvals):
        r = res[ci]
        if "harness_error" in r:
            continue
        iv = impl_trace_canon(p, r, t)
        if iv != mv:
            k = next((i for i, (a, b) in enumerate(zip(iv, mv)) if a != b), min(len(iv), len(mv)))
            disagreements.append({"case": cases[ci], "thread": t, "position": k,
                                  "impl": iv[k] if k < len(iv) else None, "model": mv[k] if k < len(mv) else None})

    # ---- flat cases under every registered default backend class: implementation vs Parallel.__init__ on the REGENERATED
    # ---- _get_active_backend vs the hand model; judged by the same oracle
    ctx.coq_build(["Gen/T_active_backend.vo"])
    flats = gen_flat(ctx.rng, quick)
    fcases = [flat_case(*f) for f in flats]
    fres = run_impl_cases(fcases)
    for c, r in zip(fcases, fres):
        for bad, key, detail in judge_case(c, r):
            if key is not None:
                findings.setdefault(key, (bad, detail))
            else:
                problems.append((bad, c, detail))
    use_src = "T_active_backend" not in rejected and os.path.exists(os.path.join(common.COQ, "Gen", "T_active_backend.vo"))
    fexprs, fidx = [], []
    for i, f in enumerate(flats):
        for e in flat_exprs(*f):
            if not use_src and ("pinit_src" in e or "show_active" in e):
                continue
            fexprs.append(e)
            fidx.append(i)
    fvals = ctx.coq_eval_lines(REQ_FLAT if use_src else REQ,
                               DEFS + "\n" + DEFS_FLAT_BASE + ("\n" + DEFS_FLAT_SRC if use_src else ""),
                               fexprs, name="c17_flat", shard=400)
    for i, e, v in zip(fidx, fexprs, fvals):
        r = fres[i]
        if "harness_error" in r:
            continue
        q = flats[i][2]
        tr = r["traces"][0]
        iv = canon_obs(q, tr[0]) if tr else [9]
        if parse_coq_lists(v) != iv:
            disagreements.append({"case": fcases[i], "function": e.split()[1] if e.startswith("show_flat") else "src_get_active_backend",
                                  "impl": iv, "model": v})
    n_obs += len(flats)

    MODES = {"r": 1, "r+": 2, "w+": 3, "c": 4}
    npcases = [{"backend": bk, "arg": a, "ctx": cx} for bk in ("multiprocessing", "loky")
               for a, cx in [("<unset>", "<unset>"), ("c", "<unset>"), ("r+", "<unset>"), ("w+", "<unset>"), ("<unset>", "c"),
                             ("<unset>", "r+"), ("r", "c"), ("c", "r+")]]
    if quick:
        npcases = [c for i, c in enumerate(npcases) if i % 8 in (0, 1, 2, 3, 4, 6)]
    import concurrent.futures as cf_np
    np_pool = cf_np.ThreadPoolExecutor(1)
    np_future = np_pool.submit(common.run_impl, "c17_np_impl.py", (), "\n".join(json.dumps(c) for c in npcases) + "\n",
                               None, 600, common.PYNP)      # runs while the other streams are executed
    # ---- second stream: start method (one interpreter per JOBLIB_START_METHOD value) and the life of one object
    ctx.coq_build(["Gen/T_mp_context.vo"])
    stream = gen_life_stream(ctx.rng, quick)
    sres = run_life_stream(stream)
    use_mpc = "T_mp_context" not in rejected and os.path.exists(os.path.join(common.COQ, "Gen", "T_mp_context.vo"))
    life_problems, lexprs, lmeta = [], [], []
    life_stats = {"ctx_cases": 0, "pools_built": 0, "life_cases": 0, "configure_calls": 0}
    for env, cs in stream.items():
        for c, r in zip(cs, sres[env]):
            if c["mode"] == "ctx":
                life_stats["ctx_cases"] += 1
                life_stats["pools_built"] += 1 if "pool_context" in r else 0
                bad = oracle_ctx(env, c, r)
                if bad:
                    life_problems.append((bad, dict(c, env=env), r))
                if "harness_error" not in r:
                    fn = "src_mp_context" if use_mpc else "(fun e a d => Some (mp_context_model e a d))"
                    lexprs.append("match %s %s %s %d with Some v => [v] | None => [0] end" % (
                        fn, "None" if env is None else "(Some %d)" % METHOD[env],
                        "None" if c["arg"] is None else "(Some %d)" % METHOD[c["arg"]], METHOD[r["default"]]))
                    lmeta.append((dict(c, env=env), [METHOD.get(r["context"], -1)], r))
            else:
                life_stats["life_cases"] += 1
                bad, key = oracle_life(c, r)
                if bad and key:
                    findings.setdefault(key, (bad, None))
                elif bad:
                    life_problems.append((bad, dict(c, env=env), r))
                if "harness_error" not in r:
                    life_stats["configure_calls"] += len(r["configure_calls"])
                    passes = ("loky_abort_passes_kwargs" if c["backend"] == "recloky" else "pool_abort_passes_kwargs") if use_mpc \
                        else "true"
                    lexprs.append("show_calls %s [%s]" % (passes, "; ".join(OPC[o] for o in c["ops"])))
                    first = r["configure_calls"][0] if r["configure_calls"] else None
                    lmeta.append((dict(c, env=env), [1 if k == first else 0 for k in r["configure_calls"]], r))
    lvals = ctx.coq_eval_lines(REQ_LIFE % (" JV.Gen.T_mp_context" if use_mpc else ""), DEFS_LIFE, lexprs, name="c17_life")
    for (c, iv, r), v in zip(lmeta, lvals):
        if parse_coq_lists(v) != iv:
            disagreements.append({"case": c, "function": "src_mp_context / object life machine", "impl": iv, "model": v, "raw": r})
    n_obs += life_stats["ctx_cases"] + life_stats["configure_calls"]

    # ---- third stream: temp folder really used / kwargs the pool is really built with (JOBLIB_TEMP_FOLDER set / unset)
    ctx.coq_build(["Gen/T_pool_settings.vo"])
    pstream, paths = gen_pool_stream(ctx.tmp)
    pres = run_life_stream(pstream)
    use_ps = "T_pool_settings" not in rejected and os.path.exists(os.path.join(common.COQ, "Gen", "T_pool_settings.vo"))
    pexprs, pmeta = [], []
    pool_stats = {"tempdir_units": 0, "pools_built": 0}
    code = {paths["A"]: 1, paths["C"]: 2, paths["E"]: 3, "/dev/shm": 4, paths["O"]: 6}
    for env, cs in pstream.items():
        envp = env[3:] if env.startswith("tf:") else None
        prev = None
        loky_hist = []
        for c, r in zip(cs, pres[env]):
            bad = oracle_pool(env, c, r, paths, prev)
            if c["mode"] == "pool" and c["backend"] == "loky":
                loky_hist.append(c)
            if bad and c["mode"] == "pool" and c["backend"] == "loky" and prev is not None:
                # the earlier loky calls of the same process are part of the failing input
                life_problems.append((bad, {"mode": "pool-sequence", "env": env, "sequence": list(loky_hist)}, r))
            elif bad:
                life_problems.append((bad, dict(c, env=env), r))
            if "harness_error" in r:
                continue
            if c["mode"] == "scope":
                pool_stats["scope_histories"] = pool_stats.get("scope_histories", 0) + 1
                continue
            if c["mode"] == "nestednjobs":
                fnk = "batch_njobs_in_worker reduce_keeps_njobs" if use_mpc else "batch_njobs_in_worker true"
                for w in r["workers"]:
                    pexprs.append("match %s %s (Some %d) with Some v => [v] | None => [0] end" % (
                        fnk, "true" if w["pid"] != r["caller_pid"] else "false", c["nested_n_jobs"]))
                    pmeta.append((dict(c, env=env), [w["context_n_jobs"] or 0], r))
                pool_stats["nested_probes"] = pool_stats.get("nested_probes", 0) + len(r["workers"])
                continue
            if c["mode"] == "pool" and c["backend"] == "loky" and r["built"]:
                obj = (c.get("objkw") or {}).get("idle_worker_timeout", (c.get("enclosing") or {}).get("idle_worker_timeout"))
                call = c["args"].get("idle_worker_timeout")
                fni = "src_idle_worker_timeout" if use_mpc else "(fun c o => Ok (gcp c o 300))"
                pexprs.append("match %s %s %s with Ok v => [v] | Raise _ => [-1] end" % (
                    fni, "None" if call is None else "(Some %d)" % call, "None" if obj is None else "(Some %d)" % obj))
                pmeta.append((dict(c, env=env), [r["built"][0]["kwargs"].get("timeout", -1)], r))
            if c["mode"] == "pool" and c["backend"] == "loky":
                g_ = c["args"].get("temp_folder") or (c.get("enclosing") or {}).get("temp_folder") or envp or r["default_parent"]
                reused = prev is not None and prev[0] == r["executor_id"]
                fnl = "loky_folder_used reuse_key_has_temp_folder reused_executor_gets_new_manager" if use_ps else "loky_folder_used false false"
                pexprs.append("[%s %d %d %s]" % (fnl, code.get(prev[1], 5) if prev else 0, code.get(g_, 5), "true" if reused else "false"))
                pmeta.append((dict(c, env=env), [code.get(r["pool_temp_parent"], 5)], r))
                prev = (r["executor_id"], r["pool_temp_parent"])
                pool_stats["pools_built"] += 1
                continue
            pool_stats["tempdir_units" if c["mode"] == "tempdir" else "pools_built"] += 1
            shm = "(Some 4)" if r["default_parent"] == "/dev/shm" else "None"
            given = c["arg"] if c["mode"] == "tempdir" else (c["args"].get("temp_folder") or (c.get("enclosing") or {}).get("temp_folder"))
            fn = "src_temp_folder" if use_ps else "(fun a e s d => Some (gcp a e (gcp s None d)))"
            pexprs.append("match %s %s %s %s 5 with Some v => [v] | None => [0] end" % (
                fn, "None" if given is None else "(Some %d)" % code[given], "None" if envp is None else "(Some 3)", shm))
            got = r["parent"] if c["mode"] == "tempdir" else r["pool_temp_parent"]
            pmeta.append((dict(c, env=env), [code.get(got, 5)], r))
            if c["mode"] == "pool" and c["backend"] == "multiprocessing":
                obj = (c.get("objkw") or {}).get("maxtasksperchild", (c.get("enclosing") or {}).get("maxtasksperchild"))
                call = c["args"].get("maxtasksperchild")
                fn2 = "src_mp_pool_kwarg" if use_ps else "(fun o c => match c with Some v => Some v | None => o end)"
                pexprs.append("match %s %s %s with Some v => [v] | None => [0] end" % (
                    fn2, "None" if obj is None else "(Some %d)" % obj, "None" if call is None else "(Some %d)" % call))
                pmeta.append((dict(c, env=env), [r["maxtasksperchild"] or 0], r))
    pvals = ctx.coq_eval_lines(REQ_LIFE % ((" JV.Gen.T_pool_settings" if use_ps else "") + (" JV.Gen.T_mp_context" if use_mpc else "")),
                               "", pexprs, name="c17_pool")
    for (c, iv, r), v in zip(pmeta, pvals):
        if parse_coq_lists(v) != iv:
            disagreements.append({"case": c, "function": "src_temp_folder / src_mp_pool_kwarg", "impl": iv, "model": v, "raw": r})
    n_obs += len(pexprs)

    # ---- numpy stream (python3-vt): the mode of the memmap the worker REALLY receives
    rc, npout, nperr = np_future.result()
    npres = [json.loads(l) for l in npout.splitlines() if l.strip()]
    np_stats = {"cases": len(npcases), "worker_reports": 0}
    if len(npres) != len(npcases):
        ctx.note("numpy stream unavailable (%s): the mmap_mode-in-workers observation was not made" % (nperr[-300:] or "no output"))
        npres = []
    npexprs, npmeta = [], []
    for c, r in zip(npcases, npres):
        if "harness_error" in r:
            life_problems.append(("numpy stream: " + r["harness_error"], dict(c, mode="np"), r))
            continue
        want = c["arg"] if c["arg"] != "<unset>" else (c["ctx"] if c["ctx"] != "<unset>" else "r")
        got_mode = "r+" if want == "w+" else want
        for rep in r["received"]:
            np_stats["worker_reports"] += 1
            if rep[0] != "memmap" or rep[1] != got_mode or rep[2] != (got_mode != "r") or rep[3] != 3:
                life_problems.append(("the %s workers received %s for an array above max_nbytes with mmap_mode=%r (explicit %r > context %r > "
                                      "'r'): expected a memmap of mode %r, writable=%s" % (c["backend"], rep[:3], want, c["arg"], c["ctx"],
                                                                                          got_mode, got_mode != "r"), dict(c, mode="np"), r))
                break
        passes = ("mp_pool_passes_mmap_mode" if c["backend"] == "multiprocessing" else "loky_executor_passes_mmap_mode") if use_ps else "true"
        npexprs.append("[worker_mmap_mode %s %d]" % (passes, MODES[want]))
        npmeta.append((dict(c, mode="np"), [MODES.get(r["received"][0][1], 0)], r))
    if npexprs:
        for (c, iv, r), v in zip(npmeta, ctx.coq_eval_lines(REQ_LIFE % (" JV.Gen.T_pool_settings" if use_ps else ""), "", npexprs, name="c17_np")):
            if parse_coq_lists(v) != iv:
                disagreements.append({"case": c, "function": "worker_mmap_mode", "impl": iv, "model": v, "raw": r})
    n_obs += np_stats["worker_reports"]
    for bad, c, r in life_problems[:3]:
        if isinstance(r, dict) and "events" in r:
            r = {k: v for k, v in r.items() if k != "events"}
        ctx.violation(bad, {"kind": "oracle", "case": c, "impl": r}, True)

    # ---- decide
    for bad, c, detail in problems[:3]:
        rep = c
        if detail and "query" in detail:
            small = minimal_replay(detail, c.get("default_backend"))
            if judge_case(small, run_impl_cases([small], nproc=1)[0]):   # self-contained? else keep the whole history
                rep = small
        if detail and "block" in detail:
            small = minimal_block_replay(detail, c.get("default_backend"))
            if judge_case(small, run_impl_cases([small], nproc=1)[0]):
                rep = small
        ctx.violation(bad, {"kind": "oracle", "case": rep, "detail": detail}, True)
    if disagreements and not problems and not life_problems:
        hit = search_failing(ctx, 600 if quick else 3000)
        if hit:
            ctx.violation(hit[0], {"kind": "model-disagreement+failing-input", "case": hit[1],
                                   "first_disagreement": disagreements[0]}, True)
        else:
            ctx.violation("model and implementation disagree (%d thread traces)" % len(disagreements),
                          {"kind": "correspondence", "first_disagreement": disagreements[0],
                           "correspondence": "Model/Config.v machine vs joblib.parallel under c17_impl.py"},
                          found_input=False)

    # ---- known findings: every witness of a _refuted theorem must still fail on the implementation
    for wit, key in ((F16_WITNESS, K_F16_PREFER), (F16B_WITNESS, K_F16_REQUIRE), (F17_WITNESS, K_F17)):
        r = run_impl_cases([wit], nproc=1)[0]
        js = judge_case(wit, r)
        hit = [j for j in js if j[1] == key]
        if hit:
            ctx.violation(hit[0][0], {"kind": "known-finding", "case": wit}, True, finding_key=key)
        elif js:
            ctx.violation(js[0][0], {"kind": "oracle", "case": wit}, True)
        else:
            ctx.violation("witness of a _refuted theorem no longer fails on the implementation (%s): the model is stale" % key,
                          {"kind": "stale-model", "case": wit, "key": key}, found_input=False)
    for key, (bad, detail) in findings.items():
        ctx.violation(bad, {"kind": "known-finding", "case": LIFE_WITNESS if detail is None else minimal_replay(detail)}, True,
                      finding_key=key)
    if not translator_ok and not disagreements and not problems and proofs_ok:
        ctx.note("translator tie lost, hand-model tie intact")
    ctx.finish({
        "evaluations": n_obs,
        "distinct_nontrivial": len(nontrivial),
        "rule": "programs of nested with-blocks (parallel_config and parallel_backend; subsets of the 8 settings; exits by "
                "fall-through, by raise, by a failing Parallel(...) call, failing manager construction), observations "
                "Parallel(args)/get_active_backend(hints)/config snapshot before, inside and after blocks; 2-3 real threads per "
                "case interleaved by a scripted schedule. exhaustive part: every ordered pair of %d reduced specs x %d reduced "
                "observations at depth 0,1,2 (%d programs); random part: %d programs up to depth 4. non-trivial = a Parallel "
                "observation inside >= 1 block with explicit arguments or raising; distinct by canonical JSON" % (
                    len(RED_SPECS), len(RED_ARGS) + len(RED_ACTIVE), n_exh, n_rand),
        "samples": [cases[-2], cases[-1]],
        "traces_validated_against_impl": len(flat) + len(fexprs),
        "model_evaluations": len(flat) + len(fexprs),
        "flat_cases_per_default_backend": {dk: sum(1 for f in flats if f[0] == dk) for dk in ("loky", "thr", "seq", "mp")},
        "observation_distribution": dist,
        "threads_per_case": sorted({len(c["threads"]) for c in cases}),
        "start_method_and_object_life": life_stats,
        "pool_temp_folder_and_kwargs": pool_stats,
        "numpy_mmap_mode_in_workers": np_stats,
        "disagreements": len(disagreements),
        "translator_ok": translator_ok,
        "exhaustive": "depth<=2 over the reduced value set",
        "trusted_base": trusted,
    }, assumptions=[
        "threading.local isolates threads (CPython)",
        "managers are used through `with` only (well-nested); constructing a parallel_config without entering it is outside the property",
        "backend classes are the four built-in ones or subclasses whose flags are class attributes; default backend is loky (multiprocessing available)",
        "max_nbytes strings have an integer mantissa",
    ])


def replay(ctx, path):
    obj = json.load(open(path))
    rep = obj.get("replay", obj)
    c = rep.get("case") or rep.get("input")
    if c and c.get("mode") == "np":
        rc, o, e = common.run_impl("c17_np_impl.py", input_text=json.dumps(c) + "\n", timeout=300, py=common.PYNP)
        r = json.loads(o.splitlines()[0]) if o.strip() else {"harness_error": e[-300:]}
        want = c["arg"] if c["arg"] != "<unset>" else (c["ctx"] if c["ctx"] != "<unset>" else "r")
        gm = "r+" if want == "w+" else want
        bad = "harness_error" in r or any(rep[0] != "memmap" or rep[1] != gm or rep[2] != (gm != "r") for rep in r.get("received", []))
        print("replay:", json.dumps(c), "->", json.dumps(r)[:300], "=>", "workers did not receive a %r memmap" % gm if bad else "property holds")
        return 1 if bad else 0
    if c and c.get("mode") == "scope":
        d = os.path.join(ctx.tmp, "scope-replay")
        os.makedirs(d, exist_ok=True)
        cc = dict(c, logdir=d)
        r = run_life_stream({"scope-replay": [cc]})["scope-replay"][0]
        bad = oracle_pool("tf-unset", cc, r, None)
        print("replay:", json.dumps(c), "=>", bad or "property holds")
        return 1 if bad else 0
    if c and c.get("mode") == "pool-sequence":
        env = c.get("env")
        rs = run_life_stream({env: c["sequence"]})[env]
        prev, bad = None, None
        for cc, rr in zip(c["sequence"], rs):
            bad = oracle_pool(env, cc, rr, None, prev)
            prev = (rr.get("executor_id"), rr.get("pool_temp_parent"))
        print("replay:", json.dumps(c)[:400], "=>", bad or "property holds")
        return 1 if bad else 0
    if c and c.get("mode") in ("pool", "tempdir"):
        env = c.get("env")
        r = run_life_stream({env: [c]})[env][0]
        bad = oracle_pool(env, c, r, None)
        print("replay:", json.dumps(c), "->", json.dumps(r)[:600], "=>", bad or "property holds")
        return 1 if bad else 0
    if c and c.get("mode") in ("ctx", "life"):
        env = c.get("env")
        r = run_life_stream({env: [c]})[env][0]
        bad = oracle_ctx(env, c, r) if c["mode"] == "ctx" else oracle_life(c, r)[0]
        print("replay:", json.dumps(c), "->", json.dumps(r)[:600], "=>", bad or "property holds")
        return 1 if bad else 0
    if not c or "threads" not in c:
        print("replay file names a broken proof/correspondence, nothing to execute:", rep.get("kind"))
        return 1
    r = run_impl_cases([c], nproc=1)[0]
    js = judge_case(c, r)
    print("replay:", json.dumps(c), "->", json.dumps(r.get("traces")), "=>", [j[0] for j in js] or "property holds")
    return 1 if js else 0
