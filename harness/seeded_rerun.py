#!/usr/bin/env python3
"""Re-run the check of every kept seeded defect (seeded/<PID>-<k>/patch.diff) in a scratch worktree and
refresh the `check` part of its meta.json.  usage: seeded_rerun.py [PID-k ...]"""
import json
import os
import shutil
import subprocess
import sys
import time

ROOT = os.path.dirname(os.path.dirname(os.path.abspath(__file__)))


def sh(cmd, cwd=None, env=None, timeout=3600):
    p = subprocess.run(cmd, cwd=cwd, env=env, stdout=subprocess.PIPE, stderr=subprocess.STDOUT, text=True, timeout=timeout)
    return p.returncode, p.stdout


def main():
    ids = sys.argv[1:] or sorted(os.listdir(os.path.join(ROOT, "seeded")))
    for sid in ids:
        d = os.path.join(ROOT, "seeded", sid)
        if not os.path.exists(os.path.join(d, "patch.diff")):
            continue
        pid = sid.split("-")[0]
        wt = "/tmp/seedwt-rerun-%s" % sid
        sh(["git", "-C", "/repo", "worktree", "remove", "--force", wt])
        sh(["git", "-C", "/repo", "worktree", "add", "--detach", wt, "HEAD"])
        try:
            rc, out = sh(["git", "apply", os.path.join(d, "patch.diff")], cwd=wt)
            if rc != 0:
                print(sid, "PATCH DOES NOT APPLY", out[-200:])
                continue
            t0 = time.time()
            rcc, outc = sh([os.path.join(ROOT, "check"), pid, "--tier", "quick"], cwd=ROOT,
                           env=dict(os.environ, VERIF_REPO=wt), timeout=3000)
            viol = [l for l in outc.splitlines() if l.startswith("VIOLATION")]
            first = None
            if viol:
                try:
                    first = json.load(open(viol[0].split("replay=")[1].split()[0]))["what"][:400]
                except Exception:
                    pass
            meta = json.load(open(os.path.join(d, "meta.json")))
            meta["check"] = {"cmd": "VERIF_REPO=<changed tree> ./check %s --tier quick" % pid, "rc": rcc,
                             "caught": rcc != 0 and bool(viol),
                             "with_failing_input": any("no-failing-input-found" not in l for l in viol),
                             "lines": [l for l in outc.splitlines() if l.startswith("VIOLATION") or "tier=" in l][-4:],
                             "first_violation": first, "wall_s": round(time.time() - t0)}
            json.dump(meta, open(os.path.join(d, "meta.json"), "w"), indent=1)
            print(sid, "caught" if meta["check"]["caught"] else "MISSED", meta["check"]["wall_s"], (first or "")[:100], flush=True)
        finally:
            sh(["git", "-C", "/repo", "worktree", "remove", "--force", wt])
            shutil.rmtree(wt, ignore_errors=True)


if __name__ == "__main__":
    main()
